//! C03 — `execute` returns within `max_cycles`, at a fixpoint or at the bound.
//! Same case/observation format and the same executor as C02 (see c02.rs): one engine, a history of
//! calls; here the histories are one or two `execute_at_time` / `execute_with_callback` calls on
//! self-triggering and mutually triggering rule sets without no-loop, `max_cycles` in 0..=64, timeout None.
//! Every case runs in its own thread with a 5 s deadline: a call that does not return is observed as `hang`
//! (after two hangs the remaining cases of the batch are reported as `hang-skipped`).
//! Three further families put the same loop into the situations in which per-engine / per-cycle bookkeeping can go
//! stale (see `gen_large_kb`, `gen_kb_edit_history`, `gen_after_bound_or_error`):
//!   * large knowledge bases (30..140 rules, sizes next to 32 / 64 / 128 over-represented): gated or never-true fillers
//!     with the self- / mutually triggering rules behind all of them, in the middle, in front, or split;
//!   * histories on ONE engine that alternate execute calls with knowledge-base edits that move rules to other
//!     positions (add above / between / below, remove in front, re-add a removed name, enable / disable, fact edits,
//!     reset_no_loop_tracking) over no-loop / lock-on-active / activation-group rules whose conditions are true;
//!   * a call that ends at the max_cycles bound or with an action error while activation groups are closed,
//!     followed by further calls on the same engine (every ordered pair of the two execute twins);
//!   * a lock-on-active / no-loop rule whose action returns an error (it did NOT fire), the cause repaired between the calls
//!     (`S<f>.<v>` sets the field the action reads), then further calls without re-focusing (`gen_lock_after_error`);
//!   * rules whose action lists consist of workflow bookkeeping actions only (`W.k`: ScheduleRule / CompleteWorkflow /
//!     SetWorkflowData), alone, next to rules that fire in the first passes only, mixed with Set actions, with no-loop
//!     (`gen_workflow_actions`); the random sets draw `W.k` actions as well.
//!   * (c02.rs) 2..4 activations queued by `activate_agenda_group` before one execute (`gen_multi_activate`); caller-owned undo
//!     frames around the calls, rules writing flat keys and dotted paths of existing / missing objects (`gen_undo_frames`);
//!     groups and rule names that are easy to confuse as strings (`gen_confusable_names`).
#[path = "c02.rs"]
#[allow(dead_code)]
mod c02;
use c02::*;
use rre_harness::*;

fn rule(name: u64, sal: i64, flags: u8, cond: (char, u64, i64), acts: Vec<(char, u64, i64)>) -> RuleSpec {
    RuleSpec { name, sal, flags, ag: None, actg: None, eff: None, exp: None, effh: How::Z, exph: How::Z, effn: 0, expn: 0, cond, acts }
}

fn gen(rng: &mut Rng, n: usize, _tier: &str) -> Vec<String> {
    let mut out = Vec::new();
    // every max_cycles value on the three canonical non-quiescing / slowly quiescing sets
    for maxc in 0..=64usize {
        let counter = vec![rule(0, 0, 1, ('L', 0, 40), vec![('A', 0, 1)])];
        let toggle = vec![rule(0, 0, 1, ('E', 0, 0), vec![('S', 0, 1)]), rule(1, 0, 1, ('E', 0, 1), vec![('S', 0, 0)])];
        let pingpong = vec![
            rule(0, 7, 1, ('E', 0, 0), vec![('S', 0, 1), ('A', 1, 1)]),
            rule(1, -5, 1, ('E', 0, 1), vec![('S', 0, 0), ('A', 2, 1)]),
        ];
        for (rs, op) in [(counter, "X10"), (toggle, "C"), (pingpong, "X10;C")] {
            out.push(show_case(&Case { maxc, facts: vec![Some(0), Some(0), Some(0)], rules: rs, ops: vec![op.into()] }));
        }
    }
    for _ in 0..n {
        let nf = 3u64;
        let maxc = match rng.below(8) {
            0 => 0,
            1 => 1,
            2 => 64,
            _ => rng.range(0, 64) as usize,
        };
        let mut rules = Vec::new();
        let kind = rng.below(6);
        let nr = match kind {
            0 => {
                // counters with different bounds and steps
                let k = rng.range(1, 3);
                for i in 0..k {
                    rules.push(rule(i, *rng.pick(&[0i64, 7, -5]), 1, ('L', i % nf, rng.range(1, 70) as i64), vec![('A', i % nf, rng.range(1, 3) as i64)]));
                }
                k
            }
            1 => {
                // never quiesces: always-true self trigger
                rules.push(rule(0, 0, 1, ('G', 0, -1), vec![('A', 0, 1)]));
                rules.push(rule(1, 7, 1, ('E', 1, 5), vec![('S', 1, 0)]));
                2
            }
            2 => {
                // toggle / ping-pong over a ring of states
                let k = rng.range(2, 4);
                for i in 0..k {
                    rules.push(rule(i, rng.range(0, 2) as i64, 1, ('E', 0, i as i64), vec![('S', 0, ((i + 1) % k) as i64), ('A', 1, 1)]));
                }
                k
            }
            3 => {
                // mutual triggering through two fields, quiesces when f2 reaches a bound
                let b = rng.range(1, 30) as i64;
                rules.push(rule(0, 7, 1, ('E', 0, 0), vec![('S', 0, 1), ('A', 2, 1)]));
                rules.push(rule(1, 0, 1, ('E', 0, 1), vec![('S', 0, 2)]));
                rules.push(rule(2, -5, 1, ('L', 2, b), vec![('S', 0, 0)]));
                3
            }
            _ => {
                // random sets, mostly without no-loop
                let k = rng.range(1, 6);
                for i in 0..k {
                    let mut flags = 1u8;
                    if rng.chance(1, 10) {
                        flags |= 2;
                    }
                    if rng.chance(1, 12) {
                        flags |= 4;
                    }
                    if rng.chance(1, 15) {
                        flags &= 6;
                    }
                    let na = rng.range(1, 2);
                    let wonly = rng.chance(1, 6);
                    let acts = (0..na).map(|_| if wonly || rng.chance(1, 8) { ('W', rng.below(3), 0) } else { gen_act(rng, nf, 2) }).collect();
                    let mut r = rule(i, *rng.pick(&[i32::MIN as i64, -5, 0, 0, 7, 7, i32::MAX as i64]), flags, gen_cond(rng, nf), acts);
                    if rng.chance(1, 6) {
                        r.ag = Some(rng.below(2));
                    }
                    if rng.chance(1, 8) {
                        r.actg = Some(0);
                    }
                    rules.push(r);
                }
                k
            }
        };
        let _ = nr;
        let facts: Vec<Option<i64>> = (0..nf).map(|_| if rng.chance(1, 25) { None } else { Some(rng.below(3) as i64) }).collect();
        let mut ops: Vec<String> = Vec::new();
        if rng.chance(1, 6) {
            ops.push(format!("S{}.{}", rng.below(nf), rng.below(3)));
        }
        let ne = if rng.chance(1, 4) { 2 } else { 1 };
        for _ in 0..ne {
            ops.push(if rng.chance(1, 2) { "C".to_string() } else { format!("X{}", rng.pick(&[10u64, 20, 30])) });
        }
        out.push(show_case(&Case { maxc, facts, rules, ops }));
    }
    for _ in 0..(n / 40).max(24) {
        out.push(gen_large_kb(rng));
    }
    for _ in 0..(n / 6).max(40) {
        out.push(gen_kb_edit_history(rng));
    }
    for _ in 0..(n / 10).max(40) {
        out.push(gen_after_bound_or_error(rng));
    }
    for _ in 0..(n / 12).max(40) {
        out.push(gen_lock_after_error(rng));
    }
    for _ in 0..(n / 12).max(40) {
        out.push(gen_workflow_actions(rng));
    }
    // every max_cycles value with a configuration setter in front of (and between) the calls of the plain wrapper
    for maxc in 0..=64usize {
        let counter = vec![rule(0, 0, 1, ('L', 0, 1000), vec![('A', 0, 1)])];
        let ops = match maxc % 4 {
            0 => vec!["B0", "T"],
            1 => vec!["T", "B1", "T"],
            2 => vec!["B1", "B0", "C"],
            _ => vec!["X10", "B0", "X10"],
        };
        out.push(show_case(&Case { maxc, facts: vec![Some(0), Some(0), Some(0)], rules: counter, ops: ops.into_iter().map(String::from).collect() }));
    }
    for _ in 0..(n / 12).max(60) {
        out.push(gen_config_history(rng));
    }
    for _ in 0..(n / 10).max(60) {
        out.push(gen_refocus(rng));
    }
    for _ in 0..(n / 12).max(60) {
        out.push(gen_workflow_calls(rng));
    }
    // date windows at their boundaries, down to nanoseconds (c02.rs): a rule that is inside its window at the evaluation
    // instant must fire, otherwise the call stops early at something that is not a fixpoint of the eligible rules
    for i in 0..(n / 15).max(60) {
        out.push(gen_boundary_walk(rng, i));
    }
    // the whole knowledge base replaced between executes (c02.rs): every rule of the new base takes part in the next call
    for _ in 0..(n / 15).max(60) {
        out.push(gen_kb_replace(rng));
    }
    // c02.rs: 2..4 activations queued by activate_agenda_group before one execute (every one of them is applied before the
    // first pass); caller-owned undo frames around the calls (dotted-path writes under an open frame must return; a rollback
    // restores the facts); agenda / activation groups and rule names that are easy to confuse as strings
    for _ in 0..(n / 20).max(60) {
        out.push(gen_multi_activate(rng));
    }
    for _ in 0..(n / 20).max(60) {
        out.push(gen_undo_frames(rng));
    }
    for _ in 0..(n / 40).max(30) {
        out.push(gen_confusable_names(rng));
    }
    out
}

/// one of the three execute entry points: execute_with_callback, execute_at_time(t), the plain `execute` wrapper
fn exec_op(rng: &mut Rng) -> String {
    match rng.below(8) {
        0..=2 => "C".to_string(),
        3..=5 => format!("X{}", rng.pick(&[10u64, 20, 30])),
        _ => "T".to_string(),
    }
}

// ---------------------------------------------------------------------------------------------
// configuration setters, wrappers and knowledge-base twins between execute calls on one engine

/// The engine is built with a non-default max_cycles (0..=64, never 100) and timeout None; the rule set does not reach a
/// fixpoint within max_cycles (or only in a later call). Between the executes: set_debug_mode(true / false), the other
/// setters that must leave the bound alone (focus calls on MAIN, reset_no_loop_tracking), knowledge-base edits through
/// knowledge_base_mut(), knowledge_base().clear() followed by re-adding. fields: f0 / f1 counters, f2 toggle.
fn gen_config_history(rng: &mut Rng) -> String {
    let maxc = match rng.below(8) {
        0 => 0,
        1 => 1,
        2 => 64,
        3 => 2,
        _ => rng.range(0, 64) as usize,
    };
    let far = 1000i64;
    let near = |rng: &mut Rng| -> i64 { (maxc as i64) + rng.range(1, 2 * maxc as u64 + 3) as i64 };
    let mut rules: Vec<RuleSpec> = match rng.below(5) {
        0 => vec![rule(0, 0, 1, ('L', 0, far), vec![('A', 0, 1)])],
        1 => vec![rule(0, 0, 1, ('L', 0, near(rng)), vec![('A', 0, 1)])],
        2 => vec![rule(0, 0, 1, ('E', 2, 0), vec![('S', 2, 1)]), rule(1, 0, 1, ('E', 2, 1), vec![('S', 2, 0), ('A', 1, 1)])],
        3 => vec![rule(0, 7, 1, ('G', 0, -1), vec![('A', 0, 1)]), rule(1, 0, 3, ('L', 1, far), vec![('A', 1, 1)])],
        _ => vec![rule(0, 0, 1, ('L', 0, near(rng)), vec![('A', 0, 1)]), rule(1, -5, 1, ('L', 1, far), vec![('A', 1, 2)])],
    };
    if rng.chance(1, 5) {
        rules.push(rule(7, 3, 5, ('L', 0, far), vec![('A', 1, 1)])); // lock-on-active bystander
    }
    let setter = |rng: &mut Rng| -> String {
        match rng.below(12) {
            0..=2 => "B0".to_string(),
            3 | 4 => "B1".to_string(),
            5 => "Q1".to_string(),
            6 => "Q0".to_string(),
            7 => "N".to_string(),
            8 => "F0".to_string(),
            9 => "Z".to_string(),
            10 => "P".to_string(),
            _ => format!("S{}.0", rng.below(2)),
        }
    };
    let mut ops: Vec<String> = Vec::new();
    if rng.chance(1, 2) {
        ops.push(exec_op(rng));
    }
    let rounds = rng.range(1, 3);
    for _ in 0..rounds {
        // at least one set_debug_mode per round, possibly among other setters
        let k = rng.range(1, 3);
        let at = rng.below(k);
        for j in 0..k {
            ops.push(if j == at { format!("{}{}", if rng.chance(3, 4) { 'B' } else { 'Q' }, rng.below(2)) } else { setter(rng) });
        }
        match rng.below(10) {
            0 => {
                // knowledge_base_mut() twin: add a second self-trigger, remove / disable / enable through the same path
                ops.push(format!("MA{}", show_rule(&rule(20, *rng.pick(&[9i64, 0, -9]), 1, ('L', 1, far), vec![('A', 1, 1)]))));
            }
            1 => ops.push(format!("M{}{}", rng.pick(&['R', 'D', 'E']), rng.below(2))),
            2 => {
                // clear the rule list, then load a non-quiescing rule again (same or fresh name)
                ops.push("K".to_string());
                if rng.chance(3, 4) {
                    let nm = *rng.pick(&[0u64, 1, 30]);
                    let r = rule(nm, 0, *rng.pick(&[1u8, 1, 3]), ('L', 0, far), vec![('A', 0, 1)]);
                    ops.push(format!("{}A{}", if rng.chance(1, 2) { "M" } else { "" }, show_rule(&r)));
                }
            }
            _ => {}
        }
        ops.push(exec_op(rng));
    }
    show_case(&Case { maxc, facts: vec![Some(0), Some(0), Some(0)], rules, ops })
}

// ---------------------------------------------------------------------------------------------
// re-activating an agenda group (also the one that already has the focus) between execute calls

/// Lock-on-active rules with conditions that stay true, in group g (MAIN or a named group), possibly next to ordinary and
/// no-loop rules. History: activate g (unless MAIN) — execute — RE-activate g in one of the public ways — execute — …
/// Every set_agenda_focus / activate_agenda_group / execute_workflow_step on g is a new activation of g, whether or not g
/// already has the focus: the lock-on-active rules are eligible again, so an execute that stops before the bound must have
/// fired them. Ways: F g while g is active, W g, V g, F other + F g, P / Z + F g; or none (control: nothing may fire).
/// fields: f0 free, f1 / f2 firing counters, f3 one-shot trigger.
fn gen_refocus(rng: &mut Rng) -> String {
    let maxc = *rng.pick(&[2usize, 2, 3, 3, 5, 8, 16, 64, 1]);
    let g = *rng.pick(&[0u64, 0, 1, 1, 2]);
    let other = if g == 1 { 2 } else { 1 };
    let nl = rng.range(1, 3);
    let mut rules = Vec::new();
    for i in 0..nl {
        let flags = *rng.pick(&[5u8, 5, 5, 7]);
        let mut r = rule(i, *rng.pick(&[7i64, 0, 0, -5]), flags, *rng.pick(&[('L', 0, 50), ('G', 1, -1), ('E', 0, 0)]), vec![('A', 1 + i % 2, 1)]);
        r.ag = if g == 0 { if rng.chance(1, 3) { Some(0) } else { None } } else { Some(g) };
        if rng.chance(1, 10) {
            r.actg = Some(0);
        }
        rules.push(r);
    }
    for j in 0..rng.below(3) {
        let name = nl + j;
        let sal = *rng.pick(&[9i64, 7, 0, -5, -9]);
        let mut r = match rng.below(4) {
            0 => rule(name, sal, 1, ('E', 3, 0), vec![('S', 3, 1)]),                    // one shot
            1 => rule(name, sal, 3, ('L', 0, 50), vec![('A', 2, 1)]),                   // no-loop
            2 => rule(name, sal, 5, ('L', 0, 50), vec![('A', 2, 1)]),                   // lock-on-active in another group
            _ => rule(name, sal, 1, ('L', 2, rng.range(1, 3) as i64), vec![('A', 2, 1)]), // short counter
        };
        r.ag = match rng.below(3) {
            0 => Some(other),
            1 => if g == 0 { None } else { Some(g) },
            _ => None,
        };
        rules.push(r);
    }
    let mut ops: Vec<String> = Vec::new();
    let mut stepped = false;
    if g != 0 {
        match rng.below(6) {
            0..=2 => ops.push(format!("F{}", g)),
            3 => ops.push(format!("V{}", g)),
            _ => {
                ops.push(format!("W{}", g));
                stepped = true;
            }
        }
    }
    if !stepped {
        ops.push(exec_op(rng));
    }
    let rounds = rng.range(1, 3);
    for _ in 0..rounds {
        let mut stepped = false;
        match rng.below(14) {
            0..=4 => ops.push(format!("F{}", g)), // the group that already has the focus
            5 | 6 => {
                ops.push(format!("W{}", g));
                stepped = true;
            }
            7 => ops.push(format!("V{}", g)),
            8 => {
                ops.push(format!("F{}", other));
                if rng.chance(1, 2) {
                    ops.push(exec_op(rng));
                }
                ops.push(format!("F{}", g));
            }
            9 => {
                ops.push("P".to_string());
                ops.push(format!("F{}", g));
            }
            10 => {
                ops.push("Z".to_string());
                ops.push(format!("F{}", g));
            }
            11 => {
                ops.push(format!("F{}", g));
                ops.push(format!("F{}", g));
            }
            12 => ops.push(format!("B{}", rng.below(2))), // not an activation
            _ => {}                                        // control: no re-activation
        }
        if rng.chance(1, 8) {
            ops.push("S3.0".to_string());
        }
        if !stepped {
            ops.push(exec_op(rng));
        }
    }
    show_case(&Case { maxc, facts: vec![Some(0), Some(0), Some(0), Some(0)], rules, ops })
}

// ---------------------------------------------------------------------------------------------
// execute_workflow_step / execute_workflow next to the plain calls

/// Rules spread over MAIN and groups 1..3 (counters, one-shots, lock-on-active, a rule that activates the next group),
/// driven by execute_workflow([..]) and execute_workflow_step(g), mixed with set / pop / clear focus and the plain executes.
/// Every step is `set_agenda_focus(g); execute`, so each obeys the bound and the early-stop clause like a direct call.
fn gen_workflow_calls(rng: &mut Rng) -> String {
    let maxc = *rng.pick(&[1usize, 2, 3, 3, 5, 8, 20]);
    let ng = rng.range(2, 3);
    let nr = rng.range(2, 6);
    let mut rules = Vec::new();
    for i in 0..nr {
        let sal = *rng.pick(&[9i64, 7, 0, 0, -5]);
        let f = rng.below(3);
        let mut r = match rng.below(6) {
            0 => rule(i, sal, 1, ('L', f, rng.range(1, 6) as i64), vec![('A', f, 1)]),
            1 => rule(i, sal, 1, ('E', 3, 0), vec![('S', 3, 1)]),
            2 => rule(i, sal, 5, ('L', 0, 50), vec![('A', f, 1)]),
            3 => rule(i, sal, 3, ('L', 0, 50), vec![('A', f, 1), ('F', rng.below(ng + 1), 0)]),
            4 => rule(i, sal, 1, ('G', f, -1), vec![('A', f, 1)]),           // never quiesces
            _ => rule(i, sal, 1, ('E', 3, 9), vec![('S', 3, 0)]),            // never true
        };
        r.ag = if rng.chance(1, 5) { None } else { Some(rng.below(ng + 1)) };
        if rng.chance(1, 10) {
            r.actg = Some(0);
        }
        rules.push(r);
    }
    let grp = |rng: &mut Rng| rng.below(ng + 1);
    let nops = rng.range(1, 4);
    let mut ops: Vec<String> = Vec::new();
    if rng.chance(1, 5) {
        ops.push((*rng.pick(&["B1", "B1", "Q1", "B0"])).to_string());
    }
    for _ in 0..nops {
        match rng.below(12) {
            0..=3 => ops.push(format!("W{}", grp(rng))),
            4..=6 => {
                let k = rng.range(1, 4);
                let gs: Vec<String> = (0..k).map(|_| grp(rng).to_string()).collect();
                ops.push(format!("Y{}", gs.join(".")));
            }
            7 => ops.push(format!("F{}", grp(rng))),
            8 => ops.push("P".to_string()),
            9 => ops.push(if rng.chance(1, 2) { "Z".to_string() } else { format!("V{}", grp(rng)) }),
            _ => ops.push(exec_op(rng)),
        }
    }
    if !ops.last().map(|o| o.starts_with(['W', 'Y', 'X', 'C', 'T'])).unwrap_or(false) {
        ops.push(exec_op(rng));
    }
    show_case(&Case { maxc, facts: vec![Some(0), Some(0), Some(0), Some(0)], rules, ops })
}

// ---------------------------------------------------------------------------------------------
// large knowledge bases

/// a rule that never fires: false condition (most), disabled, other agenda group, expired, not yet effective
fn filler(rng: &mut Rng) -> RuleSpec {
    let mut r = rule(0, 0, 1, ('L', 0, 50), vec![('A', 2, 1)]);
    match rng.below(12) {
        0..=6 => r.cond = *rng.pick(&[('E', 3, 99), ('G', 0, 1000), ('L', 0, -1000), ('E', 0, -1), ('G', 2, 5000)]),
        7 => r.flags = 0,
        8 => r.flags = 2,
        9 => r.ag = Some(1),
        10 => r.exp = Some(9),
        _ => r.eff = Some(51),
    }
    if rng.chance(1, 10) {
        r.flags |= 2;
    }
    r
}

/// 30..140 rules. `ordered` is the knowledge base in the order the engine will scan it; saliences are assigned
/// non-increasing along it (with ties), names are the scan positions, and the rules are added class by class in a
/// random order of the salience classes (stable sort: the scan order is `ordered` whatever the order of addition).
fn gen_large_kb(rng: &mut Rng) -> String {
    // the rules that fire, in their relative scan order
    let kind = rng.below(7);
    let b = rng.range(2, 12) as i64;
    let firing: Vec<RuleSpec> = match kind {
        0 => vec![rule(0, 0, 1, ('L', 0, b), vec![('A', 0, 1)])],
        1 => vec![
            rule(0, 0, 1, ('L', 0, b), vec![('A', 0, 1)]),
            rule(0, 0, 1, ('L', 2, rng.range(2, 12) as i64), vec![('A', 2, 1)]),
        ],
        2 => vec![rule(0, 0, 1, ('E', 1, 0), vec![('S', 1, 1), ('A', 2, 1)]), rule(0, 0, 1, ('E', 1, 1), vec![('S', 1, 0)])],
        3 => {
            let k = rng.range(2, 4);
            (0..k).map(|i| rule(0, 0, 1, ('E', 1, i as i64), vec![('S', 1, ((i + 1) % k) as i64), ('A', 2, 1)])).collect()
        }
        4 => vec![
            rule(0, 0, 1, ('E', 1, 0), vec![('S', 1, 1), ('A', 2, 1)]),
            rule(0, 0, 1, ('E', 1, 1), vec![('S', 1, 2)]),
            rule(0, 0, 1, ('L', 2, b), vec![('S', 1, 0)]),
        ],
        5 => vec![rule(0, 0, 1, ('G', 0, -1), vec![('A', 0, 1)])],
        _ => vec![rule(0, 0, 3, ('G', 0, -1), vec![('A', 0, 1)]), rule(0, 0, 1, ('L', 2, b), vec![('A', 2, 2)])],
    };
    let nfill = match rng.below(16) {
        0 | 1 => 64,
        2 => 65,
        3 => 63,
        4 => 128,
        5 => 129,
        6 => 127,
        7 => rng.range(30, 34),
        8 => rng.range(30, 63),
        _ => rng.range(64, 136),
    } as usize;
    let mut ordered: Vec<RuleSpec> = (0..nfill).map(|_| filler(rng)).collect();
    // where the firing rules go: behind every filler (half of the cases), middle, front, split, scattered
    let nfire = firing.len();
    match rng.below(10) {
        0..=4 => ordered.extend(firing),
        5 => {
            let at = nfill / 2;
            for (i, r) in firing.into_iter().enumerate() {
                ordered.insert(at + i, r);
            }
        }
        6 => {
            for (i, r) in firing.into_iter().enumerate() {
                ordered.insert(i, r);
            }
        }
        7 => {
            // the first firing rule in front, the others behind every filler
            let mut it = firing.into_iter();
            let first = it.next().unwrap();
            ordered.extend(it);
            ordered.insert(0, first);
        }
        8 => {
            // all but the last behind the fillers, the last one in front
            let mut f = firing;
            let last = f.pop().unwrap();
            ordered.extend(f);
            ordered.insert(0, last);
        }
        _ => {
            let mut pos: Vec<usize> = (0..nfire).map(|_| rng.below(nfill as u64 + 1) as usize).collect();
            pos.sort();
            for (i, (r, p)) in firing.into_iter().zip(pos).enumerate() {
                ordered.insert(p + i, r);
            }
        }
    }
    // a rule that fires in the first pass only: later passes are kept alive by the other firing rules alone
    if rng.chance(1, 4) {
        let at = if rng.chance(2, 3) { 0 } else { rng.below(ordered.len() as u64 + 1) as usize };
        ordered.insert(at, rule(0, 0, 1, ('E', 3, 0), vec![('S', 3, 1)]));
    }
    // non-increasing saliences along the scan order
    let tie = rng.range(1, 8);
    let mut sal: i64 = *rng.pick(&[10i64, 100, 7, i32::MAX as i64]);
    let n = ordered.len();
    for (i, r) in ordered.iter_mut().enumerate() {
        r.name = i as u64;
        if i > 0 && !rng.chance(tie, 8) {
            sal -= rng.range(1, 3) as i64;
        }
        if i + 1 == n && rng.chance(1, 6) {
            sal = i32::MIN as i64;
        }
        r.sal = sal;
    }
    let mut classes: Vec<i64> = ordered.iter().map(|r| r.sal).collect();
    classes.dedup();
    rng.shuffle(&mut classes);
    let mut rules = Vec::with_capacity(n);
    for c in classes {
        rules.extend(ordered.iter().filter(|r| r.sal == c).cloned());
    }
    let maxc = *rng.pick(&[3usize, 8, 16, 20, 20, 40, 64]);
    let mut ops = Vec::new();
    if rng.chance(1, 8) {
        ops.push(format!("S{}.{}", rng.below(3), rng.below(3)));
    }
    ops.push(if rng.chance(3, 4) { format!("X{}", rng.pick(&[10u64, 20, 30])) } else { "C".to_string() });
    if rng.chance(1, 4) {
        ops.push(exec_op(rng));
    }
    show_case(&Case { maxc, facts: vec![Some(0), Some(0), Some(0), Some(0)], rules, ops })
}

// ---------------------------------------------------------------------------------------------
// execute / edit the knowledge base / execute … on one engine

/// fields: f0 free, f1..f3 triggers (0/1), f4 / f5 firing counters
fn edit_rule(rng: &mut Rng, name: u64, sal: i64) -> RuleSpec {
    let mut flags = 1u8;
    if rng.chance(3, 4) {
        flags |= 2;
    }
    if rng.chance(1, 6) {
        flags |= 4;
    }
    if rng.chance(1, 14) {
        flags &= 6;
    }
    let trig = rng.range(1, 3);
    let (cond, acts) = if flags & 6 != 0 {
        // no-loop / lock-on-active: the condition stays true after the firing
        match rng.below(4) {
            0 | 1 => (('L', 0, 50), vec![('A', 4, 1)]),
            2 => (('E', trig, 1), vec![('A', 5, 1)]),
            _ => (('G', 4, -1), vec![('A', 4, 1)]),
        }
    } else {
        // fires once per trigger
        (('E', trig, 1), vec![('S', trig, 0), ('A', 5, 1)])
    };
    let mut r = rule(name, sal, flags, cond, acts);
    if rng.chance(1, 8) {
        r.actg = Some(0);
    }
    if rng.chance(1, 12) {
        r.ag = Some(0);
    }
    r
}

/// where `KnowledgeBase::add_rule` puts a rule: behind every rule whose salience is >= its own
fn kb_insert(kb: &mut Vec<(u64, i64)>, name: u64, sal: i64) {
    let pos = kb.iter().position(|x| x.1 < sal).unwrap_or(kb.len());
    kb.insert(pos, (name, sal));
}

fn gen_kb_edit_history(rng: &mut Rng) -> String {
    let k0 = rng.range(1, 4);
    let mut kb: Vec<(u64, i64)> = Vec::new(); // the knowledge base in scan order
    let mut rules = Vec::new();
    for i in 0..k0 {
        let sal = *rng.pick(&[0i64, 5, 10, 10, 20]);
        rules.push(edit_rule(rng, i, sal));
        kb_insert(&mut kb, i, sal);
    }
    let mut next_name = k0;
    let mut removed: Vec<u64> = Vec::new();
    let facts: Vec<Option<i64>> = vec![
        Some(rng.below(3) as i64),
        Some(rng.chance(3, 4) as i64),
        Some(rng.chance(3, 4) as i64),
        Some(rng.chance(1, 2) as i64),
        Some(0),
        Some(0),
    ];
    let mut ops: Vec<String> = Vec::new();
    if rng.chance(7, 8) {
        ops.push(exec_op(rng));
    }
    let rounds = rng.range(1, 4);
    for _ in 0..rounds {
        let nedit = *rng.pick(&[1u64, 1, 1, 2, 2, 3]);
        for _ in 0..nedit {
            let hi = kb.iter().map(|x| x.1).max().unwrap_or(0);
            let lo = kb.iter().map(|x| x.1).min().unwrap_or(0);
            match rng.below(14) {
                0..=4 => {
                    let sal = match rng.below(6) {
                        0..=2 => hi + rng.range(1, 5) as i64,                                      // in front of every rule
                        3 => if kb.is_empty() { 0 } else { kb[rng.below(kb.len() as u64) as usize].1 }, // behind its ties
                        4 => lo - rng.range(0, 3) as i64,                                          // at / near the end
                        _ => rng.range(0, 25) as i64,
                    };
                    // mostly a fresh name; sometimes the name of a removed rule (its no-loop mark is by name)
                    let name = if !removed.is_empty() && rng.chance(1, 4) {
                        removed.swap_remove(rng.below(removed.len() as u64) as usize)
                    } else if rng.chance(1, 20) && !kb.is_empty() {
                        kb[rng.below(kb.len() as u64) as usize].0 // duplicate: add_rule fails, nothing moves
                    } else {
                        next_name += 1;
                        next_name - 1
                    };
                    let r = edit_rule(rng, name, sal);
                    ops.push(format!("A{}", show_rule(&r)));
                    if !kb.iter().any(|x| x.0 == name) {
                        kb_insert(&mut kb, name, sal);
                    }
                }
                5..=8 => {
                    let name = if kb.is_empty() || rng.chance(1, 12) {
                        next_name + 1
                    } else if rng.chance(1, 2) {
                        kb[0].0 // in front of everything else
                    } else {
                        kb[rng.below(kb.len() as u64) as usize].0
                    };
                    ops.push(format!("R{}", name));
                    if let Some(p) = kb.iter().position(|x| x.0 == name) {
                        kb.remove(p);
                        removed.push(name);
                    }
                }
                9 => {
                    let name = if kb.is_empty() { 0 } else { kb[rng.below(kb.len() as u64) as usize].0 };
                    ops.push(format!("{}{}", if rng.chance(2, 3) { 'E' } else { 'D' }, name));
                }
                10 | 11 => ops.push(format!("S{}.1", rng.range(1, 3))),
                12 => ops.push(format!("S{}.{}", rng.below(4), rng.below(2))),
                _ => ops.push("N".to_string()),
            }
        }
        ops.push(exec_op(rng));
    }
    let maxc = *rng.pick(&[2usize, 3, 3, 5, 16, 16, 1]);
    show_case(&Case { maxc, facts, rules, ops })
}

// ---------------------------------------------------------------------------------------------
// a call that ends at the bound or with Err, then more calls on the same engine

/// fields: f0 / f1 counters, f2 the field the failing action reads (absent at first), f3 free
fn gen_after_bound_or_error(rng: &mut Rng) -> String {
    let maxc = *rng.pick(&[2usize, 3, 4, 5, 5, 6, 8]);
    let nag = rng.range(1, 2);
    let na = rng.range(1, 3);
    let mut rules = Vec::new();
    let bound = |rng: &mut Rng| -> i64 {
        // never reached within the history, or reached in the call after the one that ran into max_cycles
        if maxc < 3 || rng.chance(1, 2) { 50 } else { rng.range(maxc as u64 + 1, 2 * maxc as u64 - 2) as i64 }
    };
    for i in 0..na {
        let f = if i == 0 || rng.chance(2, 3) { 0 } else { 1 };
        let mut r = rule(i, *rng.pick(&[7i64, 0, 0, -5]), 1, ('L', f, bound(rng)), vec![('A', f, 1)]);
        r.actg = Some(i % nag);
        if rng.chance(1, 10) {
            r.flags |= 2;
        }
        if rng.chance(1, 10) {
            r.actg = None;
        }
        rules.push(r);
    }
    if rng.chance(1, 4) {
        rules.push(rule(na, *rng.pick(&[7i64, 0, -5]), 1, ('L', 1, bound(rng)), vec![('A', 1, 1)]));
    }
    let failing = rng.chance(1, 2);
    let fname = 9u64;
    if failing {
        // `f2 + 1` on an absent field is an action error; mostly scanned behind the activation-group rules
        let sal = if rng.chance(5, 6) { *rng.pick(&[-5i64, -9, 0]) } else { 9 };
        let mut r = rule(fname, sal, 1, ('L', 0, 50), vec![('A', 2, 1)]);
        if rng.chance(1, 3) {
            r.cond = ('G', 0, rng.below(maxc as u64) as i64 - 1); // errs in a later pass
        }
        if rng.chance(1, 3) {
            r.flags |= *rng.pick(&[4u8, 4, 2, 6]); // the rule that did not fire must not be remembered as fired
        }
        if rng.chance(1, 4) {
            r.actg = Some(rng.below(nag));
        }
        rules.push(r);
    }
    let mut ops = vec![if rng.chance(2, 3) { "C".to_string() } else { format!("X{}", rng.pick(&[10u64, 20, 30])) }];
    if failing {
        match rng.below(8) {
            0..=2 => ops.push(format!("D{}", fname)),
            3 | 4 => ops.push(format!("R{}", fname)),
            5 | 6 => ops.push("S2.0".to_string()),
            _ => {}
        }
    } else if rng.chance(1, 8) {
        ops.push(format!("S{}.{}", rng.below(2), rng.below(3)));
    }
    ops.push(if rng.chance(2, 3) { format!("X{}", rng.pick(&[10u64, 20, 30])) } else { "C".to_string() });
    if rng.chance(1, 4) {
        ops.push(exec_op(rng));
    }
    let facts = vec![Some(0), Some(0), if failing { None } else { Some(0) }, Some(0)];
    show_case(&Case { maxc, facts, rules, ops })
}

// ---------------------------------------------------------------------------------------------
// an action error inside a lock-on-active / no-loop rule, the cause repaired, further calls without re-focusing

/// fields: f0 counter, f1 written by the action in front of the failing one, f2 the field the failing action reads (absent
/// at first, set by `S2.<v>` between the calls), f3 free. A rule whose action returned `Err` has NOT fired: neither the
/// lock-on-active bookkeeping of its agenda group nor the no-loop set may remember it, so once the cause is repaired the
/// next call fires it (and only then stops before the bound).
fn gen_lock_after_error(rng: &mut Rng) -> String {
    let maxc = *rng.pick(&[2usize, 3, 3, 4, 5, 8, 16]);
    let grouped = rng.chance(1, 4); // the failing rules live in agenda group 1, focused before the first call
    let nfail = if rng.chance(1, 4) { 2 } else { 1 };
    let mut rules = Vec::new();
    for i in 0..nfail {
        let flags = *rng.pick(&[5u8, 5, 5, 5, 7, 3, 1]);
        let acts = match rng.below(5) {
            0 | 1 => vec![('A', 2, 1)],
            2 => vec![('S', 1, 1), ('A', 2, 1)],      // an earlier action of the same rule went through
            3 => vec![('A', 2, 1), ('A', 3, 1)],
            _ => vec![('A', 2, 0)],                    // reads f2, leaves it as it is
        };
        let cond = *rng.pick(&[('L', 0, 50), ('L', 0, 50), ('E', 3, 0), ('G', 0, -1)]);
        let mut r = rule(i, *rng.pick(&[7i64, 0, 0, -5]), flags, cond, acts);
        if grouped {
            r.ag = Some(1);
        } else if rng.chance(1, 5) {
            r.ag = Some(0);
        }
        if rng.chance(1, 8) {
            r.actg = Some(0);
        }
        rules.push(r);
    }
    // ordinary rules around it: a bounded counter, a one-shot rule, another lock-on-active rule that does fire
    for j in 0..rng.below(3) {
        let name = nfail + j;
        let sal = *rng.pick(&[9i64, 7, 0, -5, -9]);
        let mut r = match rng.below(3) {
            0 => rule(name, sal, 1, ('L', 0, rng.range(1, 4) as i64), vec![('A', 0, 1)]),
            1 => rule(name, sal, 1, ('E', 3, 0), vec![('S', 3, 1)]),
            _ => rule(name, sal, 5, ('L', 0, 50), vec![('A', 1, 1)]),
        };
        if grouped && rng.chance(2, 3) {
            r.ag = Some(1);
        }
        rules.push(r);
    }
    let mut ops: Vec<String> = Vec::new();
    if grouped {
        ops.push(if rng.chance(3, 4) { "F1".to_string() } else { "V1".to_string() });
    }
    ops.push(exec_op(rng));
    // the repair (mostly), or something else, or nothing
    match rng.below(10) {
        0..=6 => ops.push(format!("S2.{}", rng.below(3))),
        7 => {
            ops.push(format!("S2.{}", rng.below(3)));
            ops.push("N".to_string());
        }
        8 => ops.push(format!("D{}", rng.below(nfail))),
        _ => {}
    }
    ops.push(exec_op(rng));
    if rng.chance(1, 3) {
        if rng.chance(1, 2) {
            ops.push(format!("S{}.0", *rng.pick(&[0u64, 3])));
        }
        ops.push(exec_op(rng));
    }
    let facts = vec![Some(0), Some(0), None, Some(0)];
    show_case(&Case { maxc, facts, rules, ops })
}

// ---------------------------------------------------------------------------------------------
// rules whose actions are workflow bookkeeping only

fn wacts(rng: &mut Rng) -> Vec<(char, u64, i64)> {
    let k = *rng.pick(&[1u64, 1, 2, 3]);
    (0..k).map(|_| ('W', rng.below(3), 0)).collect()
}

/// A firing is a firing whatever the rule's actions are: a pass in which only rules with ScheduleRule / CompleteWorkflow /
/// SetWorkflowData actions fired is not a silent pass. Always-true (or slowly quiescing) rules without no-loop, every
/// max_cycles class, both execute twins; companions that fire in the first pass(es) only, so that the workflow-only pass is
/// the first, a middle or the last one before the bound.
fn gen_workflow_actions(rng: &mut Rng) -> String {
    let maxc = match rng.below(8) {
        0 => 2,
        1 => 3,
        2 => 64,
        3 => 1,
        _ => rng.range(2, 24) as usize,
    };
    let mut rules = Vec::new();
    let nw = *rng.pick(&[1u64, 1, 1, 2, 3]);
    for i in 0..nw {
        let cond = *rng.pick(&[('G', 0, -1), ('L', 0, 50), ('E', 1, 0), ('L', 2, 50)]);
        let mut acts = wacts(rng);
        let mut flags = 1u8;
        match rng.below(10) {
            0 => flags |= 2,                 // fires once: the pass after it is silent
            1 => flags |= 4,
            2 => acts.push(('S', 3, 1)),     // mixed with a Set: not workflow-only
            3 => acts.insert(0, ('A', 3, 1)),
            _ => {}
        }
        let mut r = rule(i, *rng.pick(&[7i64, 0, 0, -5, i32::MAX as i64]), flags, cond, acts);
        if rng.chance(1, 10) {
            r.actg = Some(0);
        }
        rules.push(r);
    }
    for j in 0..rng.below(3) {
        let name = nw + j;
        let sal = *rng.pick(&[9i64, 7, 0, -5, -9]);
        rules.push(match rng.below(4) {
            0 => rule(name, sal, 1, ('E', 3, 0), vec![('S', 3, 1)]),                                  // first pass only
            1 => rule(name, sal, 1, ('L', 0, rng.range(1, 5) as i64), vec![('A', 0, 1)]),          // the first few passes
            2 => rule(name, sal, 1, ('E', 3, 99), vec![('S', 3, 0)]),                                 // never
            _ => rule(name, sal, 1, ('L', 0, rng.range(1, 3) as i64), vec![('A', 0, 1), ('W', rng.below(3), 0)]),
        });
    }
    let mut ops = Vec::new();
    if rng.chance(1, 8) {
        ops.push(format!("S{}.{}", rng.below(4), rng.below(2)));
    }
    ops.push(if rng.chance(3, 4) { format!("X{}", rng.pick(&[10u64, 20, 30])) } else { "C".to_string() });
    if rng.chance(1, 4) {
        ops.push(exec_op(rng));
    }
    show_case(&Case { maxc, facts: vec![Some(0), Some(0), Some(0), Some(0)], rules, ops })
}

/// c02's candidates, preceded (for big knowledge bases) by the removal of whole blocks of rules from the front, the
/// back and the middle, so that a failure that needs many rules is cut down in a few steps
fn shrink3(case: &str) -> Vec<String> {
    let mut out = Vec::new();
    if let Some(c) = parse_case(case) {
        let n = c.rules.len();
        if n > 12 {
            let mut k = n / 2;
            while k >= 2 {
                for (a, b) in [(0, k), (n - k, n), ((n - k) / 2, (n - k) / 2 + k)] {
                    let mut rules = c.rules.clone();
                    rules.drain(a..b);
                    out.push(show_case(&Case { maxc: c.maxc, facts: c.facts.clone(), rules, ops: c.ops.clone() }));
                }
                k /= 2;
            }
        }
    }
    out.extend(shrink(case));
    // an early stop is only visible below the bound: a case that fails with max_cycles >= 2 keeps max_cycles >= 2
    if let Some(c) = parse_case(case) {
        if c.maxc >= 2 {
            out.retain(|s| parse_case(s).map(|d| d.maxc >= 2).unwrap_or(false));
            if c.maxc > 2 {
                out.push(show_case(&Case { maxc: 2, facts: c.facts.clone(), rules: c.rules.clone(), ops: c.ops.clone() }));
            }
        }
    }
    out
}

fn main() {
    check_name_tables();
    if std::env::args().nth(1).as_deref() == Some("exec") {
        exec_main(exec_case, 5);
    } else {
        main_with(Prop { gen, exec: exec_case, shrink: shrink3 });
    }
}
