//! C02 (and, through `#[path]`, C03) — histories of API calls on one `RustRuleEngine`.
//!
//! case := `<max_cycles> <facts> <rules> <ops>`            (four space-separated tokens)
//!   facts := `-` | v,v,…          v := integer | `_` (field absent); field i is the fact "f<i>"
//!   rules := `-` | rule;rule;…    (initial knowledge base, added in this order)
//!   rule  := name:sal:flags:ag:actg:eff:exp:cond:acts
//!            flags = bit0 enabled | bit1 no_loop | bit2 lock_on_active ; ag/actg = `_` | nat
//!            eff/exp = `_` | inst | inst@<how>   — the abstract instant and how it is handed to the rule;
//!              inst = <sec> | <sec>f<nanos>  (abstract second + 0..999999999 nanoseconds, e.g. 10f700000 = 10 s + 700 µs;
//!              the text twins write the fraction with 3 / 6 / 9 digits, the DateTime<Utc> twin adds nanos × (1 s / 10^9)):
//!              (none)  with_date_effective_str / with_date_expires_str on the RFC 3339 text ending in `Z`
//!              @+hhmm / @-hhmm   the same string twins on the SAME instant written with that UTC offset
//!                      (e.g. 10@+0530 = `2001-01-01T05:30:10+05:30`, 10@-0800 = `2000-12-31T16:00:10-08:00`)
//!              @u      the DateTime<Utc> twins with_date_effective / with_date_expires (instant computed by
//!                      chrono arithmetic from a base value, no per-date string parsing)
//!            (agenda / activation groups and rule names reach the engine as STRINGS through the tables GROUP_NAMES / ACTG_NAMES /
//!            RULE_NAMES below — confusable names for the small ids, `G<g>` / `A<a>` / `r<n>` beyond; agenda group 0 = "MAIN" given explicitly)
//!            cond = E.f.v | L.f.v | G.f.v   (f == v, f < v, f > v)
//!            acts = `-` | act/act/…   act = S.f.v (f := v) | A.f.k (f := f + k) | F.g (ActivateAgendaGroup)
//!                   | W.k  a workflow bookkeeping action: k = 0 ScheduleRule (one hour ahead), 1 CompleteWorkflow,
//!                     2 SetWorkflowData — none of them touches the facts, the agenda or the loop control of `execute`
//!                     (scheduled tasks only run through `execute_scheduled_tasks`), so the model sees a rule without it
//!                   | O.k.v  a dotted-path write `Set { field: <path>, value: v }`: k = 0 `o0.x`, k = 2 `o0.y.z` (nested paths of the
//!                     EXISTING object fact `o0` = {x: 0, y: {z: 0}} every case starts with → `Facts::set_nested`), k = 1 `o1.x`
//!                     (root object missing → falls back to the flat key "o1.x"). No condition reads these facts: the model sees
//!                     the rule without the action (it fires and keeps the loop alive like any other firing)
//!   ops   := `-` | op;op;…
//!            X<t> execute_at_time(t) (t = inst as above, e.g. X10f200000) | C execute_with_callback (t = now = abstract time 50)
//!            X<t>u execute_at_time(t) with the timestamp built as a DateTime<Utc> by chrono arithmetic (base + t × 1 s)
//!                  instead of by parsing the RFC 3339 text of t (the model sees the same instant)
//!            F<g> set_agenda_focus | P pop_agenda_focus | Z clear_agenda_focus | N reset_no_loop_tracking
//!            V<g> activate_agenda_group | A<rule> add_rule | R<n> remove_rule | E<n>/D<n> set_rule_enabled
//!            S<f>.<v> facts.set
//!            Ub / Uc / Ur  facts.begin_undo_frame() / commit_undo_frame() / rollback_undo_frame() by the CALLER, around the
//!                  execute calls (frames nest; commit / rollback with no frame open do nothing). After `Ur` the facts are what
//!                  they were at the matching `Ub` (model: the store is restored; the harness also compares the complete fact
//!                  map, nested objects included: res `u!undo` on a difference)
//!            T execute (the plain wrapper: execute_at_time(now)) | B<0|1> set_debug_mode(false|true)
//!            Q<0|1> disable_analytics() | enable_analytics(RuleAnalytics::new(AnalyticsConfig::default()))
//!            MA<rule> / MR<n> / ME<n> / MD<n>  the knowledge-base calls of A / R / E / D through knowledge_base_mut()
//!            K knowledge_base().clear()
//!            H<m> | H<m>&<rule>&<rule>…  `*engine.knowledge_base_mut() = new_kb`: the WHOLE knowledge base is replaced by a freshly
//!                  built one holding these rules (added in this order; a second rule of a name is refused). m tells how the new
//!                  base's `version()` counter compares with the old one's: `l` fresh (one bump per rule), `s` padded with
//!                  `clear()` calls on the still empty base up to exactly the old base's version (when it is not already above),
//!                  `g` padded to above it. The model has no version: `execute` must not depend on it.
//!            W<g> execute_workflow_step(group g)  (= set_agenda_focus; execute; process_workflow_actions)
//!            Y<g>.<g>.… execute_workflow(groups)   (steps until one fires nothing), res = w<steps_executed> | err
//!          max_cycles token `d` = the engine is built with `RustRuleEngine::new` (EngineConfig::default(): 100 cycles,
//!          30 s timeout — never reached by these cases) instead of `with_config`
//!          A case with a W / Y op builds workflow-only rules WITH the Custom marker (no 0 ms ScheduleRule marker): the
//!          scheduled-task part of process_workflow_actions then has nothing to run (scheduled tasks are outside C02/C03).
//! obs  := `-` | opobs;opobs;…   opobs := res/events/active/facts
//!   res := ok,<cycle_count>,<rules_evaluated>,<rules_fired> | err | p<g> | p_ | a1 | a0 | b1 | b0 | u
//!   events := `-` | e,e,…  e := f<n> (rule n fired) | a<g> (ActivateAgendaGroup(g) executed)
//! Abstract time a < 50 is 2001-01-01T00:00:<a>Z, a > 50 is 2201-01-01T00:00:<a-50>Z, so "now" lies between.
//! The salience is set through `with_salience` for even rule names and through its alias `with_priority` for odd ones.
//! Every rule gets trailing marker actions (custom action "tr") so that the firing sequence is
//! observable through `execute_at_time` as well; for `execute_with_callback` the callback sequence is
//! what is reported and it is cross-checked against the markers (`!cb` suffix on mismatch).
use rre_harness::*;
use rust_rule_engine::engine::engine::{EngineConfig, RustRuleEngine};
use rust_rule_engine::engine::facts::Facts;
use rust_rule_engine::engine::knowledge_base::KnowledgeBase;
use rust_rule_engine::engine::rule::{Condition, ConditionGroup, Rule};
use rust_rule_engine::types::{ActionType, Operator, Value};
use std::collections::HashMap;
use std::io::{BufRead, Write};
use std::sync::{Arc, Mutex};

#[derive(Clone, Debug)]
pub struct RuleSpec {
    pub name: u64,
    pub sal: i64,
    pub flags: u8,
    pub ag: Option<u64>,
    pub actg: Option<u64>,
    pub eff: Option<u64>,
    pub exp: Option<u64>,
    pub effh: How,
    pub exph: How,
    /// nanosecond parts of eff / exp (0 = a whole second)
    pub effn: u32,
    pub expn: u32,
    pub cond: (char, u64, i64),
    pub acts: Vec<(char, u64, i64)>,
}

/// how a date attribute reaches the rule (see the header)
#[derive(Clone, Copy, Debug, PartialEq, Eq, Default)]
pub enum How {
    /// string twin, text ends in `Z`
    #[default]
    Z,
    /// string twin, text carries this UTC offset (minutes east of Greenwich)
    Off(i32),
    /// DateTime<Utc> twin
    Utc,
}

/// `<sec>` | `<sec>f<nanos>` (nanos = 0..999_999_999 as a plain integer)
pub fn parse_instant(s: &str) -> Option<(u64, u32)> {
    match s.split_once('f') {
        Some((a, n)) => {
            let n: u32 = n.parse().ok()?;
            if n >= 1_000_000_000 {
                return None;
            }
            Some((a.parse().ok()?, n))
        }
        None => Some((s.parse().ok()?, 0)),
    }
}
pub fn show_instant(sec: u64, nanos: u32) -> String {
    if nanos == 0 {
        sec.to_string()
    } else {
        format!("{}f{}", sec, nanos)
    }
}

fn opt_date(s: &str) -> Option<(Option<(u64, u32)>, How)> {
    let (a, h) = match s.split_once('@') {
        Some((a, h)) => (a, Some(h)),
        None => (s, None),
    };
    let a = if a == "_" { None } else { Some(parse_instant(a)?) };
    let how = match h {
        None => How::Z,
        Some("u") => How::Utc,
        Some(o) => {
            let sign = match o.chars().next()? {
                '+' => 1,
                '-' => -1,
                _ => return None,
            };
            let d = &o[1..];
            if d.len() != 4 || !d.bytes().all(|b| b.is_ascii_digit()) {
                return None;
            }
            let (hh, mm): (i32, i32) = (d[..2].parse().ok()?, d[2..].parse().ok()?);
            if hh > 23 || mm > 59 {
                return None;
            }
            How::Off(sign * (hh * 60 + mm))
        }
    };
    if a.is_none() && how != How::Z {
        return None;
    }
    Some((a, how))
}
fn show_date(o: &Option<u64>, n: u32, h: How) -> String {
    match (o, h) {
        (None, _) => "_".into(),
        (Some(x), How::Z) => show_instant(*x, n),
        (Some(x), How::Utc) => format!("{}@u", show_instant(*x, n)),
        (Some(x), How::Off(m)) => format!("{}@{}{:02}{:02}", show_instant(*x, n), if m < 0 { '-' } else { '+' }, m.abs() / 60, m.abs() % 60),
    }
}

fn opt(s: &str) -> Option<Option<u64>> {
    if s == "_" {
        Some(None)
    } else {
        s.parse().ok().map(Some)
    }
}
fn show_opt(o: &Option<u64>) -> String {
    match o {
        Some(x) => x.to_string(),
        None => "_".into(),
    }
}

pub fn parse_rule(s: &str) -> Option<RuleSpec> {
    let p: Vec<&str> = s.split(':').collect();
    if p.len() != 9 {
        return None;
    }
    let c: Vec<&str> = p[7].split('.').collect();
    if c.len() != 3 {
        return None;
    }
    let mut acts = Vec::new();
    if p[8] != "-" {
        for a in p[8].split('/') {
            let q: Vec<&str> = a.split('.').collect();
            let k = q[0].chars().next()?;
            match (k, q.len()) {
                ('S', 3) | ('A', 3) => acts.push((k, q[1].parse().ok()?, q[2].parse().ok()?)),
                ('F', 2) => acts.push((k, q[1].parse().ok()?, 0)),
                ('O', 3) => {
                    let w: u64 = q[1].parse().ok()?;
                    if w > 2 {
                        return None;
                    }
                    acts.push((k, w, q[2].parse().ok()?))
                }
                ('W', 2) => {
                    let w: u64 = q[1].parse().ok()?;
                    if w > 2 {
                        return None;
                    }
                    acts.push((k, w, 0))
                }
                _ => return None,
            }
        }
    }
    let (eff, effh) = opt_date(p[5])?;
    let (exp, exph) = opt_date(p[6])?;
    let (effn, expn) = (eff.map(|x| x.1).unwrap_or(0), exp.map(|x| x.1).unwrap_or(0));
    let (eff, exp) = (eff.map(|x| x.0), exp.map(|x| x.0));
    Some(RuleSpec {
        name: p[0].parse().ok()?,
        sal: p[1].parse().ok()?,
        flags: p[2].parse().ok()?,
        ag: opt(p[3])?,
        actg: opt(p[4])?,
        eff,
        exp,
        effh,
        exph,
        effn,
        expn,
        cond: (c[0].chars().next()?, c[1].parse().ok()?, c[2].parse().ok()?),
        acts,
    })
}

pub fn show_rule(r: &RuleSpec) -> String {
    let acts = if r.acts.is_empty() {
        "-".to_string()
    } else {
        r.acts
            .iter()
            .map(|(k, a, b)| if *k == 'F' || *k == 'W' { format!("{}.{}", k, a) } else { format!("{}.{}.{}", k, a, b) })
            .collect::<Vec<_>>()
            .join("/")
    };
    format!(
        "{}:{}:{}:{}:{}:{}:{}:{}.{}.{}:{}",
        r.name,
        r.sal,
        r.flags,
        show_opt(&r.ag),
        show_opt(&r.actg),
        show_date(&r.eff, r.effn, r.effh),
        show_date(&r.exp, r.expn, r.exph),
        r.cond.0,
        r.cond.1,
        r.cond.2,
        acts
    )
}

/// `maxc` value that stands for "built with `RustRuleEngine::new`" (case token `d`)
pub const DFLT: usize = usize::MAX;

pub struct Case {
    pub maxc: usize,
    pub facts: Vec<Option<i64>>,
    pub rules: Vec<RuleSpec>,
    pub ops: Vec<String>,
}

pub fn parse_case(case: &str) -> Option<Case> {
    let t: Vec<&str> = case.split_whitespace().collect();
    if t.len() != 4 {
        return None;
    }
    let facts = if t[1] == "-" {
        vec![]
    } else {
        t[1].split(',')
            .map(|x| if x == "_" { Some(None) } else { x.parse::<i64>().ok().map(Some) })
            .collect::<Option<Vec<_>>>()?
    };
    let rules = if t[2] == "-" { vec![] } else { t[2].split(';').map(parse_rule).collect::<Option<Vec<_>>>()? };
    let ops = if t[3] == "-" { vec![] } else { t[3].split(';').map(|s| s.to_string()).collect() };
    let maxc = if t[0] == "d" { DFLT } else { t[0].parse().ok().filter(|m| *m != DFLT)? };
    Some(Case { maxc, facts, rules, ops })
}

pub fn show_facts(f: &[Option<i64>]) -> String {
    if f.is_empty() {
        "-".into()
    } else {
        f.iter().map(|x| x.map(|v| v.to_string()).unwrap_or("_".into())).collect::<Vec<_>>().join(",")
    }
}

pub fn show_case(c: &Case) -> String {
    format!(
        "{} {} {} {}",
        if c.maxc == DFLT { "d".to_string() } else { c.maxc.to_string() },
        show_facts(&c.facts),
        if c.rules.is_empty() { "-".into() } else { c.rules.iter().map(show_rule).collect::<Vec<_>>().join(";") },
        if c.ops.is_empty() { "-".into() } else { c.ops.join(";") }
    )
}

// ---------------------------------------------------------------------------------------------
// names: the case grammar (and the model) identify agenda groups, activation groups and rules by NUMBERS; the strings the real
// engine sees come from these tables. The small ids — the ones every generator family uses — map to names that are easy to
// confuse when a string is used as (part of) a key: prefix relations through `/` `.` `:` ` `, the empty string, a group named
// like a rule, `MAIN` look-alikes, names that differ in case or by a trailing blank only. They are all DISTINCT names, so the
// engine must keep them apart exactly as it keeps "G7" and "G8" apart. Larger ids fall back to `G<g>` / `A<a>` / `r<n>`.
// `check_name_tables` (run at start-up) asserts that the three maps are injective and that the inverse maps invert them.
const GROUP_NAMES: [&str; 18] = [
    "MAIN", "G1", "G1/x", "G1.x", "G1:x", "G1 x", "", "r1", "main", "MAIN ", "Main", "g1", "G1 ", "G1/", "G1/x/y", "G1/r1", "/", " ",
];
const RULE_NAMES: [&str; 12] = ["r0", "r1", "r1/r0", "R1", "r1 ", "x", "G1", "MAIN", "r1.x", "r1:x", "x/r0", "r0/"];
const ACTG_NAMES: [&str; 8] = ["A0", "A0/x", "a0", "A0 ", "MAIN", "r1", "G1", "A0.x"];
pub const NGROUP_NAMES: u64 = GROUP_NAMES.len() as u64;

pub fn group_name(g: u64) -> String {
    match GROUP_NAMES.get(g as usize) {
        Some(s) => s.to_string(),
        None => format!("G{}", g),
    }
}
fn group_id(s: &str) -> String {
    if let Some(i) = GROUP_NAMES.iter().position(|x| *x == s) {
        return i.to_string();
    }
    match s.strip_prefix('G').and_then(|r| r.parse::<u64>().ok()) {
        Some(g) if g as usize >= GROUP_NAMES.len() && format!("G{}", g) == s => g.to_string(),
        _ => format!("?{}", hex(s)),
    }
}
pub fn rule_name(n: u64) -> String {
    match RULE_NAMES.get(n as usize) {
        Some(s) => s.to_string(),
        None => format!("r{}", n),
    }
}
/// inverse of `rule_name` (-1: not a name of the table / scheme)
fn rule_id(s: &str) -> i64 {
    if let Some(i) = RULE_NAMES.iter().position(|x| *x == s) {
        return i as i64;
    }
    match s.strip_prefix('r').and_then(|r| r.parse::<u64>().ok()) {
        Some(n) if n as usize >= RULE_NAMES.len() && format!("r{}", n) == s => n as i64,
        _ => -1,
    }
}
fn actg_name(a: u64) -> String {
    match ACTG_NAMES.get(a as usize) {
        Some(s) => s.to_string(),
        None => format!("A{}", a),
    }
}
pub fn check_name_tables() {
    use std::collections::HashSet;
    let n = 4096u64;
    let g: HashSet<String> = (0..n).map(group_name).collect();
    let r: HashSet<String> = (0..n).map(rule_name).collect();
    let a: HashSet<String> = (0..n).map(actg_name).collect();
    assert!(g.len() == n as usize && r.len() == n as usize && a.len() == n as usize, "name tables are not injective");
    for i in 0..n {
        assert!(group_id(&group_name(i)) == i.to_string(), "group_id does not invert group_name at {}", i);
        assert!(rule_id(&rule_name(i)) == i as i64, "rule_id does not invert rule_name at {}", i);
    }
}

/// fractional-second text of `n` nanoseconds: nothing for 0, else 3 / 6 / 9 digits (the shortest exact one)
fn frac(n: u32) -> String {
    if n == 0 {
        String::new()
    } else if n % 1_000_000 == 0 {
        format!(".{:03}", n / 1_000_000)
    } else if n % 1_000 == 0 {
        format!(".{:06}", n / 1_000)
    } else {
        format!(".{:09}", n)
    }
}

fn date_str(a: u64, n: u32) -> String {
    if a < 50 {
        format!("2001-01-01T00:00:{:02}{}Z", a, frac(n))
    } else {
        format!("2201-01-01T00:00:{:02}{}Z", (a - 50).min(59), frac(n))
    }
}

/// the instant of `date_str(a, n)` written with a UTC offset of `off` minutes: local time = instant + offset.
/// The abstract instants are seconds after midnight of 1 January (2001 / 2201), so a positive offset stays on
/// that day and a negative one lands on 31 December of the year before (the text crosses midnight and the year).
fn date_str_off(a: u64, n: u32, off: i32) -> String {
    let (year, sec) = if a < 50 { (2001, a) } else { (2201, (a - 50).min(59)) };
    let (sign, m) = if off < 0 { ('-', -off) } else { ('+', off) };
    let tz = format!("{}{:02}:{:02}", sign, m / 60, m % 60);
    if off >= 0 {
        format!("{}-01-01T{:02}:{:02}:{:02}{}{}", year, m / 60, m % 60, sec, frac(n), tz)
    } else {
        let l = 24 * 60 - m;
        format!("{}-12-31T{:02}:{:02}:{:02}{}{}", year - 1, l / 60, l % 60, sec, frac(n), tz)
    }
}

/// a `DateTime<Utc>` for the abstract instant `a` s + `n` ns without parsing a string per date: base instant + a × one
/// second + n × one nanosecond, by chrono's own arithmetic (the harness has no chrono dependency: the two base values and
/// the one-second difference come from the public `date_effective` field of two throw-away rules built from `…:00Z` /
/// `…:01Z`; one nanosecond is that difference divided by 10^9).
fn date_utc(a: u64, n: u32) -> impl FnOnce(Rule, bool) -> Rule {
    let dummy = |s: &str| {
        Rule::new("d".into(), ConditionGroup::single(Condition::new("x".into(), Operator::Equal, Value::Null)), vec![])
            .with_date_effective_str(s)
            .unwrap()
            .date_effective
            .unwrap()
    };
    let (base0, base1, k) = if a < 50 {
        (dummy("2001-01-01T00:00:00Z"), dummy("2001-01-01T00:00:01Z"), a)
    } else {
        (dummy("2201-01-01T00:00:00Z"), dummy("2201-01-01T00:00:01Z"), (a - 50).min(59))
    };
    let one = base1.signed_duration_since(base0);
    let mut dt = base0 + one * (k as i32);
    if n > 0 {
        dt = dt + (one / 1_000_000_000) * (n as i32);
    }
    move |rule: Rule, expires: bool| if expires { rule.with_date_expires(dt) } else { rule.with_date_effective(dt) }
}

fn apply_date(rule: Rule, a: u64, n: u32, how: How, expires: bool) -> Rule {
    match how {
        How::Utc => date_utc(a, n)(rule, expires),
        _ => {
            let text = match how {
                How::Off(m) => date_str_off(a, n, m),
                _ => date_str(a, n),
            };
            if expires { rule.with_date_expires_str(&text).unwrap() } else { rule.with_date_effective_str(&text).unwrap() }
        }
    }
}

fn marker(kind: i64, v: u64) -> ActionType {
    let mut params = HashMap::new();
    params.insert("k".to_string(), Value::Integer(kind));
    params.insert("v".to_string(), Value::Integer(v as i64));
    ActionType::Custom { action_type: "tr".into(), params }
}

pub fn workflow_only(r: &RuleSpec) -> bool {
    !r.acts.is_empty() && r.acts.iter().all(|x| x.0 == 'W')
}

fn build_rule(r: &RuleSpec, marker_always: bool) -> Rule {
    let op = match r.cond.0 {
        'E' => Operator::Equal,
        'L' => Operator::LessThan,
        _ => Operator::GreaterThan,
    };
    let cond = ConditionGroup::single(Condition::new(format!("f{}", r.cond.1), op, Value::Integer(r.cond.2)));
    let mut actions = Vec::new();
    for (k, a, b) in &r.acts {
        match k {
            'S' => actions.push(ActionType::Set { field: format!("f{}", a), value: Value::Integer(*b) }),
            'A' => {
                let e = if *b >= 0 { format!("f{} + {}", a, b) } else { format!("f{} - {}", a, -b) };
                actions.push(ActionType::Set { field: format!("f{}", a), value: Value::Expression(e) })
            }
            // a dotted-path write: `Facts::set_nested` on an object that exists (k = 0: `o0.x`, k = 2: two levels down, `o0.y.z`)
            // or whose root is missing (k = 1: `o1.x`, falls back to the flat key "o1.x"); no condition reads these facts
            'O' => actions.push(ActionType::Set { field: ["o0.x", "o1.x", "o0.y.z"][(*a as usize).min(2)].to_string(), value: Value::Integer(*b) }),
            'W' => actions.push(match a {
                0 => ActionType::ScheduleRule { rule_name: "later".into(), delay_ms: 3_600_000 },
                1 => ActionType::CompleteWorkflow { workflow_name: "wf".into() },
                _ => ActionType::SetWorkflowData { key: "k".into(), value: Value::Integer(*b) },
            }),
            _ => {
                actions.push(ActionType::ActivateAgendaGroup { group: group_name(*a) });
                actions.push(marker(1, *a));
            }
        }
    }
    // the firing marker is a Custom action. A rule whose case actions are all workflow actions is built WITHOUT it, so that
    // its action list really consists of workflow actions only; its firing marker is a trailing
    // `ScheduleRule { "r<name>", 0 ms }`: the workflow engine's task list is a log in push order, read back (and drained) with
    // `get_ready_tasks` after every execute and merged with the Custom-marker log by the instants both carry
    if workflow_only(r) && !marker_always {
        actions.push(ActionType::ScheduleRule { rule_name: rule_name(r.name), delay_ms: 0 });
    } else {
        actions.push(marker(0, r.name));
    }
    // the salience reaches the rule through `with_salience` (even names) or its alias `with_priority` (odd names)
    let rule = Rule::new(rule_name(r.name), cond, actions);
    let rule = if r.name % 2 == 1 { rule.with_priority(r.sal as i32) } else { rule.with_salience(r.sal as i32) };
    let mut rule = rule
        .with_no_loop(r.flags & 2 != 0)
        .with_lock_on_active(r.flags & 4 != 0);
    rule.enabled = r.flags & 1 != 0;
    if let Some(g) = r.ag {
        rule = rule.with_agenda_group(group_name(g));
    }
    if let Some(a) = r.actg {
        rule = rule.with_activation_group(actg_name(a));
    }
    if let Some(e) = r.eff {
        rule = apply_date(rule, e, r.effn, r.effh, false);
    }
    if let Some(x) = r.exp {
        rule = apply_date(rule, x, r.expn, r.exph, true);
    }
    rule
}

pub fn exec_case(case: &str) -> String {
    let Some(c) = parse_case(case) else { return "bad-case".into() };
    let kb = KnowledgeBase::new("c02");
    let wf = c.ops.iter().any(|o| o.starts_with('W') || o.starts_with('Y'));
    for r in &c.rules {
        if kb.add_rule(build_rule(r, wf)).is_err() {
            return "bad-case-dup".into();
        }
    }
    let mut eng = if c.maxc == DFLT {
        RustRuleEngine::new(kb)
    } else {
        RustRuleEngine::with_config(kb, EngineConfig { max_cycles: c.maxc, timeout: None, enable_stats: false, debug_mode: false })
    };
    let log: Arc<Mutex<Vec<(i64, i64, std::time::Instant)>>> = Arc::new(Mutex::new(Vec::new()));
    let l2 = log.clone();
    eng.register_action_handler("tr", move |p, _| {
        let k = match p.get("k") {
            Some(Value::Integer(i)) => *i,
            _ => -1,
        };
        let v = match p.get("v") {
            Some(Value::Integer(i)) => *i,
            _ => -1,
        };
        l2.lock().unwrap().push((k, v, std::time::Instant::now()));
        Ok(())
    });
    let facts = Facts::new();
    for (i, v) in c.facts.iter().enumerate() {
        if let Some(v) = v {
            facts.set(&format!("f{}", i), Value::Integer(*v));
        }
    }
    // the object the `O.k.v` actions write into (no condition reads it; the model does not see it)
    {
        let mut inner = HashMap::new();
        inner.insert("z".to_string(), Value::Integer(0));
        let mut o0 = HashMap::new();
        o0.insert("x".to_string(), Value::Integer(0));
        o0.insert("y".to_string(), Value::Object(inner));
        facts.set("o0", Value::Object(o0));
    }
    // caller-owned undo frames (`Ub` / `Uc` / `Ur`): the complete fact map at each open `begin_undo_frame`
    let mut frames: Vec<HashMap<String, Value>> = Vec::new();
    let nf = c.facts.len();
    let mut out = Vec::new();
    for op in &c.ops {
        log.lock().unwrap().clear();
        let mut k = op.chars().next().unwrap_or('?');
        let mut rest = &op[k.len_utf8()..];
        // `M<op>`: the same knowledge-base call through `knowledge_base_mut()`
        let via_mut = k == 'M';
        if via_mut {
            k = rest.chars().next().unwrap_or('?');
            rest = &rest[k.len_utf8()..];
            if !matches!(k, 'A' | 'R' | 'E' | 'D') {
                return "bad-case".into();
            }
        }
        let mut events = "-".to_string();
        let res: String = match k {
            'X' | 'C' | 'T' | 'W' | 'Y' => {
                let mut cb: Vec<String> = Vec::new();
                let mut steps: Option<usize> = None;
                let r = if k == 'T' {
                    if !rest.is_empty() {
                        return "bad-case".into();
                    }
                    eng.execute(&facts)
                } else if k == 'W' {
                    let Ok(g) = rest.parse::<u64>() else { return "bad-case".into() };
                    eng.execute_workflow_step(&group_name(g), &facts)
                } else if k == 'Y' {
                    let Some(gs) = rest.split('.').map(|x| x.parse::<u64>().ok().map(group_name)).collect::<Option<Vec<String>>>() else {
                        return "bad-case".into();
                    };
                    match eng.execute_workflow(gs.iter().map(|s| s.as_str()).collect(), &facts) {
                        Ok(w) => {
                            steps = Some(w.steps_executed);
                            if !w.success {
                                return "workflow-unsuccessful".into();
                            }
                            Ok(rust_rule_engine::engine::engine::GruleExecutionResult {
                                cycle_count: 0,
                                rules_evaluated: 0,
                                rules_fired: 0,
                                execution_time: std::time::Duration::from_millis(0),
                            })
                        }
                        Err(e) => Err(e),
                    }
                } else if k == 'X' {
                    let (num, arith) = match rest.strip_suffix('u') {
                        Some(n) => (n, true),
                        None => (rest, false),
                    };
                    let Some((t, tn)) = parse_instant(num) else { return "bad-case".into() };
                    let dummy = Rule::new("d".into(), ConditionGroup::single(Condition::new("x".into(), Operator::Equal, Value::Null)), vec![]);
                    let ts = if arith {
                        date_utc(t, tn)(dummy, false).date_effective.unwrap()
                    } else {
                        dummy.with_date_effective_str(&date_str(t, tn)).unwrap().date_effective.unwrap()
                    };
                    eng.execute_at_time(&facts, ts)
                } else {
                    eng.execute_with_callback(&facts, |name, _| cb.push(name.to_string()))
                };
                // Custom-marker log + the firing markers of workflow-only rules (ready tasks, in push order), merged by
                // their instants (monotonic clock; the sort is stable, so equal instants keep marker-before-task order)
                let mut stamped = log.lock().unwrap().clone();
                for task in eng.get_ready_tasks() {
                    let n = rule_id(&task.rule_name);
                    stamped.push((0, n, task.execute_at));
                }
                stamped.sort_by_key(|e| e.2);
                let evs: Vec<(i64, i64)> = stamped.iter().map(|e| (e.0, e.1)).collect();
                let mut res = match (&r, steps) {
                    (Ok(_), Some(n)) => format!("w{}", n),
                    (Ok(g), None) => format!("ok,{},{},{}", g.cycle_count, g.rules_evaluated, g.rules_fired),
                    (Err(_), _) => "err".to_string(),
                };
                let shown: Vec<String> =
                    evs.iter().map(|(k, v)| format!("{}{}", if *k == 0 { "f" } else if *k == 1 { "a" } else { "?" }, v)).collect();
                if k == 'C' {
                    // the callback is the observation point; the markers must tell the same story,
                    // except that on `Err` the last marker may belong to a rule whose callback never ran
                    let fired: Vec<String> = evs.iter().filter(|e| e.0 == 0).map(|e| if e.1 >= 0 { rule_name(e.1 as u64) } else { "?".to_string() }).collect();
                    if cb != fired {
                        res.push_str("!cb");
                    }
                }
                if !shown.is_empty() {
                    events = shown.join(",");
                }
                res
            }
            'F' => {
                let Ok(g) = rest.parse::<u64>() else { return "bad-case".into() };
                eng.set_agenda_focus(&group_name(g));
                "u".into()
            }
            'P' => match eng.pop_agenda_focus() {
                Some(g) => format!("p{}", group_id(&g)),
                None => "p_".into(),
            },
            'Z' => {
                eng.clear_agenda_focus();
                "u".into()
            }
            'N' => {
                eng.reset_no_loop_tracking();
                "u".into()
            }
            'B' => {
                match rest {
                    "0" => eng.set_debug_mode(false),
                    "1" => eng.set_debug_mode(true),
                    _ => return "bad-case".into(),
                }
                "u".into()
            }
            'Q' => {
                match rest {
                    "0" => eng.disable_analytics(),
                    "1" => eng.enable_analytics(rust_rule_engine::engine::analytics::RuleAnalytics::new(
                        rust_rule_engine::engine::analytics::AnalyticsConfig::default(),
                    )),
                    _ => return "bad-case".into(),
                }
                "u".into()
            }
            'H' => {
                let mut parts = rest.split('&');
                let mode = parts.next().unwrap_or("");
                if !matches!(mode, "l" | "s" | "g") {
                    return "bad-case".into();
                }
                let Some(rs) = parts.map(parse_rule).collect::<Option<Vec<RuleSpec>>>() else { return "bad-case".into() };
                let new_kb = KnowledgeBase::new("c02-replaced");
                let old_v = eng.knowledge_base().version();
                let target = match mode {
                    "s" => old_v.saturating_sub(rs.len() as u64),
                    "g" => old_v + 3,
                    _ => 0,
                };
                for _ in 0..target {
                    new_kb.clear();
                }
                for r in &rs {
                    let _ = new_kb.add_rule(build_rule(r, wf));
                }
                *eng.knowledge_base_mut() = new_kb;
                "u".into()
            }
            'K' => {
                if !rest.is_empty() {
                    return "bad-case".into();
                }
                eng.knowledge_base().clear();
                "u".into()
            }
            'U' => match rest {
                "b" => {
                    facts.begin_undo_frame();
                    frames.push(facts.get_all_facts());
                    "u".into()
                }
                "c" => {
                    facts.commit_undo_frame();
                    frames.pop();
                    "u".into()
                }
                "r" => {
                    facts.rollback_undo_frame();
                    // every fact — the nested objects and dotted flat keys included — is what it was at the matching `Ub`
                    match frames.pop() {
                        Some(snap) if snap != facts.get_all_facts() => "u!undo".into(),
                        _ => "u".into(),
                    }
                }
                _ => return "bad-case".into(),
            },
            'V' => {
                let Ok(g) = rest.parse::<u64>() else { return "bad-case".into() };
                eng.activate_agenda_group(group_name(g));
                "u".into()
            }
            'A' => {
                let Some(r) = parse_rule(rest) else { return "bad-case".into() };
                let rule = build_rule(&r, wf);
                let added = if via_mut { eng.knowledge_base_mut().add_rule(rule) } else { eng.knowledge_base().add_rule(rule) };
                match added {
                    Ok(()) => "a1".into(),
                    Err(_) => "a0".into(),
                }
            }
            'R' => {
                let Ok(n) = rest.parse::<u64>() else { return "bad-case".into() };
                let name = rule_name(n);
                let removed = if via_mut { eng.knowledge_base_mut().remove_rule(&name) } else { eng.knowledge_base().remove_rule(&name) };
                match removed {
                    Ok(true) => "b1".into(),
                    Ok(false) => "b0".into(),
                    Err(_) => "berr".into(),
                }
            }
            'E' | 'D' => {
                let Ok(n) = rest.parse::<u64>() else { return "bad-case".into() };
                let name = rule_name(n);
                let set = if via_mut {
                    eng.knowledge_base_mut().set_rule_enabled(&name, k == 'E')
                } else {
                    eng.knowledge_base().set_rule_enabled(&name, k == 'E')
                };
                match set {
                    Ok(true) => "b1".into(),
                    Ok(false) => "b0".into(),
                    Err(_) => "berr".into(),
                }
            }
            'S' => {
                let q: Vec<&str> = rest.split('.').collect();
                if q.len() != 2 {
                    return "bad-case".into();
                }
                let (Ok(f), Ok(v)) = (q[0].parse::<u64>(), q[1].parse::<i64>()) else { return "bad-case".into() };
                facts.set(&format!("f{}", f), Value::Integer(v));
                "u".into()
            }
            _ => return "bad-case".into(),
        };
        let fs: Vec<String> = (0..nf)
            .map(|i| match facts.get(&format!("f{}", i)) {
                Some(Value::Integer(v)) => v.to_string(),
                None => "_".into(),
                Some(_) => "?".into(),
            })
            .collect();
        out.push(format!(
            "{}/{}/{}/{}",
            res,
            events,
            group_id(eng.get_active_agenda_group()),
            if fs.is_empty() { "-".into() } else { fs.join(",") }
        ));
    }
    if out.is_empty() {
        "-".into()
    } else {
        out.join(";")
    }
}

// ---------------------------------------------------------------------------------------------
// exec loop: the repository prints to stdout from `WorkflowEngine::activate_agenda_group`, so fd 1 is
// pointed at /dev/null while cases run and observations go to a duplicate of the original fd 1.
// Each case runs in its own thread with a deadline so that a real hang is an observation (`hang`).
extern "C" {
    fn dup(fd: i32) -> i32;
    fn dup2(a: i32, b: i32) -> i32;
}

pub fn exec_main(f: fn(&str) -> String, deadline_s: u64) {
    use std::os::fd::{AsRawFd, FromRawFd};
    let saved = unsafe { dup(1) };
    let null = std::fs::OpenOptions::new().write(true).open("/dev/null").unwrap();
    unsafe { dup2(null.as_raw_fd(), 1) };
    let mut out = std::io::BufWriter::new(unsafe { std::fs::File::from_raw_fd(saved) });
    std::panic::set_hook(Box::new(|_| {}));
    let stdin = std::io::stdin();
    let mut hung = 0usize;
    for line in stdin.lock().lines() {
        let line = line.unwrap();
        let line = line.trim_end().to_string();
        if line.is_empty() {
            continue;
        }
        if hung >= 2 {
            // two calls already failed to return: do not tie up more cores, report the rest as not run
            writeln!(out, "hang-skipped").unwrap();
            continue;
        }
        let (tx, rx) = std::sync::mpsc::channel();
        std::thread::Builder::new()
            .stack_size(16 << 20)
            .spawn(move || {
                let _ = tx.send(exec_guarded(f, &line));
            })
            .unwrap();
        let obs = match rx.recv_timeout(std::time::Duration::from_secs(deadline_s)) {
            Ok(s) => s,
            Err(_) => {
                hung += 1;
                "hang".to_string()
            }
        };
        writeln!(out, "{}", obs).unwrap();
    }
    out.flush().unwrap();
    if hung > 0 {
        std::process::exit(0); // do not wait for the spinning threads
    }
}

// ---------------------------------------------------------------------------------------------
// generator

const SALS: [i64; 7] = [i32::MIN as i64, -5, 0, 0, 7, 7, i32::MAX as i64];
const DATES: [u64; 11] = [9, 10, 11, 19, 20, 21, 29, 30, 31, 49, 51];
const TIMES: [u64; 3] = [10, 20, 30];
/// UTC offsets in minutes: the real-world extremes, half / three-quarter hours, a one-minute and a 23:59 offset
const OFFSETS: [i32; 16] = [330, -300, 540, -480, 60, -60, 345, -210, 840, -720, 765, 1, -1, 1439, -1439, 0];

/// how a generated date reaches the rule: 2/5 plain `Z` string, 2/5 string with a non-zero offset (`+00:00` is in
/// the table as well), 1/5 the DateTime<Utc> twin
pub fn gen_how(rng: &mut Rng) -> How {
    match rng.below(5) {
        0 | 1 => How::Z,
        2 | 3 => How::Off(if rng.chance(3, 4) { *rng.pick(&OFFSETS) } else { (rng.below(2 * 1439 + 1) as i32) - 1439 }),
        _ => How::Utc,
    }
}

pub fn gen_cond(rng: &mut Rng, nf: u64) -> (char, u64, i64) {
    (*rng.pick(&['E', 'E', 'L', 'G']), rng.below(nf), rng.below(4) as i64)
}

pub fn gen_act(rng: &mut Rng, nf: u64, ngroups: u64) -> (char, u64, i64) {
    match rng.below(10) {
        0..=3 => ('S', rng.below(nf), rng.below(4) as i64),
        4..=6 => ('A', rng.below(nf), rng.range(0, 3) as i64 - 1),
        _ => ('F', rng.below(ngroups), 0),
    }
}

fn gen_rule(rng: &mut Rng, name: u64, nf: u64, ngroups: u64, nact: u64) -> RuleSpec {
    let mut flags = 1u8;
    if rng.chance(1, 8) {
        flags = 0;
    }
    if rng.chance(2, 5) {
        flags |= 2;
    }
    if rng.chance(1, 3) {
        flags |= 4;
    }
    let ag = if rng.chance(1, 3) { None } else { Some(rng.below(ngroups)) };
    let actg = if nact > 0 && rng.chance(1, 2) { Some(rng.below(nact)) } else { None };
    let eff = if rng.chance(1, 4) { Some(*rng.pick(&DATES)) } else { None };
    let exp = if rng.chance(1, 4) { Some(*rng.pick(&DATES)) } else { None };
    let mut cond = gen_cond(rng, nf);
    if rng.chance(1, 2) {
        // mostly-true conditions keep the interesting gates busy
        cond = ('L', rng.below(nf), 50);
    }
    let na = rng.below(3);
    let mut acts: Vec<(char, u64, i64)> = (0..na).map(|_| gen_act(rng, nf, ngroups)).collect();
    if rng.chance(1, 8) {
        // a workflow bookkeeping action (ScheduleRule / CompleteWorkflow / SetWorkflowData), alone or next to the others
        let at = rng.below(acts.len() as u64 + 1) as usize;
        acts.insert(at, ('W', rng.below(3), 0));
    }
    let effh = if eff.is_some() { gen_how(rng) } else { How::Z };
    let exph = if exp.is_some() { gen_how(rng) } else { How::Z };
    RuleSpec { name, sal: *rng.pick(&SALS), flags, ag, actg, eff, exp, effh, exph, effn: 0, expn: 0, cond, acts }
}

fn gen(rng: &mut Rng, n: usize, _tier: &str) -> Vec<String> {
    let mut out = Vec::new();
    for _ in 0..n {
        let nf = 3u64;
        let ngroups = rng.range(2, 3);
        let nact = rng.below(3);
        let nr = rng.range(2, 8);
        let rules: Vec<RuleSpec> = (0..nr).map(|i| gen_rule(rng, i, nf, ngroups, nact)).collect();
        let facts: Vec<Option<i64>> = (0..nf).map(|_| if rng.chance(1, 12) { None } else { Some(rng.below(3) as i64) }).collect();
        let nops = rng.range(1, 5);
        let mut ops = Vec::new();
        for j in 0..nops {
            let last = j + 1 == nops;
            let o = match if last { rng.below(7) } else { rng.below(25) } {
                0..=3 => format!("X{}", rng.pick(&TIMES)),
                4 | 5 => "C".to_string(),
                6 => "T".to_string(),
                7 | 8 => format!("F{}", rng.below(ngroups)),
                9 => "P".to_string(),
                10 => "Z".to_string(),
                11 => "N".to_string(),
                12 => format!("V{}", rng.below(ngroups)),
                13 => { let nm = rng.below(nr + 2); format!("A{}", show_rule(&gen_rule(rng, nm, nf, ngroups, nact))) }
                14 => format!("R{}", rng.below(nr + 1)),
                15 => format!("{}{}", if rng.chance(1, 2) { 'E' } else { 'D' }, rng.below(nr + 1)),
                16 => format!("S{}.{}", rng.below(nf), rng.below(3)),
                17 => format!("{}{}", if rng.chance(2, 3) { 'B' } else { 'Q' }, rng.below(2)),
                18 | 19 => format!("W{}", rng.below(ngroups)),
                20 => {
                    let k = rng.range(1, 3);
                    format!("Y{}", (0..k).map(|_| rng.below(ngroups).to_string()).collect::<Vec<_>>().join("."))
                }
                21 => { let nm = rng.below(nr + 2); format!("MA{}", show_rule(&gen_rule(rng, nm, nf, ngroups, nact))) }
                22 => format!("M{}{}", rng.pick(&['R', 'E', 'D']), rng.below(nr + 1)),
                23 => {
                    if rng.chance(1, 2) {
                        "K".to_string()
                    } else {
                        let k = rng.below(nr + 3);
                        let rs: Vec<String> = (0..k).map(|i| show_rule(&gen_rule(rng, i, nf, ngroups, nact))).collect();
                        format!("H{}{}", rng.pick(&['l', 's', 'g']), rs.iter().map(|r| format!("&{}", r)).collect::<String>())
                    }
                }
                _ => format!("S{}.{}", rng.below(nf), rng.below(3)),
            };
            ops.push(o);
        }
        // 1 in 12: the engine is built with `RustRuleEngine::new` (default configuration)
        let maxc = if rng.chance(1, 12) { DFLT } else { *rng.pick(&[1usize, 1, 2, 3, 5]) };
        out.push(show_case(&Case { maxc, facts, rules, ops }));
    }
    // focus-history family: long set/pop/clear/activate histories with repeated groups (the focus stack must
    // hold each group once; a duplicate only shows after re-focusing a buried group and popping twice)
    for _ in 0..n / 5 {
        let nf = 3u64;
        let ngroups = rng.range(2, 4);
        let nr = rng.range(2, 5);
        let mut rules: Vec<RuleSpec> = (0..nr).map(|i| gen_rule(rng, i, nf, ngroups, 0)).collect();
        for (i, r) in rules.iter_mut().enumerate() {
            r.flags |= 1;
            r.eff = None;
            r.exp = None;
            r.ag = Some(i as u64 % ngroups);
            r.cond = ('L', 0, 50);
        }
        let facts: Vec<Option<i64>> = (0..nf).map(|_| Some(rng.below(3) as i64)).collect();
        let nops = rng.range(4, 9);
        let mut ops = Vec::new();
        for j in 0..nops {
            let o = if j + 1 == nops {
                if rng.chance(1, 2) { "C".to_string() } else { format!("X{}", rng.pick(&TIMES)) }
            } else {
                match rng.below(24) {
                    0..=8 => format!("F{}", rng.below(ngroups)),
                    9 | 10 => "Z".to_string(),
                    11..=15 => "P".to_string(),
                    16 => format!("V{}", rng.below(ngroups)),
                    17 => format!("W{}", rng.below(ngroups)),
                    // executes in the middle of the focus history: what fired is remembered across pops and clears
                    18 | 19 => "C".to_string(),
                    20 => "T".to_string(),
                    _ => format!("X{}", rng.pick(&TIMES)),
                }
            };
            ops.push(o);
        }
        out.push(show_case(&Case { maxc: 1, facts, rules, ops }));
    }
    // abort family: an execute that returns Err (an action reads an absent field) or ends at the bound after activation-group
    // rules fired, the cause repaired or not, then further executes on the same engine (per-pass bookkeeping must not
    // survive the aborted call); every ordered pair of entry points
    for _ in 0..n / 20 {
        let nact = rng.range(1, 2);
        let na = rng.range(2, 4);
        let mut rules: Vec<RuleSpec> = (0..na)
            .map(|i| RuleSpec {
                name: i,
                sal: *rng.pick(&[7i64, 0, 0, -5]),
                flags: if rng.chance(1, 8) { 3 } else { 1 },
                ag: None,
                actg: if rng.chance(1, 8) { None } else { Some(i % nact) },
                eff: None,
                exp: None,
                effh: How::Z,
                exph: How::Z, effn: 0, expn: 0,
                cond: if rng.chance(3, 4) { ('L', 0, 50) } else { gen_cond(rng, 2) },
                acts: if rng.chance(1, 2) { vec![('A', rng.below(2), 1)] } else { vec![] },
            })
            .collect();
        let failing = rng.chance(3, 4);
        if failing {
            let sal = if rng.chance(5, 6) { *rng.pick(&[-5i64, -9, 0]) } else { 9 };
            let actg = if rng.chance(1, 4) { Some(rng.below(nact)) } else { None };
            let flags = if rng.chance(1, 4) { *rng.pick(&[5u8, 3, 7]) } else { 1 };
            rules.push(RuleSpec { name: 9, sal, flags, ag: None, actg, eff: None, exp: None, effh: How::Z, exph: How::Z, effn: 0, expn: 0, cond: ('L', 0, 50), acts: vec![('A', 2, 1)] });
        }
        let ex = |rng: &mut Rng| match rng.below(5) {
            0 | 1 => "C".to_string(),
            2 => "T".to_string(),
            _ => format!("X{}", rng.pick(&TIMES)),
        };
        let mut ops = vec![ex(rng)];
        match rng.below(8) {
            0 | 1 => ops.push("D9".to_string()),
            2 => ops.push("R9".to_string()),
            3 | 4 => ops.push("S2.0".to_string()),
            5 => ops.push(format!("F{}", 0)),
            _ => {}
        }
        ops.push(ex(rng));
        if rng.chance(1, 3) {
            ops.push(ex(rng));
        }
        let facts = vec![Some(0), Some(0), if failing { None } else { Some(0) }];
        out.push(show_case(&Case { maxc: *rng.pick(&[1usize, 2, 3, 3, 5]), facts, rules, ops }));
    }
    // large-knowledge-base family: 20..48 rules with many salience ties added in non-monotone order
    // (insertion order among equals must survive the sort for every size, not only for small vectors)
    for _ in 0..(n / 60).max(8) {
        let nf = 3u64;
        let nr = rng.range(20, 48);
        let sals = [10i64, 0, -5, 3];
        let rules: Vec<RuleSpec> = (0..nr)
            .map(|i| RuleSpec {
                name: i,
                sal: *rng.pick(&sals),
                flags: 1,
                ag: None,
                actg: None,
                eff: None,
                exp: None,
                effh: How::Z,
                exph: How::Z, effn: 0, expn: 0,
                cond: if rng.chance(4, 5) { ('L', 0, 50) } else { gen_cond(rng, nf) },
                acts: vec![],
            })
            .collect();
        let facts: Vec<Option<i64>> = (0..nf).map(|_| Some(rng.below(3) as i64)).collect();
        let ops = vec![if rng.chance(1, 2) { "C".to_string() } else { format!("X{}", rng.pick(&TIMES)) }];
        out.push(show_case(&Case { maxc: 1, facts, rules, ops }));
    }
    // date-window family: 2..5 enabled rules with true conditions, every one with an effective and/or expiry date
    // on or next to an evaluation timestamp, each date handed over in a random way (Z string, offset string with the
    // text on another day / in another year, DateTime<Utc> twin); every evaluation timestamp is visited, in random
    // order, plus the callback twin (now). The abstract instant is the same however it is written, so every
    // boundary still lands exactly on 10 / 20 / 30.
    for _ in 0..n / 12 {
        let nf = 2u64;
        let nr = rng.range(2, 5);
        let near = [9u64, 10, 11, 19, 20, 21, 29, 30, 31];
        let rules: Vec<RuleSpec> = (0..nr)
            .map(|i| {
                let (eff, exp) = match rng.below(4) {
                    0 => (Some(*rng.pick(&near)), None),
                    1 => (None, Some(*rng.pick(&near))),
                    2 => (Some(*rng.pick(&DATES)), Some(*rng.pick(&DATES))),
                    _ => {
                        let a = *rng.pick(&near);
                        let b = a + *rng.pick(&[0u64, 1, 9, 10, 11, 20]);
                        (Some(a), Some(if b == 50 { 49 } else { b })) // 50 is "now" itself, not a date
                    }
                };
                let off = |rng: &mut Rng| if rng.chance(1, 5) { gen_how(rng) } else { How::Off(if rng.chance(3, 4) { *rng.pick(&OFFSETS) } else { (rng.below(2 * 1439 + 1) as i32) - 1439 }) };
                let effh = if eff.is_some() { off(rng) } else { How::Z };
                let exph = if exp.is_some() { off(rng) } else { How::Z };
                let acts = if rng.chance(1, 3) { vec![('A', 1, 1)] } else { vec![] };
                RuleSpec { name: i, sal: *rng.pick(&[0i64, 0, 7, -5]), flags: 1, ag: None, actg: None, eff, exp, effh, exph, effn: 0, expn: 0, cond: ('L', 0, 50), acts }
            })
            .collect();
        let facts: Vec<Option<i64>> = vec![Some(0), Some(0)];
        let mut ops: Vec<String> = TIMES.iter().map(|t| format!("X{}", t)).collect();
        for i in (1..ops.len()).rev() {
            let j = rng.below(i as u64 + 1) as usize;
            ops.swap(i, j);
        }
        if rng.chance(1, 3) {
            ops.push("C".to_string());
        }
        if rng.chance(1, 4) {
            ops.push(format!("X{}", rng.pick(&[9u64, 11, 19, 21, 29, 31])));
        }
        out.push(show_case(&Case { maxc: 1, facts, rules, ops }));
    }
    for i in 0..n / 15 {
        out.push(gen_boundary_walk(rng, i));
    }
    for _ in 0..n / 20 {
        out.push(gen_kb_replace(rng));
    }
    for _ in 0..(n / 15).max(60) {
        out.push(gen_confusable_names(rng));
    }
    for _ in 0..(n / 25).max(40) {
        out.push(gen_multi_activate(rng));
    }
    for _ in 0..(n / 25).max(40) {
        out.push(gen_undo_frames(rng));
    }
    out
}

/// boundary-walk family (shared with C03): ONE engine, a rule with the window [e, x) (plus neighbours with only one of the
/// two dates, a disabled twin, an empty window, sometimes a no-loop / lock-on-active / activation-group attribute or a
/// self-triggering action), and `execute_at_time` at the ticks e-1, e, e+1, x-1, x, x+1 — before the window, at
/// effective == t, inside, at expires == t, after — in ascending, descending or random order on the same engine.
/// The tick is a whole second (1 case in 3) or 100 ms / 500 µs / 1 µs / 1 ns on a base instant with a sub-second part,
/// so that the evaluation instants and the bounds fall into the SAME second / millisecond / microsecond and differ only
/// in their sub-second / sub-millisecond / nanosecond part. Each date goes through one of the three builders (Z string
/// with 3 / 6 / 9 fractional digits, offset string, DateTime<Utc> twin), each timestamp through the text or the arithmetic form.
pub fn gen_boundary_walk(rng: &mut Rng, i: usize) -> String {
    const NS: u64 = 1_000_000_000;
    let unit: u64 = match rng.below(9) {
        0..=2 => NS,
        3 | 4 => 100_000_000,
        5 | 6 => 500_000,
        7 => 1_000,
        _ => 1,
    };
    // base instant: whole seconds for the one-second tick, else a second plus a sub-second offset chosen so that all
    // ticks of the walk stay inside one second (100 ms ticks) / one millisecond or straddle one (500 µs) / one microsecond
    let base_sec = *rng.pick(&[3u64, 10, 20, 29]);
    let base: u64 = base_sec * NS
        + if unit == NS {
            0
        } else {
            match unit {
                100_000_000 => 100_000_000,
                500_000 => *rng.pick(&[200_000u64, 500_200_000, 998_700_000]),
                1_000 => *rng.pick(&[1_500u64, 700_001_000, 999_990_000]),
                _ => *rng.pick(&[1u64, 999_999, 999_999_990, 123_456_789]),
            }
        };
    let width = if unit == 100_000_000 { *rng.pick(&[1u64, 2, 3, 6]) } else { *rng.pick(&[1u64, 2, 3, 10]) };
    // ticks: e = 1, x = 1 + width (tick 0 = base is one tick before the window)
    let inst = |k: u64| -> (u64, u32) {
        let v = base + k * unit;
        (v / NS, (v % NS) as u32)
    };
    let (e, x) = (1u64, 1 + width);
    let how = |rng: &mut Rng, i: usize| match i % 3 {
        0 => How::Utc,
        1 => How::Off(if rng.chance(3, 4) { *rng.pick(&OFFSETS) } else { (rng.below(2 * 1439 + 1) as i32) - 1439 }),
        _ => gen_how(rng),
    };
    let base_rule = |name: u64, eff: Option<u64>, exp: Option<u64>, effh: How, exph: How, flags: u8| RuleSpec {
        name,
        sal: 0,
        flags,
        ag: None,
        actg: None,
        eff: eff.map(|k| inst(k).0),
        exp: exp.map(|k| inst(k).0),
        effh,
        exph,
        effn: eff.map(|k| inst(k).1).unwrap_or(0),
        expn: exp.map(|k| inst(k).1).unwrap_or(0),
        cond: ('L', 0, 50),
        acts: vec![],
    };
    let mut rules = vec![base_rule(0, Some(e), Some(x), how(rng, i), how(rng, i + 1), 1)];
    if rng.chance(2, 3) {
        rules.push(base_rule(1, Some(e), None, how(rng, i + 1), How::Z, 1));
    }
    if rng.chance(2, 3) {
        rules.push(base_rule(2, None, Some(x), How::Z, how(rng, i + 2), 1));
    }
    if rng.chance(1, 3) {
        rules.push(base_rule(3, Some(e), Some(x), how(rng, i + 2), how(rng, i), 0)); // disabled twin: never fires
    }
    if rng.chance(1, 3) {
        // an empty window (expires <= effective): never active
        rules.push(base_rule(4, Some(x), Some(if rng.chance(1, 2) { x } else { e }), how(rng, i), how(rng, i + 1), 1));
    }
    match rng.below(6) {
        0 => rules[0].flags |= 2,
        1 => rules[0].flags |= 4,
        2 => {
            for r in rules.iter_mut() {
                r.actg = Some(0);
            }
        }
        3 => {
            rules[0].sal = *rng.pick(&[7i64, -5]);
            rules[0].acts = vec![('A', 1, 1)];
        }
        _ => {}
    }
    let mut ts: Vec<u64> = vec![e - 1, e, e + 1, x - 1, x, x + 1];
    ts.sort();
    ts.dedup();
    match rng.below(3) {
        0 => {}
        1 => ts.reverse(),
        _ => {
            for a in (1..ts.len()).rev() {
                let b = rng.below(a as u64 + 1) as usize;
                ts.swap(a, b);
            }
        }
    }
    let mut ops: Vec<String> = Vec::new();
    for k in ts {
        let (s, n) = inst(k);
        ops.push(format!("X{}{}", show_instant(s, n), if rng.chance(1, 2) { "u" } else { "" }));
        if rng.chance(1, 8) {
            ops.push(if rng.chance(1, 2) { "N".to_string() } else { "F0".to_string() });
        }
    }
    show_case(&Case { maxc: *rng.pick(&[1usize, 1, 2, 3]), facts: vec![Some(0), Some(0)], rules, ops })
}

/// knowledge-base replacement family (shared with C03): an engine whose knowledge base has seen edits (so that its
/// version counter is above its rule count), an execute, then `*knowledge_base_mut() = new_kb` with a new base of the
/// same / a smaller / a larger version and more, as many or fewer rules (names reused or new, other saliences), then
/// further executes, sometimes a second replacement. Conditions are mostly true, so every rule of the new base that is
/// not evaluated shows as an eligible rule that did not fire.
pub fn gen_kb_replace(rng: &mut Rng) -> String {
    let nf = 2u64;
    let mk = |rng: &mut Rng, name: u64| RuleSpec {
        name,
        sal: *rng.pick(&[7i64, 0, 0, -5, 3]),
        flags: if rng.chance(1, 6) { 3 } else { 1 },
        ag: None,
        actg: if rng.chance(1, 6) { Some(0) } else { None },
        eff: None,
        exp: None,
        effh: How::Z,
        exph: How::Z,
        effn: 0,
        expn: 0,
        cond: if rng.chance(4, 5) { ('L', 0, 50) } else { gen_cond(rng, nf) },
        acts: if rng.chance(1, 3) { vec![('A', 1, 1)] } else { vec![] },
    };
    let n0 = rng.range(1, 4);
    let rules: Vec<RuleSpec> = (0..n0).map(|i| mk(rng, i)).collect();
    let ex = |rng: &mut Rng| match rng.below(4) {
        0 => "C".to_string(),
        1 => "T".to_string(),
        _ => format!("X{}", rng.pick(&TIMES)),
    };
    let mut ops: Vec<String> = Vec::new();
    // edits that raise the version counter without adding rules
    for _ in 0..rng.below(4) {
        ops.push(match rng.below(3) {
            0 => format!("D{}", rng.below(n0)),
            1 => format!("E{}", rng.below(n0)),
            _ => format!("R{}", rng.below(n0)),
        });
    }
    ops.push(ex(rng));
    for round in 0..rng.range(1, 2) {
        let k = match rng.below(4) {
            0 => rng.below(n0 + 1),
            _ => n0 + rng.range(1, 3),
        };
        let first = if rng.chance(1, 2) { 0 } else { 10 * (round + 1) };
        let rs: String = (0..k).map(|i| format!("&{}", show_rule(&mk(rng, first + i)))).collect();
        ops.push(format!("H{}{}", rng.pick(&['s', 's', 's', 'l', 'g']), rs));
        ops.push(ex(rng));
        if rng.chance(1, 3) {
            ops.push(ex(rng));
        }
    }
    show_case(&Case { maxc: *rng.pick(&[1usize, 2, 3]), facts: vec![Some(0), Some(0)], rules, ops })
}

// ---------------------------------------------------------------------------------------------
// families shared with C03 (c03.rs): several pending agenda activations, caller-owned undo frames, confusable names

fn exec_any(rng: &mut Rng) -> String {
    match rng.below(8) {
        0..=2 => "C".to_string(),
        3..=5 => format!("X{}", rng.pick(&TIMES)),
        _ => "T".to_string(),
    }
}

fn plain(name: u64, sal: i64, flags: u8, ag: Option<u64>, cond: (char, u64, i64), acts: Vec<(char, u64, i64)>) -> RuleSpec {
    RuleSpec { name, sal, flags, ag, actg: None, eff: None, exp: None, effh: How::Z, exph: How::Z, effn: 0, expn: 0, cond, acts }
}

/// 2..4 activations queued through `RustRuleEngine::activate_agenda_group` (the twin of set_agenda_focus that ALSO queues the
/// activation in the workflow engine) before each execute — the same group twice, different groups, MAIN — interleaved with
/// set_agenda_focus / pop / clear, which move the focus without queueing. `execute` re-applies EVERY queued activation in
/// queue order before its first pass, so the pass runs under the last queued group whatever the focus calls in between did.
/// Every group (MAIN included) holds rules with true and false conditions: one-shot rules (fire in the first pass only),
/// counters, lock-on-active and no-loop rules; 2..3 executes per history, max_cycles 2..6.
pub fn gen_multi_activate(rng: &mut Rng) -> String {
    let ngroups = rng.range(3, 4);
    let mut rules = Vec::new();
    let mut name = 0u64;
    for g in 0..ngroups {
        let per = rng.range(1, 2);
        for _ in 0..per {
            let f = g % 3;
            let (flags, cond, acts) = match rng.below(6) {
                0 => (1u8, ('E', f, 0), vec![('S', f, 1)]),                       // one-shot, true at the start
                1 => (1, ('L', f, rng.range(1, 4) as i64), vec![('A', f, 1)]),    // short counter
                2 => (5, ('G', f, -1), vec![]),                                   // lock-on-active, always true
                3 => (3, ('G', f, -1), vec![('A', f, 1)]),                        // no-loop, always true
                4 => (1, ('E', f, 7), vec![('S', f, 0)]),                         // false
                _ => (1, ('E', f, 0), vec![('S', f, 1), ('F', rng.below(ngroups), 0)]),
            };
            let ag = if g == 0 && rng.chance(1, 2) { None } else { Some(g) };
            rules.push(plain(name, *rng.pick(&[0i64, 0, 7, -5]), flags, ag, cond, acts));
            name += 1;
        }
    }
    let mut ops = Vec::new();
    for _ in 0..rng.range(2, 3) {
        let k = rng.range(2, 4);
        let first = rng.below(ngroups);
        for i in 0..k {
            let g = match rng.below(4) {
                0 => first,
                _ => rng.below(ngroups),
            };
            ops.push(format!("V{}", if i == 1 && rng.chance(1, 2) { (first + 1 + rng.below(ngroups - 1)) % ngroups } else { g }));
            match rng.below(8) {
                0 => ops.push(format!("F{}", rng.below(ngroups))),
                1 => ops.push("P".to_string()),
                2 => ops.push("Z".to_string()),
                _ => {}
            }
        }
        ops.push(exec_any(rng));
        if rng.chance(1, 3) {
            ops.push(exec_any(rng));
        }
        if rng.chance(1, 4) {
            ops.push(format!("S{}.0", rng.below(3)));
        }
    }
    let maxc = rng.range(2, 6) as usize;
    show_case(&Case { maxc, facts: vec![Some(0), Some(0), Some(0)], rules, ops })
}

/// The CALLER holds an undo frame on the `Facts` it hands to `execute` (begin_undo_frame before the call; commit or rollback
/// after it; nested frames; a frame left open over several calls; commit / rollback with nothing open). The rules write flat
/// keys (S / A), dotted paths of the existing object (`O.0`, `O.2`), dotted paths of a missing object (`O.1`), several of them
/// per rule; counters and one-shot rules, some no-loop. After a rollback the facts are what they were at the matching begin,
/// so a following execute fires the same rules again.
pub fn gen_undo_frames(rng: &mut Rng) -> String {
    let nr = rng.range(1, 4);
    let mut rules = Vec::new();
    for i in 0..nr {
        let f = i % 3;
        let mut acts: Vec<(char, u64, i64)> = Vec::new();
        for _ in 0..rng.range(1, 3) {
            acts.push(match rng.below(7) {
                0 => ('S', f, rng.range(1, 3) as i64),
                1 | 2 => ('A', f, 1),
                3 | 4 => ('O', *rng.pick(&[0u64, 0, 2]), rng.below(5) as i64),
                5 => ('O', 1, rng.below(5) as i64),
                _ => ('O', rng.below(3), rng.below(5) as i64),
            });
        }
        let (flags, cond) = match rng.below(5) {
            0 => (1u8, ('E', f, 0)),
            1 => (1, ('L', f, rng.range(1, 4) as i64)),
            2 => (3, ('G', f, -1)),
            3 => (1, ('E', f, 9)),
            _ => (1, ('L', f, 2)),
        };
        rules.push(plain(i, *rng.pick(&[0i64, 0, 7, -5]), flags, None, cond, acts));
    }
    let mut ops = Vec::new();
    let mut open = 0u32;
    for _ in 0..rng.range(1, 3) {
        match rng.below(6) {
            0 => {}
            1 => {
                ops.push("Ub".to_string());
                ops.push("Ub".to_string());
                open += 2;
            }
            _ => {
                ops.push("Ub".to_string());
                open += 1;
            }
        }
        if rng.chance(1, 5) {
            ops.push(format!("S{}.{}", rng.below(3), rng.below(3)));
        }
        ops.push(exec_any(rng));
        if rng.chance(1, 4) {
            ops.push(exec_any(rng));
        }
        match rng.below(6) {
            0 => {}
            1 | 2 => {
                ops.push("Uc".to_string());
                open = open.saturating_sub(1);
            }
            _ => {
                ops.push("Ur".to_string());
                open = open.saturating_sub(1);
            }
        }
        if rng.chance(1, 5) {
            ops.push("N".to_string());
        }
    }
    while open > 0 && rng.chance(2, 3) {
        ops.push(if rng.chance(1, 2) { "Ur".to_string() } else { "Uc".to_string() });
        open -= 1;
    }
    if rng.chance(1, 2) {
        ops.push(exec_any(rng));
    }
    let maxc = rng.range(1, 6) as usize;
    let facts = (0..3).map(|_| if rng.chance(1, 10) { None } else { Some(rng.below(2) as i64) }).collect();
    show_case(&Case { maxc, facts, rules, ops })
}

/// Agenda groups, activation groups and rule names drawn from the WHOLE name tables (confusable names: prefix relations
/// through `/` `.` `:` blank, empty string, look-alikes of MAIN, case / trailing-blank twins, a group named like a rule).
/// Lock-on-active / no-loop / activation-group rules with true conditions in 2..4 of these groups; histories that activate one
/// group, execute (its lock-on-active rules fire), move the focus to another group (a NEW activation of that one only) and come
/// back by pop (not a new activation) or by set_agenda_focus (a new one), with executes in between: the bookkeeping of one
/// name must never be touched through another name.
pub fn gen_confusable_names(rng: &mut Rng) -> String {
    // pairs of ids whose names are in a confusable relation, and free draws from the whole table
    let pairs: [(u64, u64); 14] =
        [(1, 2), (1, 13), (2, 14), (1, 15), (1, 3), (1, 4), (1, 5), (1, 12), (1, 11), (0, 8), (0, 9), (0, 10), (6, 17), (16, 13)];
    let mut groups: Vec<u64> = Vec::new();
    let (a, b) = *rng.pick(&pairs);
    groups.push(a);
    groups.push(b);
    for _ in 0..rng.below(3) {
        let g = rng.below(NGROUP_NAMES);
        if !groups.contains(&g) {
            groups.push(g);
        }
    }
    let mut names: Vec<u64> = (0..12).collect();
    for i in (1..names.len()).rev() {
        let j = rng.below(i as u64 + 1) as usize;
        names.swap(i, j);
    }
    let mut rules = Vec::new();
    let mut k = 0usize;
    for g in &groups {
        for _ in 0..rng.range(1, 2) {
            if k >= names.len() {
                break;
            }
            let flags = *rng.pick(&[5u8, 5, 5, 3, 7, 1]);
            let mut r = plain(names[k], *rng.pick(&[0i64, 0, 7, -5]), flags, Some(*g), ('G', 0, -1), if rng.chance(1, 3) { vec![('A', 1, 1)] } else { vec![] });
            if rng.chance(1, 5) {
                r.actg = Some(rng.below(8));
            }
            rules.push(r);
            k += 1;
        }
    }
    let mut ops = Vec::new();
    let pick = |rng: &mut Rng, groups: &Vec<u64>| *rng.pick(&groups[..]);
    // activate the second of the pair (the longer name), run, go to the first, come back
    let (first, second) = if rng.chance(3, 4) { (groups[1], groups[0]) } else { (groups[0], groups[1]) };
    ops.push(format!("{}{}", if rng.chance(4, 5) { 'F' } else { 'V' }, first));
    ops.push(exec_any(rng));
    ops.push(format!("F{}", if rng.chance(3, 4) { second } else { pick(rng, &groups) }));
    if rng.chance(1, 2) {
        ops.push(exec_any(rng));
    }
    ops.push(if rng.chance(2, 3) { "P".to_string() } else { format!("F{}", pick(rng, &groups)) });
    ops.push(exec_any(rng));
    for _ in 0..rng.below(4) {
        ops.push(match rng.below(6) {
            0 => "P".to_string(),
            1 => format!("V{}", pick(rng, &groups)),
            2 => format!("W{}", pick(rng, &groups)),
            3 => exec_any(rng),
            _ => format!("F{}", pick(rng, &groups)),
        });
    }
    ops.push(exec_any(rng));
    let maxc = rng.range(1, 3) as usize;
    show_case(&Case { maxc, facts: vec![Some(0), Some(0)], rules, ops })
}

pub fn shrink(case: &str) -> Vec<String> {
    let Some(c) = parse_case(case) else { return vec![] };
    let mut out = Vec::new();
    for ops in shrink_list(&c.ops) {
        if !ops.is_empty() {
            out.push(show_case(&Case { maxc: c.maxc, facts: c.facts.clone(), rules: c.rules.clone(), ops }));
        }
    }
    for rules in shrink_list(&c.rules) {
        out.push(show_case(&Case { maxc: c.maxc, facts: c.facts.clone(), rules, ops: c.ops.clone() }));
    }
    for (i, op) in c.ops.iter().enumerate() {
        let mut vars: Vec<String> = Vec::new();
        if let Some(gs) = op.strip_prefix('Y') {
            let gs: Vec<&str> = gs.split('.').collect();
            for sub in shrink_list(&gs) {
                if !sub.is_empty() {
                    vars.push(format!("Y{}", sub.join(".")));
                }
            }
            if gs.len() == 1 {
                vars.push(format!("W{}", gs[0]));
            }
        } else if let Some(o) = op.strip_prefix('M') {
            vars.push(o.to_string());
        } else if let Some(h) = op.strip_prefix('H') {
            let parts: Vec<&str> = h.split('&').collect();
            for sub in shrink_list(&parts[1..]) {
                vars.push(format!("H{}{}", parts[0], sub.iter().map(|r| format!("&{}", r)).collect::<String>()));
            }
            if parts[0] != "l" {
                vars.push(format!("Hl{}", parts[1..].iter().map(|r| format!("&{}", r)).collect::<String>()));
            }
        } else if op.starts_with('X') && op.ends_with('u') {
            vars.push(op[..op.len() - 1].to_string());
        }
        for v in vars {
            let mut ops = c.ops.clone();
            ops[i] = v;
            out.push(show_case(&Case { maxc: c.maxc, facts: c.facts.clone(), rules: c.rules.clone(), ops }));
        }
    }
    for i in 0..c.rules.len() {
        let r = &c.rules[i];
        let mut vars: Vec<RuleSpec> = Vec::new();
        for acts in shrink_list(&r.acts) {
            vars.push(RuleSpec { acts, ..r.clone() });
        }
        if r.eff.is_some() {
            vars.push(RuleSpec { eff: None, effh: How::Z, ..r.clone() });
        }
        if r.exp.is_some() {
            vars.push(RuleSpec { exp: None, exph: How::Z, ..r.clone() });
        }
        if r.effn != 0 || r.expn != 0 {
            vars.push(RuleSpec { effn: 0, expn: 0, ..r.clone() });
        }
        if r.effh != How::Z {
            vars.push(RuleSpec { effh: How::Z, ..r.clone() });
        }
        if r.exph != How::Z {
            vars.push(RuleSpec { exph: How::Z, ..r.clone() });
        }
        if r.actg.is_some() {
            vars.push(RuleSpec { actg: None, ..r.clone() });
        }
        if r.ag.is_some() {
            vars.push(RuleSpec { ag: None, ..r.clone() });
        }
        if r.sal != 0 {
            vars.push(RuleSpec { sal: 0, ..r.clone() });
        }
        if r.flags & 6 != 0 {
            vars.push(RuleSpec { flags: r.flags & 3, ..r.clone() });
            vars.push(RuleSpec { flags: r.flags & 5, ..r.clone() });
        }
        for v in vars {
            let mut rules = c.rules.clone();
            rules[i] = v;
            out.push(show_case(&Case { maxc: c.maxc, facts: c.facts.clone(), rules, ops: c.ops.clone() }));
        }
    }
    if c.maxc == DFLT {
        // the `with_config` twin with the same bound
        out.push(show_case(&Case { maxc: 100, facts: c.facts.clone(), rules: c.rules.clone(), ops: c.ops.clone() }));
    } else if c.maxc > 1 {
        out.push(show_case(&Case { maxc: c.maxc - 1, facts: c.facts.clone(), rules: c.rules.clone(), ops: c.ops.clone() }));
        out.push(show_case(&Case { maxc: 1, facts: c.facts.clone(), rules: c.rules.clone(), ops: c.ops.clone() }));
    }
    out
}

#[allow(dead_code)]
fn main() {
    check_name_tables();
    if std::env::args().nth(1).as_deref() == Some("exec") {
        exec_main(exec_case, 5);
    } else {
        main_with(Prop { gen, exec: exec_case, shrink });
    }
}
