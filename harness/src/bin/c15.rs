//! C15 — KnowledgeBase: lookups, listing order, index and version stay consistent; concurrent
//! histories are linearizable.
//! sequential case := `S <K> <ops>` (snapshot after the last call) | `T <K> <ops>` (snapshot after every call)
//!    ops  := comma list of a<n>.<sal>[.<q>] | A<n>.<sal>[.<q>] (added disabled) | r<n> | e<n> | d<n> | c   (`-` = none)
//!    q = row of the attribute table `decorate` (agenda group, activation group, no-loop, lock-on-active, dates, description
//!        absent, number of conditions / actions): attributes the knowledge base's order, lookups and version must IGNORE
//!        (absent = 0 = a plain rule; the model does not read it)
//!    the rule added at position i carries tag i (stored in `Rule::description`); rule n is named "R<n>"
//!    obs  := step;step;…   step := <out>:<version>[/<snap>]
//!           | y  (fork: `spare = kb; kb = kb.clone()` — later calls go to the clone, the original stays alive)
//!           | z  (exchange `kb` and `spare`; the spare is a fresh knowledge base before the first fork)
//!    snap := rules|names|count|bysal|byidx|version|stats|lookups|twin|export
//!           twin   = `=` iff get_rules_snapshot() shows what get_rules() shows
//!           export = `=` iff export_to_grl() parses back to: name() / version() / rule_count() / the get_rules() listing
//!                    (otherwise `#` + what it showed)
//! concurrent case := `C <pre> <t0> <t1> <t2>` (ops as above plus observers g<n> l n k s i<idx> v t, and
//!    w = get_rules_snapshot, x = export_to_grl (shown as the statistics of what it lists), y = clone().get_rules())
//!    obs  := event;…  event := <thread>.<pos>:<inv>:<resp>:<out>  (stamps from one global atomic counter)
use rre_harness::*;
use rust_rule_engine::engine::knowledge_base::{KnowledgeBase, KnowledgeBaseStats};
use rust_rule_engine::engine::rule::{Condition, ConditionGroup, Rule};
use rust_rule_engine::types::{Operator, Value};
use std::collections::HashMap;
use std::sync::atomic::{AtomicU64, Ordering};
use std::sync::{Arc, Barrier};

#[derive(Clone, Debug, PartialEq)]
enum Op {
    /// name, salience, enabled, attribute row (see `decorate`)
    Add(u32, i32, bool, u32),
    Remove(u32),
    SetEnabled(u32, bool),
    Clear,
    GetRule(u32),
    GetRules,
    Names,
    Count,
    BySalience,
    ByIndex(usize),
    Version,
    Stats,
    Snapshot,
    Export,
    /// sequential histories: `spare = kb; kb = kb.clone()`; concurrent histories: observer `clone().get_rules()`
    CloneKb,
    /// sequential histories: exchange `kb` and `spare` (the original and its clone are used in turn)
    Swap,
}

fn show_op(o: &Op) -> String {
    match o {
        Op::Add(n, s, en, q) => format!("{}{}.{}{}", if *en { "a" } else { "A" }, n, s, if *q == 0 { String::new() } else { format!(".{}", q) }),
        Op::Remove(n) => format!("r{}", n),
        Op::SetEnabled(n, true) => format!("e{}", n),
        Op::SetEnabled(n, false) => format!("d{}", n),
        Op::Clear => "c".into(),
        Op::GetRule(n) => format!("g{}", n),
        Op::GetRules => "l".into(),
        Op::Names => "n".into(),
        Op::Count => "k".into(),
        Op::BySalience => "s".into(),
        Op::ByIndex(i) => format!("i{}", i),
        Op::Version => "v".into(),
        Op::Stats => "t".into(),
        Op::Snapshot => "w".into(),
        Op::Export => "x".into(),
        Op::CloneKb => "y".into(),
        Op::Swap => "z".into(),
    }
}

fn parse_op(s: &str) -> Option<Op> {
    let (h, rest) = s.split_at(s.char_indices().nth(1).map(|x| x.0).unwrap_or(s.len()));
    let name_sal = |r: &str| -> Option<(u32, i32, u32)> {
        let (a, b) = r.split_once('.')?;
        let (b, q) = match b.split_once('.') {
            Some((b, q)) => (b, q.parse().ok()?),
            None => (b, 0),
        };
        Some((a.parse().ok()?, b.parse().ok()?, q))
    };
    Some(match h {
        "a" => {
            let (n, v, q) = name_sal(rest)?;
            Op::Add(n, v, true, q)
        }
        "A" => {
            let (n, v, q) = name_sal(rest)?;
            Op::Add(n, v, false, q)
        }
        "r" => Op::Remove(rest.parse().ok()?),
        "e" => Op::SetEnabled(rest.parse().ok()?, true),
        "d" => Op::SetEnabled(rest.parse().ok()?, false),
        "c" if rest.is_empty() => Op::Clear,
        "g" => Op::GetRule(rest.parse().ok()?),
        "l" if rest.is_empty() => Op::GetRules,
        "n" if rest.is_empty() => Op::Names,
        "k" if rest.is_empty() => Op::Count,
        "s" if rest.is_empty() => Op::BySalience,
        "i" => Op::ByIndex(rest.parse().ok()?),
        "v" if rest.is_empty() => Op::Version,
        "t" if rest.is_empty() => Op::Stats,
        "w" if rest.is_empty() => Op::Snapshot,
        "x" if rest.is_empty() => Op::Export,
        "y" if rest.is_empty() => Op::CloneKb,
        "z" if rest.is_empty() => Op::Swap,
        _ => return None,
    })
}

fn parse_ops(s: &str) -> Option<Vec<Op>> {
    if s == "-" {
        return Some(vec![]);
    }
    s.split(',').map(parse_op).collect()
}

fn show_ops(ops: &[Op]) -> String {
    if ops.is_empty() {
        "-".into()
    } else {
        ops.iter().map(show_op).collect::<Vec<_>>().join(",")
    }
}

fn rule_name(n: u32) -> String {
    format!("R{}", n)
}

fn mk_rule(n: u32, sal: i32, enabled: bool, tag: usize, q: u32) -> Rule {
    let mut r = Rule::new(
        rule_name(n),
        ConditionGroup::single(Condition::new("X".to_string(), Operator::Equal, Value::Integer(1))),
        vec![],
    )
    .with_salience(sal)
    .with_description(tag.to_string());
    r.enabled = enabled;
    decorate(r, q, tag)
}

/// number of rows of the attribute table
const NQ: u32 = 18;

/// attribute table: everything a rule carries BESIDE name, salience, enabled flag and tag. The knowledge base stores
/// these attributes and must not let them influence the listing order ("descending salience with insertion order
/// among equals"), the lookups, the counts or the version. Group names are chosen so that their alphabetical order,
/// their length order and `None < Some` all differ from a typical insertion order.
fn decorate(mut r: Rule, q: u32, tag: usize) -> Rule {
    use rust_rule_engine::types::ActionType;
    let set = |f: &str, v: i64| ActionType::Set { field: f.to_string(), value: Value::Integer(v) };
    let cond = |f: &str| ConditionGroup::single(Condition::new(f.to_string(), Operator::Equal, Value::Integer(1)));
    match q {
        1 => r.agenda_group = Some("zeta".into()),
        2 => r.agenda_group = Some("alpha".into()),
        3 => r.agenda_group = Some(String::new()),
        4 => r.agenda_group = Some("MAIN".into()),
        5 => r.activation_group = Some("zz".into()),
        6 => r.activation_group = Some("aa".into()),
        7 => r.no_loop = true,
        8 => r.lock_on_active = true,
        9 => r = r.with_date_effective_str("2001-02-03T04:05:06Z").unwrap_or_else(|_| unreachable!()),
        10 => r = r.with_date_expires_str("2999-02-03T04:05:06Z").unwrap_or_else(|_| unreachable!()),
        // no description: the tag travels in the first action (see `tag_of`); three actions
        11 => {
            r.description = None;
            r.actions = vec![set("Y", tag as i64), set("Z", 1), set("Z", 2)];
        }
        // three conditions
        12 => r.conditions = ConditionGroup::and(ConditionGroup::and(cond("X"), cond("W")), cond("V")),
        13 => {
            r.agenda_group = Some("beta".into());
            r.activation_group = Some("mm".into());
            r.no_loop = true;
            r.lock_on_active = true;
            r.actions = vec![set("Z", 7)];
        }
        14 => r.agenda_group = Some("Alpha".into()),
        // not effective yet and already expired
        15 => {
            r = r.with_date_effective_str("2999-02-03T04:05:06Z").unwrap_or_else(|_| unreachable!());
            r = r.with_date_expires_str("2001-02-03T04:05:06Z").unwrap_or_else(|_| unreachable!());
        }
        16 => r.agenda_group = Some("a much longer agenda group name".into()),
        17 => {
            r.activation_group = Some(String::new());
            r.agenda_group = Some("MAIN".into());
        }
        _ => {}
    }
    r
}

/// the attribute rows that GRL text can express (bulk loading), as rule-header attributes
fn grl_attrs(q: u32) -> Option<&'static str> {
    Some(match q {
        0 => "",
        1 => " agenda-group \"zeta\"",
        2 => " agenda-group \"alpha\"",
        4 => " agenda-group \"MAIN\"",
        5 => " activation-group \"zz\"",
        6 => " activation-group \"aa\"",
        7 => " no-loop",
        8 => " lock-on-active",
        14 => " agenda-group \"Alpha\"",
        _ => return None,
    })
}

fn name_id(s: &str) -> String {
    // "R<n>" -> n ; anything else is printed hex-escaped so that it can never parse as a name
    match s.strip_prefix('R').and_then(|t| t.parse::<u32>().ok()) {
        Some(n) => n.to_string(),
        None => format!("?{}", hex(s)),
    }
}

fn show_rule(r: &Rule) -> String {
    format!(
        "{}.{}.{}.{}",
        name_id(&r.name),
        r.salience,
        if r.enabled { 1 } else { 0 },
        tag_of(r)
    )
}

/// the tag of a rule: its description; a rule loaded from GRL text has none (the parser drops it), and carries
/// its tag as the value its action assigns to Y
fn tag_of(r: &Rule) -> String {
    if let Some(d) = &r.description {
        return d.clone();
    }
    match r.actions.first() {
        Some(rust_rule_engine::types::ActionType::Set { field, value: Value::Integer(n) }) if field == "Y" => n.to_string(),
        _ => "?".into(),
    }
}

fn show_orule(r: &Option<Rule>) -> String {
    match r {
        Some(r) => show_rule(r),
        None => "x".into(),
    }
}

fn show_list(xs: Vec<String>) -> String {
    if xs.is_empty() {
        "-".into()
    } else {
        xs.join(",")
    }
}

fn show_stats(s: &KnowledgeBaseStats) -> String {
    let mut d: Vec<(i32, usize)> = s.priority_distribution.iter().map(|(k, v)| (*k, *v)).collect();
    d.sort_by(|a, b| b.0.cmp(&a.0)); // HashMap: canonical order = descending salience
    let ds = if d.is_empty() {
        "-".to_string()
    } else {
        d.iter().map(|(k, c)| format!("{}={}", k, c)).collect::<Vec<_>>().join("+")
    };
    format!("{},{},{},{},{}", s.version, s.total_rules, s.enabled_rules, s.disabled_rules, ds)
}

fn show_names(kb_names: Vec<String>) -> String {
    // HashMap key order is unspecified: canonicalise by sorting (numerically where possible)
    let mut ids: Vec<String> = kb_names.iter().map(|s| name_id(s)).collect();
    ids.sort_by(|a, b| match (a.parse::<u64>(), b.parse::<u64>()) {
        (Ok(x), Ok(y)) => x.cmp(&y),
        _ => a.cmp(b),
    });
    show_list(ids)
}

/// result of one call, kept unrendered while the clock is running
enum Res {
    Unit,
    Added(bool),
    Bool(Option<bool>),
    Rule(Option<Rule>),
    Rules(Vec<Rule>),
    Names(Vec<String>),
    Nat(u64),
    Idxs(Vec<usize>),
    Stats(KnowledgeBaseStats),
    Raw(String),
}

fn show_res(r: &Res) -> String {
    match r {
        Res::Unit => "u".into(),
        Res::Added(true) => "ok".into(),
        Res::Added(false) => "dup".into(),
        Res::Bool(Some(true)) => "t".into(),
        Res::Bool(Some(false)) => "f".into(),
        Res::Bool(None) => "err".into(),
        Res::Rule(r) => show_orule(r),
        Res::Rules(rs) => show_list(rs.iter().map(show_rule).collect()),
        Res::Names(ns) => show_names(ns.clone()),
        Res::Nat(n) => n.to_string(),
        Res::Idxs(is) => join_nums(is),
        Res::Stats(s) => show_stats(s),
        Res::Raw(s) => s.clone(),
    }
}

fn apply(kb: &KnowledgeBase, op: &Op, tag: usize) -> Res {
    match op {
        Op::Add(n, s, en, q) => Res::Added(kb.add_rule(mk_rule(*n, *s, *en, tag, *q)).is_ok()),
        Op::Remove(n) => Res::Bool(kb.remove_rule(&rule_name(*n)).ok()),
        Op::SetEnabled(n, b) => Res::Bool(kb.set_rule_enabled(&rule_name(*n), *b).ok()),
        Op::Clear => {
            kb.clear();
            Res::Unit
        }
        Op::GetRule(n) => Res::Rule(kb.get_rule(&rule_name(*n))),
        Op::GetRules => Res::Rules(kb.get_rules()),
        Op::Names => Res::Names(kb.get_rule_names()),
        Op::Count => Res::Nat(kb.rule_count() as u64),
        Op::BySalience => Res::Idxs(kb.get_rules_by_salience()),
        Op::ByIndex(i) => Res::Rule(kb.get_rule_by_index(*i)),
        Op::Version => Res::Nat(kb.version()),
        Op::Stats => Res::Stats(kb.get_statistics()),
        Op::Snapshot => Res::Rules(kb.get_rules_snapshot()),
        Op::Export => match parse_export(&kb.export_to_grl()) {
            // shown as the statistics of what the export lists (one atomic view of rules + version)
            Some(e) if e.count == e.rules.len() => {
                let mut dist: HashMap<i32, usize> = HashMap::new();
                for r in &e.rules {
                    *dist.entry(r.1).or_insert(0) += 1;
                }
                let en = e.rules.iter().filter(|r| r.2).count();
                Res::Stats(KnowledgeBaseStats {
                    name: e.name.clone(),
                    version: e.version,
                    total_rules: e.rules.len(),
                    enabled_rules: en,
                    disabled_rules: e.rules.len() - en,
                    priority_distribution: dist,
                })
            }
            _ => Res::Raw("bad-export".into()),
        },
        Op::CloneKb => Res::Rules(kb.clone().get_rules()),
        Op::Swap => Res::Unit, // sequential histories only (see `apply_seq`)
    }
}

/// sequential executor over two live knowledge bases: `y` = `spare = kb; kb = kb.clone()` (the original stays alive),
/// `z` = exchange the two; every other call goes to `kb`
fn apply_seq(kb: &mut KnowledgeBase, spare: &mut KnowledgeBase, op: &Op, tag: usize) -> Res {
    match op {
        Op::CloneKb => {
            let c = kb.clone();
            *spare = std::mem::replace(kb, c);
            Res::Unit
        }
        Op::Swap => {
            std::mem::swap(kb, spare);
            Res::Unit
        }
        _ => apply(kb, op, tag),
    }
}

struct Exported {
    name: String,
    version: u64,
    count: usize,
    /// (name id, salience, enabled, tag)
    rules: Vec<(String, i32, bool, String)>,
}

/// read back what `export_to_grl` shows: the three header lines and, per rule block, the name, the description
/// (= tag; a rule loaded from GRL text has none and carries its tag in `Y = <tag>;`), the salience (absent = 0) and
/// the `// DISABLED` marker. `None` = not of that shape.
fn parse_export(text: &str) -> Option<Exported> {
    let mut lines = text.lines();
    let name = lines.next()?.strip_prefix("// Knowledge Base: ")?.to_string();
    let version = lines.next()?.strip_prefix("// Version: ")?.parse().ok()?;
    let count = lines.next()?.strip_prefix("// Rules: ")?.parse().ok()?;
    let mut rules = Vec::new();
    let mut disabled = false;
    let mut cur: Option<(String, i32, bool, Option<String>)> = None;
    for l in lines {
        let t = l.trim();
        if t == "// DISABLED" {
            if cur.is_some() {
                return None;
            }
            disabled = true;
        } else if let Some(h) = l.strip_prefix("rule ") {
            if cur.is_some() {
                return None;
            }
            let h = h.strip_suffix(" {")?;
            let (nm, mut rest) = match h.split_once(' ') {
                Some((a, b)) => (a, b),
                None => (h, ""),
            };
            let mut desc = None;
            if let Some(r) = rest.strip_prefix('"') {
                let (d, r2) = r.split_once('"')?;
                desc = Some(d.to_string());
                rest = r2.trim_start();
            }
            let sal = if rest.is_empty() { 0 } else { rest.strip_prefix("salience ")?.parse().ok()? };
            cur = Some((name_id(nm), sal, !disabled, desc));
            disabled = false;
        } else if let Some(y) = t.strip_prefix("Y = ") {
            let c = cur.as_mut()?;
            if c.3.is_none() {
                c.3 = Some(y.strip_suffix(';')?.to_string());
            }
        } else if l == "}" {
            let c = cur.take()?;
            rules.push((c.0, c.1, c.2, c.3.unwrap_or_else(|| "?".into())));
        }
    }
    if cur.is_some() || disabled {
        return None;
    }
    Some(Exported { name, version, count, rules })
}

fn snapshot(kb: &KnowledgeBase, k: u32) -> String {
    let rules = kb.get_rules();
    let rules_s = show_list(rules.iter().map(show_rule).collect());
    let twin = show_list(kb.get_rules_snapshot().iter().map(show_rule).collect());
    let count = kb.rule_count();
    let bysal = kb.get_rules_by_salience();
    let mut byidx: Vec<String> = bysal
        .iter()
        .map(|i| match kb.get_rule_by_index(*i) {
            Some(r) => tag_of(&r),
            None => "x".into(),
        })
        .collect();
    byidx.push(match kb.get_rule_by_index(count) {
        Some(r) => tag_of(&r),
        None => "x".into(),
    });
    let lookups: Vec<String> = (0..k).map(|n| show_orule(&kb.get_rule(&rule_name(n)))).collect();
    [
        rules_s.clone(),
        show_names(kb.get_rule_names()),
        count.to_string(),
        join_nums(&bysal),
        show_list(byidx),
        kb.version().to_string(),
        show_stats(&kb.get_statistics()),
        show_list(lookups),
        (if twin == rules_s { "=" } else { "#" }).to_string(),
        export_flag(kb, &rules_s, count),
    ]
    .join("|")
}

/// `=` iff the export shows name(), version(), rule_count() and the get_rules() listing; otherwise what it showed
fn export_flag(kb: &KnowledgeBase, rules_s: &str, count: usize) -> String {
    let text = kb.export_to_grl();
    match parse_export(&text) {
        Some(e) => {
            let listing = show_list(e.rules.iter().map(|r| format!("{}.{}.{}.{}", r.0, r.1, if r.2 { 1 } else { 0 }, r.3)).collect());
            if e.name == kb.name() && e.version == kb.version() && e.count == count && listing == rules_s {
                "=".into()
            } else {
                format!("#{}~{}~{}~{}", hex(&e.name), e.version, e.count, listing)
            }
        }
        None => format!("#?{}", hex(&text)),
    }
}

fn exec_seq(full: bool, k: u32, ops: &[Op]) -> String {
    let mut kb = KnowledgeBase::new("kb");
    let mut spare = KnowledgeBase::new("kb");
    let mut steps = Vec::with_capacity(ops.len());
    for (i, op) in ops.iter().enumerate() {
        let r = apply_seq(&mut kb, &mut spare, op, i);
        let mut s = format!("{}:{}", show_res(&r), kb.version());
        if full || i + 1 == ops.len() {
            s.push('/');
            s.push_str(&snapshot(&kb, k));
        }
        steps.push(s);
    }
    if steps.is_empty() {
        "-".into()
    } else {
        steps.join(";")
    }
}

fn fnv(s: &str) -> u64 {
    let mut h = 0xcbf29ce484222325u64;
    for b in s.bytes() {
        h = (h ^ b as u64).wrapping_mul(0x100000001b3);
    }
    h
}

fn exec(case: &str) -> String {
    let t: Vec<&str> = case.split_whitespace().collect();
    match t.first().copied() {
        Some("S") | Some("T") if t.len() == 3 => {
            let (Some(k), Some(ops)) = (t[1].parse::<u32>().ok(), parse_ops(t[2])) else { return "bad-case".into() };
            exec_seq(t[0] == "T", k, &ops)
        }
        // bulk case := `B <K> <pre ops> <adds>`: the pre ops one by one, then ALL the adds through ONE
        // `add_rules_from_grl(text)` call (the twin entry point of add_rule); obs := g<count>|gerr : version / snapshot
        Some("B") if t.len() == 4 => {
            let (Some(k), Some(pre), Some(bulk)) = (t[1].parse::<u32>().ok(), parse_ops(t[2]), parse_ops(t[3])) else {
                return "bad-case".into();
            };
            let mut kb = KnowledgeBase::new("kb");
            let mut spare = KnowledgeBase::new("kb");
            for (i, op) in pre.iter().enumerate() {
                apply_seq(&mut kb, &mut spare, op, i);
            }
            let mut text = String::new();
            for (j, op) in bulk.iter().enumerate() {
                let Op::Add(n, sal, true, q) = op else { return "bad-case".into() };
                let Some(attrs) = grl_attrs(*q) else { return "bad-case".into() };
                text.push_str(&format!(
                    "rule \"{}\" \"{}\" salience {}{} {{ when X == 1 then Y = {}; }}\n",
                    rule_name(*n),
                    pre.len() + j,
                    sal,
                    attrs,
                    pre.len() + j
                ));
            }
            let res = match kb.add_rules_from_grl(&text) {
                Ok(c) => format!("g{}", c),
                Err(_) => "gerr".to_string(),
            };
            format!("{}:{}/{}", res, kb.version(), snapshot(&kb, k))
        }
        Some("C") if t.len() >= 3 => {
            let Some(pre) = parse_ops(t[1]) else { return "bad-case".into() };
            let mut ths = Vec::new();
            for s in &t[2..] {
                match parse_ops(s) {
                    Some(o) => ths.push(o),
                    None => return "bad-case".into(),
                }
            }
            exec_conc(&pre, &ths, fnv(case))
        }
        _ => "bad-case".into(),
    }
}

/// events are joined by ';' (results themselves contain ',')
fn exec_conc(pre: &[Op], threads: &[Vec<Op>], seed: u64) -> String {
    let kb = Arc::new(KnowledgeBase::new("kb"));
    for (i, op) in pre.iter().enumerate() {
        apply(&kb, op, i);
    }
    let clock = Arc::new(AtomicU64::new(0));
    let barrier = Arc::new(Barrier::new(threads.len()));
    let mut handles = Vec::new();
    for (t, ops) in threads.iter().enumerate() {
        let (kb, clock, barrier, ops) = (kb.clone(), clock.clone(), barrier.clone(), ops.clone());
        let mut rng = Rng::new(seed ^ ((t as u64 + 1) * 0x9E37));
        handles.push(std::thread::spawn(move || {
            let mut evs = Vec::with_capacity(ops.len());
            barrier.wait();
            for (p, op) in ops.iter().enumerate() {
                match rng.below(4) {
                    0 => std::thread::yield_now(),
                    1 => {
                        for _ in 0..rng.below(200) {
                            std::hint::spin_loop();
                        }
                    }
                    _ => {}
                }
                let inv = clock.fetch_add(1, Ordering::SeqCst);
                let r = apply(&kb, op, 100 * (t + 1) + p);
                let resp = clock.fetch_add(1, Ordering::SeqCst);
                evs.push((t, p, inv, resp, r));
            }
            evs
        }));
    }
    let mut all = Vec::new();
    for h in handles {
        match h.join() {
            Ok(evs) => all.extend(evs),
            Err(_) => return "panic-in-thread".into(),
        }
    }
    all.sort_by_key(|e| e.2);
    if all.is_empty() {
        return "-".into();
    }
    all.iter()
        .map(|(t, p, inv, resp, r)| format!("{}.{}:{}:{}:{}", t, p, inv, resp, show_res(r)))
        .collect::<Vec<_>>()
        .join(";")
}

const SALS: [i32; 3] = [-5, 0, 10];

/// every mutator sequence of length 1..=maxlen over `names` rule names x `sals` saliences in which
/// names appear in order of first use (the API is symmetric in the names; each emitted case then
/// gets a random renaming), as `S` cases — every prefix is its own case, so the final snapshot of
/// each case covers every intermediate state of every sequence
fn exhaustive(rng: &mut Rng, names: u32, sals: &[i32], maxlen: usize, out: &mut Vec<String>) {
    exhaustive_with(rng, names, sals, true, 1, maxlen, &mut |c| out.push(c));
}

/// `full` alphabet = add/remove/enable/disable/clear; otherwise add/remove/clear. Only sequences of
/// length >= minlen are emitted.
fn exhaustive_with(rng: &mut Rng, names: u32, sals: &[i32], full: bool, minlen: usize, maxlen: usize, emit: &mut dyn FnMut(String)) {
    #[allow(clippy::too_many_arguments)]
    fn rec(rng: &mut Rng, names: u32, sals: &[i32], full: bool, minlen: usize, maxlen: usize, cur: &mut Vec<Op>, used: u32, out: &mut dyn FnMut(String)) {
        if cur.len() >= minlen && !cur.is_empty() {
            // random renaming of the canonical names
            let mut perm: Vec<u32> = (0..names).collect();
            rng.shuffle(&mut perm);
            let ren: Vec<Op> = cur
                .iter()
                .map(|o| match o {
                    Op::Add(n, s, e, q) => Op::Add(perm[*n as usize], *s, *e, *q),
                    Op::Remove(n) => Op::Remove(perm[*n as usize]),
                    Op::SetEnabled(n, b) => Op::SetEnabled(perm[*n as usize], *b),
                    o => o.clone(),
                })
                .collect();
            out(format!("S {} {}", names, show_ops(&ren)));
        }
        if cur.len() == maxlen {
            return;
        }
        let lim = if used < names { used + 1 } else { names };
        for n in 0..lim {
            let used2 = if n == used { used + 1 } else { used };
            let mut ops: Vec<Op> = sals.iter().map(|s| Op::Add(n, *s, true, 0)).collect();
            ops.push(Op::Remove(n));
            if full {
                ops.push(Op::SetEnabled(n, true));
                ops.push(Op::SetEnabled(n, false));
            }
            for o in ops {
                cur.push(o);
                rec(rng, names, sals, full, minlen, maxlen, cur, used2, out);
                cur.pop();
            }
        }
        cur.push(Op::Clear);
        rec(rng, names, sals, full, minlen, maxlen, cur, used, out);
        cur.pop();
    }
    let mut cur = Vec::new();
    rec(rng, names, sals, full, minlen, maxlen, &mut cur, 0, emit);
}

fn random_mutator(rng: &mut Rng, names: u32, sals: &[i32]) -> Op {
    let n = rng.below(names as u64) as u32;
    match rng.below(104) {
        0..=39 => Op::Add(n, *rng.pick(sals), true, 0),
        40..=49 => Op::Add(n, *rng.pick(sals), false, 0),
        50..=71 => Op::Remove(n),
        72..=82 => Op::SetEnabled(n, true),
        83..=93 => Op::SetEnabled(n, false),
        94..=99 => Op::Clear,
        // sequential: fork (the original is kept as the spare); in a thread of a concurrent case: observe the clone's listing
        _ => Op::CloneKb,
    }
}

fn random_any(rng: &mut Rng, names: u32, sals: &[i32]) -> Op {
    let n = rng.below(names as u64) as u32;
    match rng.below(100) {
        0..=54 => random_mutator(rng, names, sals),
        55..=69 => Op::GetRule(n),
        70..=75 => Op::GetRules,
        76..=80 => Op::Names,
        81..=84 => Op::Count,
        85..=87 => Op::BySalience,
        88..=91 => Op::ByIndex(rng.below(4) as usize),
        92..=94 => Op::Version,
        95..=96 => Op::Stats,
        97 => Op::Snapshot,
        98 => Op::Export,
        _ => Op::CloneKb,
    }
}

fn large_case(rng: &mut Rng) -> String {
    let classes: &[i32] = match rng.below(4) {
        0 => &[-5, 0, 10],
        1 => &[0, 5, 10, 20],
        2 => &[i32::MIN, 0, 7, i32::MAX],
        _ => &[1, 2, 3],
    };
    let target = rng.range(21, 48) as usize; // stored rules to reach
    let mut ops: Vec<Op> = Vec::new();
    let mut stored: Vec<u32> = Vec::new();
    let mut removed: Vec<u32> = Vec::new();
    let mut next = 0u32;
    let mut extra = rng.range(3, 8); // calls after the target size has been reached (at least one of them an add)
    let mut late_add = false;
    while stored.len() < target || extra > 0 || !late_add {
        let reached = stored.len() >= target;
        if reached && extra > 0 {
            extra -= 1;
        }
        let roll = if reached && extra == 0 && !late_add { 0 } else { rng.below(100) };
        match roll {
            0..=74 => {
                ops.push(Op::Add(next, *rng.pick(classes), !rng.chance(1, 8), 0));
                stored.push(next);
                next += 1;
                late_add = late_add || stored.len() > 21;
            }
            75..=82 if !stored.is_empty() => {
                let n = stored.remove(rng.below(stored.len() as u64) as usize);
                removed.push(n);
                ops.push(Op::Remove(n));
            }
            83..=88 if !stored.is_empty() => ops.push(Op::SetEnabled(*rng.pick(&stored), rng.chance(1, 2))),
            89..=92 if !stored.is_empty() => ops.push(Op::Add(*rng.pick(&stored), *rng.pick(classes), true, 0)), // rejected duplicate
            // the clone re-adds (and re-sorts) more than 20 rules one by one; sometimes go on with the original
            98 if stored.len() > 20 => {
                ops.push(Op::CloneKb);
                if rng.chance(1, 2) {
                    ops.push(Op::Swap);
                }
            }
            93..=97 if !removed.is_empty() => {
                let n = removed.remove(rng.below(removed.len() as u64) as usize);
                ops.push(Op::Add(n, *rng.pick(classes), true, 0)); // re-add under an old name (new tag, new place among equals)
                stored.push(n);
                late_add = late_add || stored.len() > 21;
            }
            _ => {}
        }
        if ops.len() > 200 {
            break;
        }
    }
    format!("{} {} {}", if rng.chance(1, 5) { "T" } else { "S" }, next, show_ops(&ops))
}

fn gen(rng: &mut Rng, n: usize, tier: &str) -> Vec<String> {
    let mut out = Vec::new();
    // (1) exhaustive part (see `exhaustive`): length <= 4 over 4 names x 3 saliences and <= 5 over 2 x 2.
    // The longer horizons (<= 5 quick, <= 6 / <= 8 thorough) are streamed by props/c15.py `extra` via `c15 enum`.
    let _ = tier;
    exhaustive(rng, 4, &SALS, 4, &mut out);
    exhaustive(rng, 2, &SALS[1..], 5, &mut out);
    // (2) random longer histories with a snapshot after every call
    let wide = [i32::MIN, -5, 0, 0, 10, 10, i32::MAX];
    for _ in 0..n {
        let len = rng.range(1, 14) as usize;
        let names = *rng.pick(&[2u32, 3, 4, 4, 6]);
        let sals: &[i32] = if rng.chance(1, 5) { &wide } else { &SALS };
        let ops: Vec<Op> = (0..len).map(|_| random_mutator(rng, names, sals)).collect();
        out.push(format!("T {} {}", names, show_ops(&ops)));
    }
    // (2b) large knowledge bases: 21..48 stored rules (numbered names beyond the 4-name alphabet), 3-4 salience classes
    // in non-monotone insertion order, interleaved with removals, toggles, rejected duplicates and re-adds; the full
    // listing (get_rules, get_rules_by_salience + get_rule_by_index, ...) is observed after the last call (`S`) or after
    // every call (`T`). Insertion order among equals must survive sorts of MORE than 20 elements (std's unstable
    // sorts are insertion sorts — hence stable — up to 20 elements).
    for _ in 0..(n / 25).max(8) {
        out.push(large_case(rng));
    }
    // (2c) bulk loading: the twin entry point `add_rules_from_grl` (one GRL text = several add_rule calls in
    // source order, stopping at the first error): texts of 1..8 rules over a few names, with names repeated inside
    // the text, names already stored, salience ties, after a random pre-history
    for _ in 0..(n / 10).max(40) {
        let names = *rng.pick(&[2u32, 3, 4, 6]);
        let pre: Vec<Op> = (0..rng.below(5)).map(|_| random_mutator(rng, names, &SALS)).collect();
        let bulk: Vec<Op> = (0..rng.range(1, 8))
            .map(|_| Op::Add(rng.below(names as u64 + 2) as u32, *rng.pick(&SALS), true, 0))
            .collect();
        out.push(format!("B {} {} {}", names + 2, show_ops(&pre), show_ops(&bulk)));
    }
    // (2d) clones: every mutator sequence of length <= 3 over 2 names x 2 saliences (full alphabet) with "continue on
    // the clone" inserted at a random position and a second one at the end, snapshot after every call; plus longer
    // random histories with several clones (the state must survive the clone: index, order among equals, flags)
    {
        let mut base = Vec::new();
        exhaustive(rng, 2, &SALS[1..], 3, &mut base);
        for c in base {
            let t: Vec<&str> = c.split_whitespace().collect();
            let mut ops = parse_ops(t[2]).unwrap_or_default();
            let at = rng.below(ops.len() as u64 + 1) as usize;
            ops.insert(at, Op::CloneKb);
            // (a) go on with the clone, look at the original at the end; (b) go on with the original, look at the clone
            let mut a = ops.clone();
            a.push(Op::Swap);
            a.push(Op::CloneKb);
            out.push(format!("T 2 {}", show_ops(&a)));
            ops.insert(at + 1, Op::Swap);
            ops.push(Op::Swap);
            out.push(format!("T 2 {}", show_ops(&ops)));
        }
        for _ in 0..(n / 10).max(40) {
            let names = *rng.pick(&[2u32, 3, 4, 6]);
            let len = rng.range(3, 16) as usize;
            let ops: Vec<Op> = (0..len)
                .map(|_| match rng.below(10) {
                    0 => Op::CloneKb,
                    1 | 2 => Op::Swap,
                    _ => random_mutator(rng, names, &SALS),
                })
                .collect();
            out.push(format!("T {} {}", names, show_ops(&ops)));
        }
    }
    // (3) concurrent histories: 3 threads x 4 calls on a shared knowledge base
    for _ in 0..(n / 8).max(1) {
        let names = *rng.pick(&[2u32, 3, 3, 4]);
        let pre: Vec<Op> = (0..rng.below(4)).map(|_| Op::Add(rng.below(names as u64) as u32, *rng.pick(&SALS), true, 0)).collect();
        let ths: Vec<String> = (0..3)
            .map(|_| show_ops(&(0..4).map(|_| random_any(rng, names, &SALS)).collect::<Vec<_>>()))
            .collect();
        out.push(format!("C {} {}", show_ops(&pre), ths.join(" ")));
    }
    // (3b) readers under contention: EVERY public read method as a concurrent observer. Two threads change the knowledge
    // base (adds over a few names and saliences, removals, toggles, clears: the listing, the index and the version move all
    // the time), the third thread calls four read methods; the read methods are dealt round-robin over the cases, so every
    // three consecutive cases call all eleven of them (get_rule, get_rules, get_rule_names, rule_count,
    // get_rules_by_salience, get_rule_by_index, version, get_statistics, get_rules_snapshot, export_to_grl, clone) and
    // each method is observed against contention in n/44 * 4 histories. A reader that answers "absent" / "empty" for
    // something stored in every linearization (a `try_read` that gives up, a guard dropped early) is a history without
    // linearization.
    let mut deal = 0usize;
    for _ in 0..(n / 16).max(12) {
        let names = *rng.pick(&[2u32, 3, 3]);
        let pre: Vec<Op> = (0..rng.range(1, 3)).map(|_| Op::Add(rng.below(names as u64) as u32, *rng.pick(&SALS), true, 0)).collect();
        let mut ths: Vec<String> = (0..2)
            .map(|_| {
                show_ops(
                    &(0..4)
                        .map(|_| loop {
                            let o = random_mutator(rng, names, &SALS);
                            if o != Op::CloneKb {
                                break o;
                            }
                        })
                        .collect::<Vec<_>>(),
                )
            })
            .collect();
        let readers: Vec<Op> = (0..4)
            .map(|_| {
                deal += 1;
                let n = rng.below(names as u64) as u32;
                match deal % 11 {
                    0 => Op::GetRule(n),
                    1 => Op::GetRules,
                    2 => Op::Names,
                    3 => Op::Count,
                    4 => Op::BySalience,
                    5 => Op::ByIndex(rng.below(3) as usize),
                    6 => Op::Version,
                    7 => Op::Stats,
                    8 => Op::Snapshot,
                    9 => Op::Export,
                    _ => Op::CloneKb,
                }
            })
            .collect();
        ths.insert(rng.below(3) as usize, show_ops(&readers));
        out.push(format!("C {} {}", show_ops(&pre), ths.join(" ")));
    }
    // (4) rule ATTRIBUTES the knowledge base must ignore (appended last: the random stream of the families above is unchanged)
    attr_family(rng, n, &mut out);
    out
}

/// (4) attribute family — every added rule carries a row of the attribute table `decorate` (agenda group None / "" / several
/// names, activation group, no-loop, lock-on-active, dates, description absent, several conditions / actions); names are used
/// in NON-alphabetical order. The listing must stay "descending salience, insertion order among equals" whatever the rules carry.
fn attr_family(rng: &mut Rng, n: usize, out: &mut Vec<String>) {
    // (4a) every ordered pair of attribute rows on two rules of EQUAL salience (names 1 then 0), alone and behind / in front
    // of a rule of another salience
    for q1 in 0..NQ {
        for q2 in 0..NQ {
            if q1 == q2 {
                continue;
            }
            let pair = [Op::Add(1, 0, true, q1), Op::Add(0, 0, true, q2)];
            let ops: Vec<Op> = match (q1 + q2) % 3 {
                0 => pair.to_vec(),
                1 => vec![Op::Add(2, 10, true, q2), pair[0].clone(), pair[1].clone()],
                _ => vec![pair[0].clone(), Op::Add(2, -5, true, q1), pair[1].clone()],
            };
            out.push(format!("S 3 {}", show_ops(&ops)));
        }
    }
    // (4b) random histories: 3..9 adds over shuffled names, two or three saliences, random rows, with removals, re-adds,
    // toggles, clones and swaps in between; snapshot after every call
    for _ in 0..(n / 6).max(60) {
        let names = *rng.pick(&[3u32, 4, 6, 8]);
        let mut order: Vec<u32> = (0..names).collect();
        rng.shuffle(&mut order);
        if order.windows(2).all(|w| w[0] < w[1]) {
            order.reverse();
        }
        let sals: &[i32] = if rng.chance(1, 2) { &SALS[1..] } else { &SALS };
        let few: Vec<u32> = (0..3).map(|_| rng.below(NQ as u64) as u32).collect();
        let mut ops = Vec::new();
        for (i, nm) in order.iter().enumerate() {
            let q = if rng.chance(1, 2) { *rng.pick(&few) } else { rng.below(NQ as u64) as u32 };
            ops.push(Op::Add(*nm, *rng.pick(sals), !rng.chance(1, 6), q));
            if i > 0 {
                match rng.below(12) {
                    0 => ops.push(Op::Remove(order[rng.below(i as u64 + 1) as usize])),
                    1 => ops.push(Op::Add(order[rng.below(i as u64 + 1) as usize], *rng.pick(sals), true, rng.below(NQ as u64) as u32)),
                    2 => ops.push(Op::SetEnabled(order[rng.below(i as u64 + 1) as usize], rng.chance(1, 2))),
                    3 => ops.push(Op::CloneKb),
                    4 => ops.push(Op::Swap),
                    _ => {}
                }
            }
        }
        out.push(format!("T {} {}", names, show_ops(&ops)));
    }
    // (4c) large knowledge bases (more than 20 stored rules: the std sorts leave their insertion-sort range) with rows
    for _ in 0..(n / 50).max(6) {
        let c = large_case(rng);
        let t: Vec<&str> = c.split_whitespace().collect();
        let ops: Vec<Op> = parse_ops(t[2])
            .unwrap_or_default()
            .into_iter()
            .map(|o| match o {
                Op::Add(a, b, c, _) => Op::Add(a, b, c, rng.below(NQ as u64) as u32),
                o => o,
            })
            .collect();
        out.push(format!("{} {} {}", t[0], t[1], show_ops(&ops)));
    }
    // (4d) bulk loading: the rows GRL text can express, as rule-header attributes
    let grl_rows: Vec<u32> = (0..NQ).filter(|q| grl_attrs(*q).is_some()).collect();
    for _ in 0..(n / 20).max(30) {
        let names = *rng.pick(&[3u32, 4, 6]);
        let pre: Vec<Op> = (0..rng.below(4))
            .map(|_| Op::Add(rng.below(names as u64) as u32, *rng.pick(&SALS[1..]), true, rng.below(NQ as u64) as u32))
            .collect();
        let mut order: Vec<u32> = (0..names).collect();
        rng.shuffle(&mut order);
        let bulk: Vec<Op> = order.iter().map(|nm| Op::Add(*nm, *rng.pick(&SALS[1..]), true, *rng.pick(&grl_rows))).collect();
        out.push(format!("B {} {} {}", names, show_ops(&pre), show_ops(&bulk)));
    }
    // (4e) concurrent histories whose adds carry rows
    for _ in 0..(n / 40).max(6) {
        let names = 3u32;
        let pre: Vec<Op> = (0..2).map(|i| Op::Add(2 - i, 0, true, rng.below(NQ as u64) as u32)).collect();
        let ths: Vec<String> = (0..3)
            .map(|_| {
                show_ops(
                    &(0..4)
                        .map(|_| match random_any(rng, names, &SALS[1..]) {
                            Op::Add(a, b, c, _) => Op::Add(a, b, c, rng.below(NQ as u64) as u32),
                            o => o,
                        })
                        .collect::<Vec<_>>(),
                )
            })
            .collect();
        out.push(format!("C {} {}", show_ops(&pre), ths.join(" ")));
    }
}

/// candidates with one attribute row reset to the plain rule
fn shrink_rows(ops: &[Op]) -> Vec<Vec<Op>> {
    let mut out = Vec::new();
    for i in 0..ops.len() {
        if let Op::Add(a, b, c, q) = &ops[i] {
            if *q != 0 {
                let mut v = ops.to_vec();
                v[i] = Op::Add(*a, *b, *c, 0);
                out.push(v);
            }
        }
    }
    out
}

fn shrink(case: &str) -> Vec<String> {
    let t: Vec<&str> = case.split_whitespace().collect();
    let mut out = Vec::new();
    match t.first().copied() {
        Some("S") | Some("T") if t.len() == 3 => {
            if let Some(ops) = parse_ops(t[2]) {
                for v in shrink_list(&ops).into_iter().chain(shrink_rows(&ops)) {
                    out.push(format!("{} {} {}", t[0], t[1], show_ops(&v)));
                }
            }
        }
        Some("B") if t.len() == 4 => {
            if let (Some(pre), Some(bulk)) = (parse_ops(t[2]), parse_ops(t[3])) {
                for v in shrink_list(&pre).into_iter().chain(shrink_rows(&pre)) {
                    out.push(format!("B {} {} {}", t[1], show_ops(&v), t[3]));
                }
                for v in shrink_list(&bulk).into_iter().chain(shrink_rows(&bulk)) {
                    if !v.is_empty() {
                        out.push(format!("B {} {} {}", t[1], t[2], show_ops(&v)));
                    }
                }
            }
        }
        Some("C") if t.len() >= 3 => {
            let parts: Vec<Vec<Op>> = t[1..].iter().filter_map(|s| parse_ops(s)).collect();
            if parts.len() == t.len() - 1 {
                for i in 0..parts.len() {
                    for j in 0..parts[i].len() {
                        let mut p = parts.clone();
                        p[i].remove(j);
                        out.push(format!("C {}", p.iter().map(|o| show_ops(o)).collect::<Vec<_>>().join(" ")));
                    }
                }
            }
        }
        _ => {}
    }
    out
}

fn main() {
    // `c15 enum <names> <nsals> <full|arc> <minlen> <maxlen> <seed>`: streamed exhaustive enumeration (props/c15.py extra())
    let args: Vec<String> = std::env::args().collect();
    if args.get(1).map(|s| s.as_str()) == Some("enum") && args.len() >= 8 {
        use std::io::Write;
        let p = |i: usize| args[i].parse::<u64>().unwrap_or(1);
        let nsals = (p(3) as usize).clamp(1, 3);
        let sals = &SALS[3 - nsals..];
        let mut rng = Rng::new(p(7));
        let out = std::io::stdout();
        let mut out = std::io::BufWriter::with_capacity(1 << 20, out.lock());
        exhaustive_with(&mut rng, p(2) as u32, sals, args[4] == "full", p(5) as usize, p(6) as usize, &mut |c| {
            writeln!(out, "{}", c).unwrap();
        });
        out.flush().unwrap();
        return;
    }
    main_with(Prop { gen, exec, shrink });
}
