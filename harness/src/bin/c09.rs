//! C09 / C10-B — BackwardEngine::query on generated Horn-style knowledge bases.
//! case  := `<cfg> <facts> <query> <rules>`
//!   cfg   := `<D|B|I><max_depth>s<max_solutions>`            e.g. `D3s1`
//!   facts := `-` | `F<i>=<val>,…`     val := `t` | `f` | `n<int>` (Number) | `i<int>` (Integer) | `s<word>` (String;
//!            `<word>` may be empty = the empty string, and `_` in it stands for a blank: `sa_b` = "a b", `s_` = " ")
//!   query := atom | `!`atom            atom := `F<i>.<op>.<val>`   op := eq|ne|gt|lt|ge|le   (`!atom` = the NEGATED query `NOT <atom>`)
//!   rules := `-` | rule;rule;…         rule := [`*`]`<cond>~<action>+<action>…`   (`*` = the rule is added DISABLED: `enabled = false`)
//!   action:= `F<i>:=<val>` Set | `F<i><<<scalar>` Append (`+=`) | `F<i>!` Retract | `F<i>$<int>` MethodCall F<i>.setSpeed(Number)
//!            | `F4$g` MethodCall E.getSpeed() (writes the result to `E._return` = F10)
//!            further val forms (facts / Set literals): `a` = empty array, `a<scalar>^<scalar>…` = array of scalars,
//!            `o<int>` = Object {"Speed": Number}
//!   cond  := prefix notation, tokens separated by `,`:  `&` c c | `/` c c | atom
//!   value classes / operators of the search model (S09): val `z` = `Value::Null` as a PRESENT fact value / Set literal / condition or
//!            query literal (`F0=z` is not the same as no `F0`); in a string `<word>` `%hh` (two lower-case hex digits) is that ASCII
//!            character (`sa%3d%3db` = "a==b"); op in RULE CONDITIONS also `co` Contains | `nc` NotContains | `sw` StartsWith | `ew` EndsWith
//!            | `ma` Matches | `in` In (literal: an array `a…`); queries keep the six comparison operators and literals without
//!            operator characters (they go through the query-language parser, C05's subject)
//! obs   := `<provable 1|0|err> <facts after, sorted by field index> <undo depth after> <#solutions>`
//! Rule i is named `R<i>`; field i is FIELDS[i].
//!
//! Extensions (reach audit): cfg := `<D|B|I|N><max_depth>s<max_solutions>[m][v<k>]`
//!   `N` = the engine is built by `BackwardEngine::new(kb)` (default configuration: the case text must say `N10s1`, memo on);
//!   `m` = `enable_memoization = true` in a HISTORY (single-query cases always run with memoisation on, as before);
//!   `v<k>` = field vocabulary k (VOCS[k]; v0 = FIELDS): field i is VOCS[k][i] — v1 holds names that START WITH / CONTAIN
//!   query keywords (NOTE, NOTIFY.Sent, NOT.Q, ORDER, ANDROID, trueCount, nullable, inStock)
//! CALLER-OWNED UNDO FRAME (C10 part B): a cfg ending in `^r` / `^k` (`D3s1^r`, `I2s3v1^k`; single-query cases only) runs the query
//! INSIDE an undo frame the caller opened on the facts after building them (`begin_undo_frame`), then the caller rolls its frame back
//! (`^r`) or commits it (`^k`): the search's own frames are NESTED frames of the caller's. obs := the four fields of the query
//! (undo depth observed while the caller's frame is still open: 1) + ` <facts after the caller closed its frame> <undo depth then>`.
//! HISTORY on ONE engine: a 5th token `<step>@<step>@…`; the engine is built from cfg + rules, then the steps run in order
//! (the base `<facts> <query>` is asked only where a `?` step says so):
//!   `?` query (base facts, base query; fresh Facts every time) | `?<facts>?<query>` query with its own facts / goal
//!   | `w` the base query through `explain_why` | `+<i>:<rule>` `engine.knowledge_base().add_rule` under the name `R<i>`
//!   (an existing name is rejected by add_rule: no change) | `-<i>` remove_rule("R<i>") | `e<i>` / `d<i>` set_rule_enabled
//!   | `z` knowledge_base().clear() | `x` engine.rebuild_index() | `c<cfg>` engine.set_config (cfg without `N` / `v`)
//! obs of a history := the query observations in order, joined by ` / ` (`-` when there is none); `explain_why` has `-` as
//! #solutions; a configuration read back through `engine.config()` that differs from the one set is reported as `cfg-mismatch`.
use rre_harness::*;
use rust_rule_engine::backward::backward_engine::{BackwardConfig, BackwardEngine};
use rust_rule_engine::backward::search::SearchStrategy;
use rust_rule_engine::engine::facts::Facts;
use rust_rule_engine::engine::knowledge_base::KnowledgeBase;
use rust_rule_engine::engine::rule::{Condition, ConditionGroup, Rule};
use rust_rule_engine::types::{ActionType, LogicalOperator, Operator, Value};

/// field 10 is the key a value-returning MethodCall on `E` (field 4) writes its result to
pub const FIELDS: [&str; 11] = ["A", "B", "C", "D", "E", "G", "X", "Y", "U.P", "U.Q", "E._return"];

/// field vocabularies: VOCS[0] = FIELDS; VOCS[1] = names that start with / contain keywords of the query language
/// (flat alphanumeric names at 0..8, dotted ones at 8, 9; field 10 = `<field 4>._return`)
pub const VOCS: [[&str; 11]; 2] = [
    FIELDS,
    ["NOTICE", "ORDER", "ANDROID", "trueCount", "NOTE", "nullable", "X", "inStock", "NOTIFY.Sent", "NOT.Q", "NOTE._return"],
];

fn parse_scalar(s: &str) -> Option<Value> {
    match s.chars().next()? {
        't' if s == "t" => Some(Value::Boolean(true)),
        'f' if s == "f" => Some(Value::Boolean(false)),
        'n' => Some(Value::Number(s[1..].parse::<i64>().ok()? as f64)),
        'i' => Some(Value::Integer(s[1..].parse().ok()?)),
        's' => Some(Value::String(dec_word(&s[1..])?)),
        _ => None,
    }
}

/// `<word>` of a string literal: `_` = blank, `%hh` = the ASCII character with that (lower-case hex) code, the rest verbatim
fn dec_word(w: &str) -> Option<String> {
    let b = w.as_bytes();
    let mut out = String::new();
    let mut i = 0;
    while i < b.len() {
        match b[i] {
            b'_' => out.push(' '),
            b'%' => {
                let h = std::str::from_utf8(b.get(i + 1..i + 3)?).ok()?;
                out.push(u8::from_str_radix(h, 16).ok().filter(|c| c.is_ascii())? as char);
                i += 2;
            }
            c if c.is_ascii_alphanumeric() => out.push(c as char),
            _ => return None,
        }
        i += 1;
    }
    Some(out)
}

/// the canonical `<word>` of a printable-ASCII string
pub fn enc_word(s: &str) -> String {
    s.chars()
        .map(|c| if c.is_ascii_alphanumeric() { c.to_string() } else if c == ' ' { "_".to_string() } else { format!("%{:02x}", c as u32) })
        .collect()
}

fn parse_val(s: &str) -> Option<Value> {
    match s.chars().next()? {
        'z' if s == "z" => Some(Value::Null),
        'a' if s == "a" => Some(Value::Array(Vec::new())),
        'a' => Some(Value::Array(s[1..].split('^').map(parse_scalar).collect::<Option<Vec<_>>>()?)),
        'o' => {
            let mut m = std::collections::HashMap::new();
            m.insert("Speed".to_string(), Value::Number(s[1..].parse::<i64>().ok()? as f64));
            Some(Value::Object(m))
        }
        _ => parse_scalar(s),
    }
}

fn show_val(v: &Value) -> String {
    match v {
        Value::Boolean(true) => "t".into(),
        Value::Boolean(false) => "f".into(),
        Value::Number(x) if x.fract() == 0.0 && x.abs() < 1e15 => format!("n{}", *x as i64),
        Value::Integer(i) => format!("i{}", i),
        Value::Null => "z".into(),
        Value::String(s) if s.chars().all(|c| c.is_ascii_graphic() || c == ' ') => format!("s{}", enc_word(s)),
        Value::Array(l) if l.iter().all(|e| !matches!(e, Value::Array(_) | Value::Object(_))) => {
            format!("a{}", l.iter().map(show_val).collect::<Vec<_>>().join("^"))
        }
        Value::Object(m) if m.len() == 1 => match m.get("Speed") {
            Some(Value::Number(x)) if x.fract() == 0.0 && x.abs() < 1e15 => format!("o{}", *x as i64),
            _ => "?".into(),
        },
        _ => "?".into(),
    }
}

fn parse_field(s: &str) -> Option<usize> {
    let i: usize = s.strip_prefix('F')?.parse().ok()?;
    if i < FIELDS.len() { Some(i) } else { None }
}

fn parse_op(s: &str) -> Option<Operator> {
    Some(match s {
        "eq" => Operator::Equal,
        "ne" => Operator::NotEqual,
        "gt" => Operator::GreaterThan,
        "lt" => Operator::LessThan,
        "ge" => Operator::GreaterThanOrEqual,
        "le" => Operator::LessThanOrEqual,
        "co" => Operator::Contains,
        "nc" => Operator::NotContains,
        "sw" => Operator::StartsWith,
        "ew" => Operator::EndsWith,
        "ma" => Operator::Matches,
        "in" => Operator::In,
        _ => return None,
    })
}

fn parse_atom(s: &str) -> Option<(usize, Operator, Value)> {
    let p: Vec<&str> = s.split('.').collect();
    if p.len() != 3 {
        return None;
    }
    Some((parse_field(p[0])?, parse_op(p[1])?, parse_val(p[2])?))
}

fn parse_cond(toks: &[&str], pos: &mut usize, nm: &[&str; 11]) -> Option<ConditionGroup> {
    let t = *toks.get(*pos)?;
    *pos += 1;
    if t == "&" || t == "/" {
        let l = parse_cond(toks, pos, nm)?;
        let r = parse_cond(toks, pos, nm)?;
        Some(ConditionGroup::Compound {
            left: Box::new(l),
            operator: if t == "&" { LogicalOperator::And } else { LogicalOperator::Or },
            right: Box::new(r),
        })
    } else {
        let (f, op, v) = parse_atom(t)?;
        Some(ConditionGroup::Single(Condition::new(nm[f].to_string(), op, v)))
    }
}

fn parse_rule(i: usize, s: &str, nm: &[&str; 11]) -> Option<Rule> {
    let (s, enabled) = match s.strip_prefix('*') {
        Some(r) => (r, false),
        None => (s, true),
    };
    let (c, a) = s.split_once('~')?;
    let toks: Vec<&str> = c.split(',').collect();
    let mut pos = 0;
    let cond = parse_cond(&toks, &mut pos, nm)?;
    if pos != toks.len() {
        return None;
    }
    let mut acts = Vec::new();
    for asg in a.split('+') {
        if let Some((f, v)) = asg.split_once(":=") {
            acts.push(ActionType::Set { field: nm[parse_field(f)?].to_string(), value: parse_val(v)? });
        } else if let Some((f, v)) = asg.split_once("<<") {
            acts.push(ActionType::Append { field: nm[parse_field(f)?].to_string(), value: parse_scalar(v)? });
        } else if let Some(f) = asg.strip_suffix("$g") {
            if parse_field(f)? != 4 {
                return None;
            }
            acts.push(ActionType::MethodCall { object: nm[4].to_string(), method: "getSpeed".to_string(), args: vec![] });
        } else if let Some((f, n)) = asg.split_once('$') {
            acts.push(ActionType::MethodCall {
                object: nm[parse_field(f)?].to_string(),
                method: "setSpeed".to_string(),
                args: vec![Value::Number(n.parse::<i64>().ok()? as f64)],
            });
        } else {
            acts.push(ActionType::Retract { object: nm[parse_field(asg.strip_suffix('!')?)?].to_string() });
        }
    }
    let mut r = Rule::new(format!("R{}", i), cond, acts);
    r.enabled = enabled;
    Some(r)
}

fn op_str(op: &Operator) -> &'static str {
    match op {
        Operator::Equal => "==",
        Operator::NotEqual => "!=",
        Operator::GreaterThan => ">",
        Operator::LessThan => "<",
        Operator::GreaterThanOrEqual => ">=",
        Operator::LessThanOrEqual => "<=",
        _ => "==",
    }
}

fn lit_str(v: &Value) -> String {
    match v {
        Value::Boolean(b) => b.to_string(),
        Value::Number(n) => n.to_string(),
        Value::Integer(i) => i.to_string(),
        Value::String(s) => format!("\"{}\"", s),
        _ => "null".into(),
    }
}

pub struct Cfg {
    pub strategy: SearchStrategy,
    pub max_depth: usize,
    pub max_solutions: usize,
    /// `m`: enable_memoization in a history
    pub memo: bool,
    /// `N`: built by `BackwardEngine::new` (default configuration)
    pub via_new: bool,
    pub voc: usize,
}

pub enum Step {
    /// facts, query text, through explain_why
    Query(Vec<(usize, Value)>, String, bool),
    Add(Rule),
    Remove(usize),
    Enable(usize, bool),
    Clear,
    Rebuild,
    SetConfig(Cfg),
}

pub struct Case {
    pub strategy: SearchStrategy,
    pub max_depth: usize,
    pub max_solutions: usize,
    pub facts: Vec<(usize, Value)>,
    pub query: String,
    pub rules: Vec<Rule>,
    pub voc: usize,
    pub via_new: bool,
    pub memo: bool,
    /// `None`: a single query on a fresh engine (4-token case)
    pub steps: Option<Vec<Step>>,
    /// caller-owned undo frame around the query: 0 none, 1 rolled back afterwards (`^r`), 2 committed (`^k`)
    pub wrap: u8,
}

pub fn parse_cfg(t: &str) -> Option<Cfg> {
    let (strategy, via_new) = match t.get(..1)? {
        "D" => (SearchStrategy::DepthFirst, false),
        "B" => (SearchStrategy::BreadthFirst, false),
        "I" => (SearchStrategy::Iterative, false),
        "N" => (SearchStrategy::DepthFirst, true),
        _ => return None,
    };
    let (rest, voc) = match t[1..].split_once('v') {
        Some((r, v)) => (r, v.parse::<usize>().ok().filter(|v| *v < VOCS.len())?),
        None => (&t[1..], 0),
    };
    let (rest, memo) = match rest.strip_suffix('m') {
        Some(r) => (r, true),
        None => (rest, false),
    };
    let (d, s) = rest.split_once('s')?;
    let c = Cfg { strategy, max_depth: d.parse().ok()?, max_solutions: s.parse().ok()?, memo: memo || via_new, via_new, voc };
    if via_new && (c.max_depth != 10 || c.max_solutions != 1) {
        return None; // `new` has one configuration: the text has to say what it is
    }
    Some(c)
}

fn parse_facts(t: &str) -> Option<Vec<(usize, Value)>> {
    let mut facts = Vec::new();
    if t != "-" {
        for kv in t.split(',') {
            let (k, v) = kv.split_once('=')?;
            facts.push((parse_field(k)?, parse_val(v)?));
        }
    }
    Some(facts)
}

fn parse_query(t: &str, nm: &[&str; 11]) -> Option<String> {
    let (neg, qa) = match t.strip_prefix('!') {
        Some(r) => ("NOT ", r),
        None => ("", t),
    };
    let (qf, qop, qv) = parse_atom(qa)?;
    if !matches!(
        qop,
        Operator::Equal | Operator::NotEqual | Operator::GreaterThan | Operator::LessThan | Operator::GreaterThanOrEqual | Operator::LessThanOrEqual
    ) || matches!(qv, Value::Array(_) | Value::Object(_))
    {
        return None;
    }
    Some(format!("{}{} {} {}", neg, nm[qf], op_str(&qop), lit_str(&qv)))
}

fn parse_step(s: &str, facts: &[(usize, Value)], query: &str, nm: &[&str; 11]) -> Option<Step> {
    let num = |x: &str| x.parse::<usize>().ok();
    Some(match s.chars().next()? {
        '?' if s == "?" => Step::Query(facts.to_vec(), query.to_string(), false),
        '?' => {
            let (f, q) = s[1..].split_once('?')?;
            Step::Query(parse_facts(f)?, parse_query(q, nm)?, false)
        }
        'w' if s == "w" => Step::Query(facts.to_vec(), query.to_string(), true),
        '+' => {
            let (i, r) = s[1..].split_once(':')?;
            Step::Add(parse_rule(num(i)?, r, nm)?)
        }
        '-' => Step::Remove(num(&s[1..])?),
        'e' => Step::Enable(num(&s[1..])?, true),
        'd' => Step::Enable(num(&s[1..])?, false),
        'z' if s == "z" => Step::Clear,
        'x' if s == "x" => Step::Rebuild,
        'c' => {
            let c = parse_cfg(&s[1..])?;
            if c.via_new || c.voc != 0 {
                return None;
            }
            Step::SetConfig(c)
        }
        _ => return None,
    })
}

pub fn parse_case(case: &str) -> Option<Case> {
    let t: Vec<&str> = case.split_whitespace().collect();
    if t.len() != 4 && t.len() != 5 {
        return None;
    }
    let (cfg_tok, wrap) = match t[0].split_once('^') {
        Some((c, "r")) => (c, 1u8),
        Some((c, "k")) => (c, 2u8),
        Some(_) => return None,
        None => (t[0], 0u8),
    };
    if wrap != 0 && t.len() == 5 {
        return None;
    }
    let cfg = parse_cfg(cfg_tok)?;
    let nm = &VOCS[cfg.voc];
    let facts = parse_facts(t[1])?;
    let query = parse_query(t[2], nm)?;
    let mut rules = Vec::new();
    if t[3] != "-" {
        for (i, r) in t[3].split(';').enumerate() {
            rules.push(parse_rule(i, r, nm)?);
        }
    }
    let steps = if t.len() == 5 {
        let mut v = Vec::new();
        if t[4] != "-" {
            for s in t[4].split('@') {
                v.push(parse_step(s, &facts, &query, nm)?);
            }
        }
        Some(v)
    } else {
        None
    };
    Some(Case {
        strategy: cfg.strategy,
        max_depth: cfg.max_depth,
        max_solutions: cfg.max_solutions,
        facts,
        query,
        rules,
        voc: cfg.voc,
        via_new: cfg.via_new,
        memo: cfg.memo,
        steps,
        wrap,
    })
}

pub fn show_facts_v(f: &Facts, nm: &[&str; 11]) -> String {
    let all = f.get_all_facts();
    let mut out: Vec<(usize, String)> = Vec::new();
    for (k, v) in &all {
        match nm.iter().position(|x| x == k) {
            Some(i) => out.push((i, format!("F{}={}", i, show_val(v)))),
            None => out.push((999, format!("?{}", hex(k)))),
        }
    }
    out.sort();
    if out.is_empty() { "-".into() } else { out.into_iter().map(|x| x.1).collect::<Vec<_>>().join(",") }
}

pub fn show_facts(f: &Facts) -> String {
    show_facts_v(f, &FIELDS)
}

pub fn build_engine(c: &Case, memo: bool) -> BackwardEngine {
    let kb = KnowledgeBase::new("kb");
    for r in &c.rules {
        kb.add_rule(r.clone()).unwrap();
    }
    if c.via_new {
        return BackwardEngine::new(kb);
    }
    BackwardEngine::with_config(
        kb,
        BackwardConfig { max_depth: c.max_depth, strategy: c.strategy, enable_memoization: memo, max_solutions: c.max_solutions },
    )
}

/// the configuration the engine reports (`engine.config()`) is the one it was given
fn cfg_is(e: &BackwardEngine, strategy: SearchStrategy, d: usize, ms: usize, memo: bool) -> bool {
    let c = e.config();
    c.strategy == strategy && c.max_depth == d && c.max_solutions == ms && c.enable_memoization == memo
}

fn run_query(engine: &mut BackwardEngine, fs: &[(usize, Value)], q: &str, explain: bool, nm: &[&str; 11]) -> String {
    run_query_wrapped(engine, fs, q, explain, nm, 0)
}

/// `wrap` != 0: the caller holds its own undo frame around the query and closes it afterwards (1 rollback, 2 commit)
fn run_query_wrapped(engine: &mut BackwardEngine, fs: &[(usize, Value)], q: &str, explain: bool, nm: &[&str; 11], wrap: u8) -> String {
    let mut facts = Facts::new();
    for (k, v) in fs {
        facts.set(nm[*k], v.clone());
    }
    if wrap == 0 {
        return run_query_on(engine, &mut facts, q, explain, nm);
    }
    facts.begin_undo_frame();
    let inner = run_query_on(engine, &mut facts, q, explain, nm);
    if wrap == 1 {
        facts.rollback_undo_frame();
    } else {
        facts.commit_undo_frame();
    }
    format!("{} {} {}", inner, show_facts_v(&facts, nm), facts.verif_undo_depth())
}

fn run_query_on(engine: &mut BackwardEngine, facts: &mut Facts, q: &str, explain: bool, nm: &[&str; 11]) -> String {
    if explain {
        return match engine.explain_why(q, facts) {
            Ok(s) => {
                let p = if s.starts_with(&format!("Goal '{}' is PROVABLE", q)) {
                    "1"
                } else if s.starts_with(&format!("Goal '{}' is NOT provable", q)) {
                    "0"
                } else {
                    "?"
                };
                format!("{} {} {} -", p, show_facts_v(facts, nm), facts.verif_undo_depth())
            }
            Err(_) => format!("err {} {} -", show_facts_v(facts, nm), facts.verif_undo_depth()),
        };
    }
    match engine.query(q, facts) {
        Ok(r) => format!(
            "{} {} {} {}",
            if r.provable { 1 } else { 0 },
            show_facts_v(facts, nm),
            facts.verif_undo_depth(),
            r.solutions.len()
        ),
        Err(_) => format!("err {} {} 0", show_facts_v(facts, nm), facts.verif_undo_depth()),
    }
}

fn exec(case: &str) -> String {
    let Some(c) = parse_case(case) else { return "bad-case".into() };
    let nm = &VOCS[c.voc];
    let Some(steps) = &c.steps else {
        let mut engine = build_engine(&c, true);
        return run_query_wrapped(&mut engine, &c.facts, &c.query, false, nm, c.wrap);
    };
    let mut engine = build_engine(&c, c.memo);
    let mut ok_cfg = cfg_is(&engine, c.strategy, c.max_depth, c.max_solutions, c.memo);
    let mut obs: Vec<String> = Vec::new();
    for st in steps {
        match st {
            Step::Query(fs, q, explain) => obs.push(run_query(&mut engine, fs, q, *explain, nm)),
            Step::Add(r) => {
                let _ = engine.knowledge_base().add_rule(r.clone());
            }
            Step::Remove(i) => {
                let _ = engine.knowledge_base().remove_rule(&format!("R{}", i));
            }
            Step::Enable(i, b) => {
                let _ = engine.knowledge_base().set_rule_enabled(&format!("R{}", i), *b);
            }
            Step::Clear => engine.knowledge_base().clear(),
            Step::Rebuild => engine.rebuild_index(),
            Step::SetConfig(k) => {
                engine.set_config(BackwardConfig {
                    max_depth: k.max_depth,
                    strategy: k.strategy,
                    enable_memoization: k.memo,
                    max_solutions: k.max_solutions,
                });
                ok_cfg &= cfg_is(&engine, k.strategy, k.max_depth, k.max_solutions, k.memo);
            }
        }
    }
    if !ok_cfg {
        obs.push("cfg-mismatch".into());
    }
    if obs.is_empty() { "-".into() } else { obs.join(" / ") }
}

// ---------------------------------------------------------------- generator

const NF: u64 = 10;

fn rand_val(rng: &mut Rng, horn: bool) -> String {
    if horn {
        // round-trippable literal types only (bool / number / string)
        match rng.below(16) {
            0..=9 => "t".into(),
            10..=11 => "f".into(),
            12..=13 => format!("n{}", rng.below(3)),
            14 => format!("i{}", rng.below(3)), // Integer literal: does not survive the goal-pattern round trip
            _ => "sab".into(),
        }
    } else {
        match rng.below(12) {
            0..=4 => "t".into(),
            5..=6 => "f".into(),
            7..=8 => format!("n{}", rng.below(3)),
            9 => format!("i{}", rng.below(3)),
            _ => (*rng.pick(&["sab", "scd"])).into(),
        }
    }
}

fn rand_atom(rng: &mut Rng, nf: u64, horn: bool) -> String {
    let op = if horn || rng.chance(3, 4) { "eq" } else { *rng.pick(&["ne", "gt", "lt", "ge", "le"]) };
    format!("F{}.{}.{}", rng.below(nf), op, rand_val(rng, horn))
}

fn rand_cond(rng: &mut Rng, nf: u64, horn: bool, depth: u32) -> String {
    if depth >= 2 || rng.chance(1, 2) {
        return rand_atom(rng, nf, horn);
    }
    let c = if horn || rng.chance(2, 3) { "&" } else { "/" };
    format!("{},{},{}", c, rand_cond(rng, nf, horn, depth + 1), rand_cond(rng, nf, horn, depth + 1))
}

/// string literals of the string family: the EMPTY string (`s`), one-character strings, strings with blanks (`_`),
/// none of which reads as a number (`Value::to_number` parses strings)
const STR_LITS: [&str; 10] = ["s", "s", "s", "sa", "sx", "s_", "sa_b", "s_a", "sb_", "sab"];

/// consistent-Horn KB: one value per field (`vals`), conditions are And-trees of equality atoms;
/// `strs`: half of the fields hold a string of STR_LITS (dead-end literal: another string, often the empty one)
fn gen_horn(rng: &mut Rng, strs: bool) -> String {
    gen_horn_with(rng, strs, false)
}

/// `names`: the strings are NAMES of (flat) fields of the same KB instead (`sA` = "A" while a fact `A` exists or is derived)
fn gen_horn_with(rng: &mut Rng, strs: bool, names: bool) -> String {
    let nf = rng.range(3, NF);
    let vals: Vec<String> = (0..nf)
        .map(|_| {
            if strs && rng.chance(1, 2) {
                if names { format!("s{}", FIELDS[rng.below(nf.min(NFLAT)) as usize]) } else { rng.pick(&STR_LITS).to_string() }
            } else {
                rand_val(rng, true)
            }
        })
        .collect();
    let atom = |f: u64, rng: &mut Rng, vals: &Vec<String>| {
        // mostly the consistent value; sometimes a value that can never hold (dead end)
        if rng.chance(1, 10) {
            let v = &vals[f as usize];
            let other = if strs && v.starts_with('s') {
                if v == "s" { "sa" } else { "s" }
            } else if v == "t" {
                "f"
            } else {
                "t"
            };
            format!("F{}.eq.{}", f, other)
        } else {
            format!("F{}.eq.{}", f, vals[f as usize])
        }
    };
    let nrules = rng.range(1, 8);
    let mut rules = Vec::new();
    for _ in 0..nrules {
        let natoms = rng.range(1, 3);
        let mut c = atom(rng.below(nf), rng, &vals);
        for _ in 1..natoms {
            let a = atom(rng.below(nf), rng, &vals);
            c = if rng.chance(1, 2) { format!("&,{},{}", c, a) } else { format!("&,{},{}", a, c) };
        }
        let h = rng.below(nf);
        let mut acts = format!("F{}:={}", h, vals[h as usize]);
        if rng.chance(1, 5) {
            let h2 = rng.below(nf);
            acts.push_str(&format!("+F{}:={}", h2, vals[h2 as usize]));
        }
        rules.push(format!("{}~{}", c, acts));
    }
    let mut facts = Vec::new();
    for f in 0..nf {
        if rng.chance(1, 3) {
            facts.push(format!("F{}={}", f, vals[f as usize]));
        }
    }
    let qf = rng.below(nf);
    let q = atom(qf, rng, &vals);
    format!("{} {} {}", if facts.is_empty() { "-".to_string() } else { facts.join(",") }, q, rules.join(";"))
}

/// general KB: And/Or conditions, all operators, wrong-value conclusions, cycles, Integer literals
fn gen_general(rng: &mut Rng) -> String {
    let nf = rng.range(2, 7);
    let nrules = rng.range(0, 8);
    let mut rules = Vec::new();
    for _ in 0..nrules {
        let c = rand_cond(rng, nf, false, 0);
        let mut acts = format!("F{}:={}", rng.below(nf), rand_val(rng, false));
        if rng.chance(1, 4) {
            acts.push_str(&format!("+F{}:={}", rng.below(nf), rand_val(rng, false)));
        }
        rules.push(format!("{}~{}", c, acts));
    }
    let mut facts = Vec::new();
    for f in 0..nf {
        if rng.chance(1, 3) {
            facts.push(format!("F{}={}", f, rand_val(rng, false)));
        }
    }
    // query literals are what the query parser can produce: bool / number / string
    let qv = match rng.below(6) {
        0..=2 => "t".to_string(),
        3 => "f".to_string(),
        4 => format!("n{}", rng.below(3)),
        _ => "sab".to_string(),
    };
    let qop = if rng.chance(4, 5) { "eq" } else { *rng.pick(&["ne", "gt", "lt", "ge", "le"]) };
    format!(
        "{} F{}.{}.{} {}",
        if facts.is_empty() { "-".to_string() } else { facts.join(",") },
        rng.below(nf),
        qop,
        qv,
        if rules.is_empty() { "-".to_string() } else { rules.join(";") }
    )
}

/// chain / diamond shapes: G needs A and B, both need X … with a wrong-value rule and a cycle mixed in
fn gen_shape(rng: &mut Rng) -> String {
    let len = rng.range(1, 6);
    // F5 (=G) <- F(len-1) <- … <- F0 <- F6 (=X, a fact)
    let mut rules = Vec::new();
    rules.push("F6.eq.n1~F0:=t".to_string());
    for i in 1..len.min(5) {
        rules.push(format!("F{}.eq.t~F{}:=t", i - 1, i));
    }
    let last = len.min(5) - 1;
    let v = if rng.chance(1, 3) { "f" } else { "t" }; // wrong-value conclusion for the goal
    if rng.chance(1, 2) {
        rules.push(format!("&,F{}.eq.t,F0.eq.t~F5:={}", last, v));
    } else {
        rules.push(format!("F{}.eq.t~F5:={}", last, v));
    }
    if rng.chance(1, 3) {
        rules.push("F5.eq.t~F0:=t".to_string()); // cycle
    }
    if rng.chance(1, 3) {
        rules.push(format!("F7.eq.t~F{}:=t", rng.below(5))); // dead end (F7 never derivable)
    }
    if rng.chance(1, 4) {
        rules.push(format!("F6.eq.n1~F{}:=f", rng.below(5))); // wrong-value rule on an intermediate
    }
    rng.shuffle(&mut rules);
    let facts = if rng.chance(5, 6) { "F6=n1" } else { "-" };
    format!("{} F5.eq.t {}", facts, rules.join(";"))
}

/// string-literal family (goal / sub-goal / fact literals that are the empty string, one character, or contain blanks).
/// A literal travels through text twice: the query string, and `condition_to_goal_pattern` -> `parse_goal_pattern` ->
/// `parse_value_string` when a rule condition becomes a sub-goal (one copy of that parser per strategy: DFS/iterative
/// and BFS). All KBs here give every field at most one value besides the initial one.
fn gen_strlit(rng: &mut Rng) -> String {
    let s = *rng.pick(&STR_LITS);
    let o = loop {
        let o = *rng.pick(&STR_LITS);
        if o != s {
            break o;
        }
    };
    let eqne = |rng: &mut Rng| if rng.chance(2, 3) { "eq" } else { "ne" };
    match rng.below(6) {
        // the goal compares a field that is (or is not) that string in the facts; no rule can change it
        0 => {
            let held = if rng.chance(2, 3) { s } else { o };
            let rules = if rng.chance(1, 2) { "-" } else { "F6.eq.n1~F1:=t" };
            format!("F6=n1,F0={} F0.{}.{} {}", held, eqne(rng), s, rules)
        }
        // the goal's string has to be derived by one rule (or the rule derives another string)
        1 => {
            let made = if rng.chance(3, 4) { s } else { o };
            let init = if rng.chance(1, 3) { format!(",F0={}", made) } else { String::new() };
            format!("F6=n1{} F0.{}.{} F6.eq.n1~F0:={}", init, eqne(rng), s, made)
        }
        // a rule condition on the string is not satisfied by the facts and must be established by another rule
        2 => {
            let made = if rng.chance(4, 5) { s } else { o };
            let mut rules = vec![format!("F6.eq.n1~F0:={}", made), format!("F0.eq.{}~F5:=t", s)];
            if rng.chance(1, 3) {
                rules.push("F7.eq.t~F5:=t".to_string()); // dead end
            }
            rng.shuffle(&mut rules);
            format!("F6=n1 F5.eq.t {}", rules.join(";"))
        }
        // the same one level deeper, string conditions on two fields (conjunction, either order)
        3 => {
            let s2 = *rng.pick(&STR_LITS);
            let mut rules = vec![
                "F6.eq.n1~F2:=t".to_string(),
                format!("F2.eq.t~F0:={}", s),
                format!("F6.eq.n1~F1:={}", s2),
                if rng.chance(1, 2) { format!("&,F0.eq.{},F1.eq.{}~F5:=t", s, s2) } else { format!("&,F1.eq.{},F0.eq.{}~F5:=t", s2, s) },
            ];
            rng.shuffle(&mut rules);
            format!("F6=n1 F5.eq.t {}", rules.join(";"))
        }
        // `!=` on the string as a rule condition: the field holds exactly that string and nothing changes it
        // (goal must not be provable), or holds another string (provable at once)
        4 => {
            let held = if rng.chance(2, 3) { s } else { o };
            format!("F6=n1,F0={} F5.eq.t F0.ne.{}~F5:=t", held, s)
        }
        // consistent-Horn KB, string-heavy
        _ => gen_horn(rng, true),
    }
}

/// fields 0..NFLAT have flat (un-dotted, alphanumeric) names: `s<FIELDS[k]>` is a string literal that coincides with a fact name
const NFLAT: u64 = 8;

/// name-literal family: the string a rule ASSIGNS (and goals / rule conditions compare with) is the NAME of a field `k`
/// of the same store — `A := "X"` while a fact called `X` exists. A literal is a literal: the rule has to write the
/// string, never the value of the fact that happens to be called so. The fact `k` is an initial fact (the seed fact
/// itself, an unrelated one, the goal's or the assigned field itself), is derived earlier on the proof path (another
/// rule / an earlier action of the same rule), or is absent (control); it holds a number, boolean, string (also a
/// string that is again a field name), Integer, array or object. The goal depends on the assigned string directly
/// (== / !=), through one or two rule conditions, or not at all (then the facts handed back carry it).
/// Returns the body and the max_depth at which DFS explores everything.
fn gen_namelit(rng: &mut Rng) -> (String, u64) {
    let t = rng.below(4); // receives the string
    let k = match rng.below(8) {
        0 => 6,          // the seed fact X
        1 => t,          // the assigned field's own name
        2 => 5,          // the name of the goal field of shapes 1.. (G)
        _ => loop {
            let k = rng.below(NFLAT);
            if k != t && k != 5 && k != 6 {
                break k;
            }
        },
    };
    let name = format!("s{}", FIELDS[k as usize]);
    let other_name = format!("s{}", FIELDS[((k + 1 + rng.below(NFLAT - 1)) % NFLAT) as usize]);
    let kv: String = if k == 6 {
        "n1".to_string()
    } else {
        match rng.below(10) {
            0..=2 => format!("n{}", rng.range(0, 9)),
            3 => "t".to_string(),
            4 => "f".to_string(),
            5 => (*rng.pick(&["sab", "s", "sgold"])).to_string(),
            6 => other_name.clone(),  // a string that is again a field name
            7 => name.clone(),        // the fact holds its own name
            8 => format!("i{}", rng.below(3)),
            _ => (*rng.pick(&["a", "an1", "o1"])).to_string(),
        }
    };
    let mut facts = vec!["F6=n1".to_string()];
    let mut rules: Vec<String> = Vec::new();
    // how the fact called `name` comes to exist
    let how = if k == 6 { 0 } else if k == t || k == 5 { rng.below(2) * 3 } else { rng.below(4) };
    let mut set_t = format!("F{}:={}", t, name);
    let mut need = 1;
    match how {
        0 => {
            if k != 6 {
                facts.push(format!("F{}={}", k, kv));
            }
        }
        1 => set_t = format!("F{}:={}+{}", k, kv, set_t), // an earlier action of the same rule
        2 => {
            // another rule on the proof path: the assigning rule needs it
            rules.push(format!("F6.eq.n1~F{}:={}", k, kv));
            need += 1;
        }
        _ => {} // absent: control
    }
    let cond_t = if how == 2 && !kv.starts_with('a') && !kv.starts_with('o') && !kv.starts_with('i') {
        format!("&,F{}.eq.{},F6.eq.n1", k, kv)
    } else {
        if how == 2 {
            rules.pop();
            rules.push(format!("F6.eq.n1~F{}:={}+F4:=t", k, kv));
            "F4.eq.t".to_string()
        } else {
            "F6.eq.n1".to_string()
        }
    };
    let shape = rng.below(8);
    let q = match shape {
        // the goal compares the assigned field with the name
        0 | 1 => {
            rules.push(format!("{}~{}", cond_t, set_t));
            format!("F{}.{}.{}", t, if rng.chance(4, 5) { "eq" } else { "ne" }, name)
        }
        // a rule condition on the name has to be established by the assigning rule (the demo's shape)
        2 | 3 | 4 => {
            rules.push(format!("{}~{}", cond_t, set_t));
            let c = match rng.below(4) {
                0 => format!("&,F{}.eq.{},F6.eq.n1", t, name),
                1 => format!("&,F6.eq.n1,F{}.eq.{}", t, name),
                _ => format!("F{}.eq.{}", t, name),
            };
            let g = if k == 5 && how == 0 { 7 } else { 5 };
            rules.push(format!("{}~F{}:=t", c, g));
            need += 1;
            if rng.chance(1, 3) {
                rules.push(format!("F{}.eq.{}~F{}:=t", t, other_name, g)); // rival condition on another name: dead end
            }
            format!("F{}.eq.t", g)
        }
        // two levels: a second field receives the name of the first one
        5 => {
            let u = (t + 1) % 4;
            let tname = format!("s{}", FIELDS[t as usize]);
            rules.push(format!("{}~{}", cond_t, set_t));
            rules.push(format!("F{}.eq.{}~F{}:={}", t, name, u, tname));
            rules.push(format!("F{}.eq.{}~F7:=t", u, tname));
            need += 2;
            "F7.eq.t".to_string()
        }
        // the goal does not depend on the assigned string: it is handed back with the facts
        _ => {
            let g = if k == 7 { 5 } else { 7 };
            if rng.chance(1, 2) {
                rules.push(format!("{}~{}+F{}:=t", cond_t, set_t, g));
            } else {
                rules.push(format!("{}~F{}:=t+{}", cond_t, g, set_t));
            }
            format!("F{}.eq.t", g)
        }
    };
    if rng.chance(1, 4) {
        rules.push("F6.eq.n2~F5:=t".to_string()); // dead end
    }
    if rng.chance(1, 2) {
        rng.shuffle(&mut rules);
    }
    (format!("{} {} {}", facts.join(","), q, rules.join(";")), need)
}


// ------------------------------------------------ C10 part B families (also run by C09: the model predicts them)

/// "a first alternative fails at depth >= 1 after it — or its sub-goals — wrote to the facts, a LATER alternative
/// succeeds, and the enclosing rule then fails on an underivable last conjunct": the query is not provable and every
/// derived fact has to be gone again; any arm of the candidate loop that closes one frame too many / too few at depth
/// >= 1 leaves the later alternative's conclusion behind (or leaks a frame). The first alternative ("main", concluding
/// F2) fails in every way the DFS distinguishes:
///   0/1 interference — both conditions are provable, but the rule proving the second one undoes the first
///       (second assignment / Retract / Append over it), so the retry reports Ok(false);
///   2   conditions proven, an action fails on the retry (Err), before or after another action wrote;
///   3   conditions true at once, an action fails on the first attempt (Err);
///   4   the rule fires with the wrong value (Ok(true), goal not proven), directly or after a sub-goal;
///   5   its second condition is underivable (the first sub-goal's derivation has to be undone);
///   6   a chain below it that `max_depth` cuts at different levels.
/// The later alternative is an Or-branch of the enclosing condition ((main || spare) && permit), a second candidate
/// rule for the same sub-goal, or (main && permit) || (spare && permit). 0..2 wrapper rules put the enclosing rule
/// at depth 0..2. Returns the body and the max_depth at which everything is explored.
fn gen_interfere(rng: &mut Rng) -> (String, u64) {
    let mut rules: Vec<String> = Vec::new();
    // the arms reached only through a failing RETRY (0/1/2) are the rare ones elsewhere: 5 of 9 here
    let way = [0, 0, 1, 2, 2, 3, 4, 5, 6][rng.below(9) as usize];
    let swap = rng.chance(1, 6);
    let both = |a: &str, b: &str| if swap { format!("&,{},{}", b, a) } else { format!("&,{},{}", a, b) };
    let mut need = 2;
    match way {
        0 | 1 => {
            let undo = *rng.pick(&["F0:=f", "F0!", "F0<<sx", "F0:=n0", "F0:=f+F8<<sx", "F8<<sx+F0!"]);
            rules.push("F6.eq.n1~F0:=t".to_string());
            rules.push(format!("F6.eq.n1~F1:=t+{}", undo));
            rules.push(format!("{}~F2:=t", both("F0.eq.t", "F1.eq.t")));
        }
        2 => {
            rules.push("F6.eq.n1~F0:=t".to_string());
            rules.push("F6.eq.n1~F1:=t".to_string());
            let acts = *rng.pick(&["F4$1+F2:=t", "F8<<sx+F4$1+F2:=t", "F2:=t+F4$1", "F2:=t+F8<<sa+F4$2"]);
            rules.push(format!("{}~{}", both("F0.eq.t", "F1.eq.t"), acts));
        }
        3 => {
            let acts = *rng.pick(&["F4$1+F2:=t", "F8<<sx+F4$1+F2:=t", "F2:=t+F4$1", "F0:=t+F8<<sa+F4$2+F2:=t"]);
            rules.push(format!("F6.eq.n1~{}", acts));
        }
        4 => {
            if rng.chance(1, 2) {
                rules.push("F6.eq.n1~F0:=t".to_string());
                rules.push(format!("F0.eq.t~F2:={}", *rng.pick(&["f", "f+F8<<sx", "n1", "a"])));
            } else {
                rules.push(format!("F6.eq.n1~F2:={}", *rng.pick(&["f", "f+F8<<sx", "st", "o1"])));
            }
        }
        5 => {
            rules.push(format!("F6.eq.n1~F0:=t{}", *rng.pick(&["", "+F8<<sx", "+F8!"])));
            rules.push(format!("{}~F2:=t", both("F0.eq.t", "F6.eq.n2")));
        }
        _ => {
            rules.push("F6.eq.n1~F4:=t".to_string());
            rules.push("F4.eq.t~F1:=t".to_string());
            rules.push(format!("F1.eq.t~F0:=t{}", *rng.pick(&["", "+F8<<sx"])));
            rules.push("F0.eq.t~F2:=t".to_string());
            need = 4;
        }
    }
    let spare_extra = *rng.pick(&["", "", "+F8<<sa", "+F8!", "+F8<<n1"]);
    let permit = "F7.eq.t";
    let form = rng.below(4);
    let cond = match form {
        0 | 1 => {
            rules.push(format!("F6.eq.n1~F3:=t{}", spare_extra));
            format!("&,/,F2.eq.t,F3.eq.t,{}", permit)
        }
        2 => {
            // second candidate rule for the sub-goal F2 (tried after "main": insertion order)
            rules.push(format!("F6.eq.n1~F2:=t{}", spare_extra));
            format!("&,F2.eq.t,{}", permit)
        }
        _ => {
            rules.push(format!("F6.eq.n1~F3:=t{}", spare_extra));
            format!("/,&,F2.eq.t,{},&,F3.eq.t,{}", permit, permit)
        }
    };
    rules.push(format!("{}~F5:=t", cond));
    // the permit: absent, false, behind a dead end — or (1 in 6) derivable: then the query is provable
    let mut facts = vec!["F6=n1".to_string()];
    match rng.below(6) {
        0 | 1 => {}
        2 => facts.push("F7=f".to_string()),
        3 => rules.push("F6.eq.n2~F7:=t".to_string()),
        4 => rules.push("F6.eq.n1~F7:=f".to_string()),
        _ => rules.push("F6.eq.n1~F7:=t".to_string()),
    }
    if rng.chance(1, 4) {
        facts.push(format!("F8={}", *rng.pick(&["a", "asx", "t", "o1"])));
    }
    // wrappers: the enclosing rule at depth 0, 1 or 2
    let k = if way == 2 || way == 3 || way >= 6 { rng.below(2) } else { rng.below(3) };
    let mut goal = 5;
    if k >= 1 {
        rules.push("F5.eq.t~F9:=t".to_string());
        goal = 9;
    }
    if k >= 2 {
        rules.push("F9.eq.t~F4:=t".to_string());
        goal = 4;
    }
    if rng.chance(1, 3) {
        rng.shuffle(&mut rules);
    }
    (format!("{} F{}.eq.t {}", facts.join(","), goal, rules.join(";")), k + need)
}

const SCALARS: [&str; 8] = ["t", "f", "n1", "n2", "i1", "sx", "sab", "s"];

/// one action that is not a Set, on one of the `targets`
fn rand_extra(rng: &mut Rng, targets: &[u64]) -> String {
    let f = *rng.pick(targets);
    match rng.below(8) {
        0..=3 => format!("F{}<<{}", f, *rng.pick(&SCALARS)),
        4..=5 => format!("F{}!", f),
        _ if f == 4 && rng.chance(1, 2) => "F4$g".to_string(),
        _ => format!("F{}${}", f, rng.below(3)),
    }
}

/// initial value of a field that Append / Retract / MethodCall actions work on: array, scalar or object
fn rand_target_val(rng: &mut Rng) -> String {
    match rng.below(6) {
        0 => "a".to_string(),
        1 => format!("a{}", *rng.pick(&SCALARS)),
        2 => format!("a{}^{}", *rng.pick(&SCALARS), *rng.pick(&SCALARS)),
        3 => (*rng.pick(&SCALARS)).to_string(),
        _ => format!("o{}", rng.below(3)),
    }
}

/// the action list `Set <set>` with 0..2 other actions before / after it
fn with_extras(rng: &mut Rng, set: &str, targets: &[u64], p_num: u64) -> String {
    let mut acts = vec![set.to_string()];
    for _ in 0..2 {
        if rng.chance(p_num, 4) {
            let e = rand_extra(rng, targets);
            if rng.chance(1, 2) { acts.push(e) } else { acts.insert(0, e) }
        }
    }
    acts.join("+")
}

/// rules that fire on the way of a (mostly failing) proof carry Append (on an absent field / an existing array / a
/// value that is not an array), Retract (of an absent / present field, of the seed fact, of a fact derived earlier)
/// and MethodCall (absent object and non-object: Err after the earlier actions of the rule wrote; object: success)
/// actions besides their Set. Chain F6 -> F0 -> … -> F{len-1}, goal rule `F{len-1} && F7 -> F5` (F7 underivable in
/// 2 of 3), rival goal rules that fire at depth 0 with the wrong value (what BFS / iterative reach).
fn gen_actions(rng: &mut Rng) -> String {
    let len = rng.range(1, 3);
    let mut targets: Vec<u64> = vec![4, 8, 9];
    if rng.chance(1, 4) {
        targets.push(6); // the seed fact itself
    }
    if rng.chance(1, 4) {
        targets.push(rng.below(len)); // a fact derived on the way
    }
    let mut rules = Vec::new();
    rules.push(format!("F6.eq.n1~{}", with_extras(rng, "F0:=t", &targets, 2)));
    for i in 1..len {
        rules.push(format!("F{}.eq.t~{}", i - 1, with_extras(rng, &format!("F{}:=t", i), &targets, 2)));
    }
    let last = len - 1;
    let v = if rng.chance(1, 4) { "f" } else { "t" };
    match rng.below(3) {
        0 => rules.push(format!("&,F{}.eq.t,F7.eq.t~{}", last, with_extras(rng, &format!("F5:={}", v), &targets, 1))),
        1 => rules.push(format!("&,F7.eq.t,F{}.eq.t~{}", last, with_extras(rng, &format!("F5:={}", v), &targets, 1))),
        _ => rules.push(format!("F{}.eq.t~{}", last, with_extras(rng, &format!("F5:={}", v), &targets, 1))),
    }
    if rng.chance(1, 2) {
        // fires at depth 0 on the initial facts, with the wrong value for the goal
        rules.push(format!("F6.eq.n1~{}", with_extras(rng, "F5:=f", &targets, 3)));
    }
    if rng.chance(1, 4) {
        // a rule with no Set at all (Retract is indexed by the conclusion index, Append is not)
        rules.push(format!("F6.eq.n1~{}", rand_extra(rng, &[5, 4, 8])));
    }
    rng.shuffle(&mut rules);
    let mut facts = Vec::new();
    if rng.chance(7, 8) {
        facts.push("F6=n1".to_string());
    }
    if rng.chance(1, 3) {
        facts.push("F7=t".to_string());
    }
    for f in [4u64, 8, 9] {
        if f == 4 && rng.chance(1, 3) {
            facts.push(format!("F4=o{}", rng.below(3))); // the receiver of setSpeed / getSpeed exists
        } else if rng.chance(1, 2) {
            facts.push(format!("F{}={}", f, rand_target_val(rng)));
        }
    }
    let q = match rng.below(9) {
        0 => "F5.ne.t".to_string(),
        1 => format!("F{}.ne.t", *rng.pick(&[4u64, 8, 9])), // a field the non-Set actions work on
        2 => format!("F10.eq.n{}", rng.below(3)),           // what E.getSpeed() returns (key `E._return`)
        _ => "F5.eq.t".to_string(),
    };
    format!("{} {} {}", if facts.is_empty() { "-".to_string() } else { facts.join(",") }, q, rules.join(";"))
}

/// general KBs (And/Or, all operators) whose action lists mix Set / Append / Retract / MethodCall at random, over
/// facts that hold arrays and objects as well
fn gen_general_actions(rng: &mut Rng) -> String {
    let nf = rng.range(2, 6);
    let nrules = rng.range(1, 7);
    let all: Vec<u64> = (0..nf).collect();
    let mut rules = Vec::new();
    for _ in 0..nrules {
        let c = rand_cond(rng, nf, false, 0);
        let mut acts = Vec::new();
        for _ in 0..rng.range(1, 3) {
            if rng.chance(1, 2) {
                acts.push(format!("F{}:={}", rng.below(nf), rand_val(rng, false)));
            } else {
                acts.push(rand_extra(rng, &all));
            }
        }
        rules.push(format!("{}~{}", c, acts.join("+")));
    }
    let mut facts = Vec::new();
    for f in 0..nf {
        if rng.chance(1, 2) {
            facts.push(format!("F{}={}", f, if rng.chance(1, 3) { rand_target_val(rng) } else { rand_val(rng, false) }));
        }
    }
    let qv = match rng.below(6) {
        0..=2 => "t".to_string(),
        3 => "f".to_string(),
        4 => format!("n{}", rng.below(3)),
        _ => "sab".to_string(),
    };
    let qop = if rng.chance(3, 4) { "eq" } else { *rng.pick(&["ne", "gt", "lt", "ge", "le"]) };
    format!(
        "{} F{}.{}.{} {}",
        if facts.is_empty() { "-".to_string() } else { facts.join(",") },
        rng.below(nf),
        qop,
        qv,
        rules.join(";")
    )
}

// ------------------------------------------------ negated queries (C10 part B: found-then-discarded proofs)

/// "not provable" reached THROUGH a found proof: the query is `NOT g`, `g` is false in the initial facts but derivable —
/// at once (first-attempt arm of the candidate loop) or only through a chain of 1..3 sub-goal levels (retry arm) —
/// through one or several candidate rules (a chained one, a direct one, a second chain, in any order: this is what
/// max_solutions 1, 2, 3, 5 tell apart — the shared solution list also counts the sub-goals' proofs), conjunctions
/// whose other conjunct is a second derived fact, rules carrying Append / Retract / a second Set beside their Set,
/// wrong-value and dead-end rivals. Whatever the search derived on the way must be gone when the verdict is "not
/// provable". Controls: `g` already true (not provable at once), the seed fact absent (nothing derivable: `NOT g`
/// is provable), `!=` / wrong-value query literals, and the positive query on the same knowledge base.
/// Returns (facts, query atom without `!`, rules, max_depth that explores everything).
fn gen_negated(rng: &mut Rng) -> (String, String, String, u64) {
    let levels = if rng.chance(1, 7) { 0 } else { rng.range(1, 3) };
    let extra = |rng: &mut Rng| -> &'static str {
        *rng.pick(&["", "", "", "+F8<<sx", "+F9:=n1", "+F8!", "+F8<<sa+F9:=t"])
    };
    let mut rules: Vec<String> = Vec::new();
    // chain F6 -> F0 -> … -> F{levels-1}; the goal rule hangs on its last link (on the seed when levels = 0)
    let mut prev = "F6.eq.n1".to_string();
    for i in 0..levels {
        rules.push(format!("{}~F{}:=t{}", prev, i, extra(rng)));
        prev = format!("F{}.eq.t", i);
    }
    let mut need = levels;
    let goal_cond = match rng.below(5) {
        0 if levels > 0 => {
            // second conjunct: another derived fact (a second sub-goal, proven before / after the chain)
            rules.push(format!("F6.eq.n1~F3:=t{}", extra(rng)));
            need = need.max(1);
            if rng.chance(1, 2) { format!("&,{},F3.eq.t", prev) } else { format!("&,F3.eq.t,{}", prev) }
        }
        1 if levels > 0 => format!("&,{},F6.eq.n1", prev),
        _ => prev.clone(),
    };
    rules.push(format!("{}~F5:=t{}", goal_cond, extra(rng)));
    // further candidates for the goal
    for _ in 0..*rng.pick(&[0u64, 0, 1, 1, 2]) {
        match rng.below(6) {
            0 | 1 => rules.push(format!("F6.eq.n1~F5:=t{}", extra(rng))), // direct: first-attempt arm
            2 => {
                // a second chain, through F4
                rules.push(format!("F6.eq.n1~F4:=t{}", extra(rng)));
                rules.push("F4.eq.t~F5:=t".to_string());
                need = need.max(1);
            }
            3 => rules.push(format!("{}~F5:=f", if rng.chance(1, 2) { "F6.eq.n1".to_string() } else { prev.clone() })),
            4 => rules.push("F7.eq.t~F5:=t".to_string()), // dead end
            _ => rules.push(format!("&,{},F7.eq.t~F5:=t", prev)), // sub-goals proven, last conjunct underivable
        }
    }
    if rng.chance(1, 2) {
        rng.shuffle(&mut rules);
    }
    let mut facts: Vec<String> = Vec::new();
    if rng.chance(9, 10) {
        facts.push("F6=n1".to_string());
    }
    match rng.below(12) {
        0 => facts.push("F5=t".to_string()), // the positive form already holds
        1 | 2 => facts.push("F5=f".to_string()),
        _ => {}
    }
    if rng.chance(1, 4) {
        facts.push(format!("F8={}", *rng.pick(&["a", "asx", "t"])));
    }
    let q = match rng.below(12) {
        0 => "F5.ne.f",
        1 => "F5.eq.f",
        2 => "F5.ne.t",
        _ => "F5.eq.t",
    };
    (if facts.is_empty() { "-".to_string() } else { facts.join(",") }, q.to_string(), rules.join(";"), need)
}

// ------------------------------------------------ disabled rules (F-C09f)

/// marks `k` random rules of the `;`-separated list as disabled
fn disable_some(rng: &mut Rng, rules: &str, k: u64) -> String {
    if rules == "-" {
        return rules.to_string();
    }
    let mut rs: Vec<String> = rules.split(';').map(|s| s.to_string()).collect();
    for _ in 0..k {
        let i = rng.below(rs.len() as u64) as usize;
        if !rs[i].starts_with('*') {
            rs[i] = format!("*{}", rs[i]);
        }
    }
    rs.join(";")
}

/// knowledge bases in which 1..3 rules are DISABLED (`*`, `rule.enabled = false`). The forward engine never fires a
/// disabled rule, so a backward proof must not use one: the conclusion index does not list it, but the substring
/// heuristics — `rule_could_prove_goal` (top level, when the index proposes nothing) and `rule_could_prove_pattern`
/// (every sub-goal) — do. Shapes: the disabled rule is the ONLY one concluding the goal (fallback path), with and
/// without unrelated enabled rules; it concludes a sub-goal of an enabled rule (1..2 levels down); it concludes the
/// WRONG value for the goal / a sub-goal beside an enabled rule with the right one (and the other way round: only the
/// disabled rule has the value asked for); it stands beside an enabled rule on the same field whose condition is
/// false (index non-empty) or true; the goal already holds and only disabled rules could conclude it (what the
/// iterative probe looks at); random Horn / chain / failing-first-alternative KBs with 1..3 random rules disabled.
/// Returns (body, max_depth that explores everything).
fn gen_disabled(rng: &mut Rng) -> (String, u64) {
    let v = *rng.pick(&["t", "t", "n1", "sab"]);
    let w = if v == "t" { "f" } else { "t" };
    let mut facts = vec!["F6=n1".to_string()];
    let mut rules: Vec<String> = Vec::new();
    let mut q = format!("F5.eq.{}", v);
    let mut need = 1;
    match rng.below(9) {
        0 => {
            // the only rule concluding the goal is disabled
            rules.push(format!("*F6.eq.n1~F5:={}", v));
            for _ in 0..rng.below(3) {
                rules.push(format!("F6.eq.n1~F{}:=t", rng.below(4)));
            }
            if rng.chance(1, 4) {
                rules.push(format!("*F6.eq.n1~F5:={}+F0:=t", v));
            }
        }
        1 => {
            // … of a sub-goal of an enabled rule, one or two levels down
            rules.push("*F6.eq.n1~F0:=t".to_string());
            if rng.chance(1, 2) {
                rules.push(format!("F0.eq.t~F5:={}", v));
                need = 2;
            } else {
                rules.push("F0.eq.t~F1:=t".to_string());
                rules.push(format!("{}~F5:={}", *rng.pick(&["F1.eq.t", "&,F1.eq.t,F6.eq.n1", "&,F6.eq.n1,F1.eq.t"]), v));
                need = 3;
            }
        }
        2 => {
            // disabled rule with the wrong value beside an enabled one with the right value
            rules.push(format!("*F6.eq.n1~F5:={}", w));
            rules.push(format!("F6.eq.n1~F5:={}", v));
            if rng.chance(1, 2) {
                q = format!("F5.eq.{}", w); // only the disabled rule has the value asked for
            }
        }
        3 => {
            // the same one level down
            rules.push(format!("*F6.eq.n1~F0:={}", w));
            if rng.chance(2, 3) {
                rules.push(format!("F6.eq.n1~F0:={}", v));
            }
            rules.push(format!("F0.eq.{}~F5:=t", if rng.chance(1, 2) { v } else { w }));
            q = "F5.eq.t".to_string();
            need = 2;
        }
        4 => {
            // beside an enabled rule on the same field whose condition is false (index non-empty) / true
            rules.push(format!("*F6.eq.n1~F5:={}", v));
            rules.push(format!("{}~F5:={}", *rng.pick(&["F7.eq.t", "F7.eq.t", "F6.eq.n2", "F6.eq.n1"]), v));
        }
        5 => {
            // the goal already holds; only disabled rules could conclude it
            facts.push(format!("F5={}", v));
            rules.push(format!("*F6.eq.n1~F5:={}", if rng.chance(1, 2) { v } else { w }));
            if rng.chance(1, 3) {
                rules.push("F6.eq.n1~F0:=t".to_string());
            }
        }
        6 => {
            // a disabled rule that would UNDO what an enabled one derived (Retract / second Set), or derive the permit
            rules.push("F6.eq.n1~F0:=t".to_string());
            rules.push(format!("*F6.eq.n1~F1:=t{}", *rng.pick(&["", "+F0!", "+F0:=f"])));
            rules.push(format!("&,F0.eq.t,F1.eq.t~F5:={}", v));
            if rng.chance(1, 2) {
                rules.push("F6.eq.n1~F1:=t".to_string());
            }
            need = 2;
        }
        7 => {
            let body = gen_shape(rng);
            let t: Vec<&str> = body.split(' ').collect();
            let k = rng.range(1, 3);
            return (format!("{} {} {}", t[0], t[1], disable_some(rng, t[2], k)), 6);
        }
        _ => {
            let body = if rng.chance(1, 2) { gen_horn(rng, false) } else { gen_interfere(rng).0 };
            let t: Vec<&str> = body.split(' ').collect();
            let k = rng.range(1, 3);
            return (format!("{} {} {}", t[0], t[1], disable_some(rng, t[2], k)), 4);
        }
    }
    if rng.chance(1, 3) {
        rng.shuffle(&mut rules);
    }
    (format!("{} {} {}", facts.join(","), q, rules.join(";")), need)
}

/// dead-end family (U09; oracle clause (iv-c)): `P0 && P1 [&& P2] => G`, every conjunct derivable from the input through a chain of
/// 1..3 rules (derivation height 2..4), and DEAD-END rules that assign a later conjunct's field (or an intermediate field of its
/// chain) a value nobody wants TOGETHER WITH the fields of sibling conjuncts proven before (and sometimes the input / an
/// intermediate field) — ordered BEFORE the rule that really proves that conjunct, so the sub-goal's candidate loop tries the dead
/// end first, its check fails and its frame is rolled back: everything it overwrote has to come back, also keys that an ENCLOSING
/// frame recorded earlier (the sibling's committed sub-proof). Returns (body, the max_depth that suffices).
fn gen_deadend(rng: &mut Rng) -> (String, u64) {
    let k = if rng.chance(1, 2) { 2 } else { 3 };
    let mut conj: Vec<u64> = vec![0, 1, 2];
    rng.shuffle(&mut conj);
    conj.truncate(k);
    let input = if rng.chance(3, 4) { ("F6.eq.n1", "F6=n1", "F6:=n0") } else { ("F7.eq.t", "F7=t", "F7:=f") };
    let wrong = ["f", "n0", "sab", "s"];
    // chain of conjunct i: length 1 (input => Pi), 2 (input => F3 => Pi) or 3 (input => F3 => F4 => Pi)
    let lens: Vec<u64> = (0..k).map(|_| *rng.pick(&[1u64, 1, 2, 3])).collect();
    let need = *lens.iter().max().unwrap();
    let mut rules: Vec<String> = Vec::new();
    let top = if k == 2 {
        format!("&,F{}.eq.t,F{}.eq.t~F5:=t", conj[0], conj[1])
    } else {
        format!("&,F{}.eq.t,&,F{}.eq.t,F{}.eq.t~F5:=t", conj[0], conj[1], conj[2])
    };
    let top_first = rng.chance(1, 2);
    if top_first {
        rules.push(top.clone());
    }
    let mut have3 = false;
    let mut have4 = false;
    let mut n_dead = 0;
    for i in 0..k {
        // dead ends for a LATER conjunct: its field and one or more earlier siblings' fields (what the mutant of seeded C09-12 leaks)
        if i > 0 && (rng.chance(3, 4) || (i == k - 1 && n_dead == 0)) {
            for _ in 0..rng.range(1, 2) {
                let mut acts = vec![format!("F{}:={}", conj[i], *rng.pick(&wrong))];
                let mut sib: Vec<u64> = conj[..i].to_vec();
                rng.shuffle(&mut sib);
                for (n, s) in sib.iter().enumerate() {
                    if n == 0 || rng.chance(1, 2) {
                        acts.push(format!("F{}:={}", s, *rng.pick(&wrong)));
                    }
                }
                if have3 && rng.chance(1, 3) {
                    acts.push(format!("F3:={}", *rng.pick(&wrong)));
                }
                if rng.chance(1, 5) {
                    acts.push(input.2.to_string());
                }
                if rng.chance(1, 2) {
                    rng.shuffle(&mut acts);
                }
                // its own condition: the input, or an earlier sibling (then it fires only once that sibling is proven)
                let c = if rng.chance(3, 4) { input.0.to_string() } else { format!("F{}.eq.t", conj[rng.below(i as u64) as usize]) };
                rules.push(format!("{}~{}", c, acts.join("+")));
                n_dead += 1;
            }
        }
        match lens[i] {
            1 => rules.push(format!("{}~F{}:=t", input.0, conj[i])),
            2 => {
                rules.push(format!("F3.eq.t~F{}:=t", conj[i]));
                if !have3 {
                    if i > 0 && rng.chance(1, 3) {
                        // a dead end one level down: for the intermediate field, hitting a proven sibling
                        rules.push(format!("{}~F3:={}+F{}:={}", input.0, *rng.pick(&wrong), conj[0], *rng.pick(&wrong)));
                    }
                    rules.push(format!("{}~F3:=t", input.0));
                    have3 = true;
                }
            }
            _ => {
                rules.push(format!("F4.eq.t~F{}:=t", conj[i]));
                if !have4 {
                    rules.push("F3.eq.t~F4:=t".to_string());
                    have4 = true;
                }
                if !have3 {
                    rules.push(format!("{}~F3:=t", input.0));
                    have3 = true;
                }
            }
        }
    }
    if !top_first {
        rules.push(top);
    }
    if rng.chance(1, 6) {
        rng.shuffle(&mut rules); // control: the dead end is not always first
    }
    let mut facts = vec![input.1.to_string()];
    if rng.chance(1, 4) {
        facts.push(format!("F{}={}", *rng.pick(&[8u64, 9]), *rng.pick(&["t", "n1", "sab"])));
    }
    (format!("{} F5.eq.t {}", facts.join(","), rules.join(";")), need)
}

// ------------------------------------------------ histories on one engine (reach audit) and keyword-like field names


/// strings of the value-class family, as text: plain ones, "null" (which `==` takes for Null as soon as the other side is
/// `Value::Null`), strings with blanks at the ends, and strings that CONTAIN operator text of `parse_goal_pattern`'s table
/// (the goal-pattern round trip of a rule condition cuts the text at the first table operator it finds), quotes included.
/// Strings that read like another literal class: "true", "false", "null", "42", "-7" (whole numbers only: `Value::to_number`
/// parses strings, the model does it for `-?[0-9]+`).
const VSTRS: [&str; 26] = [
    "ab", "abc", "a b", "b", "", "null", " x ", "a==b", "x>=y", ">=", "a > b", "!=", "a contains b", "\"", "a\"b", "'q'", "a<=b", "==",
    "b c", "a < b", "true", "a matches b", "42", "-7", "false", "42",
];

fn vstr(rng: &mut Rng) -> String {
    format!("s{}", enc_word(*rng.pick(&VSTRS)))
}

/// a value of any class of the model: Null, booleans, numbers (negative too), Integer, strings of VSTRS
fn vval(rng: &mut Rng) -> String {
    match rng.below(12) {
        0..=2 => "z".into(),
        3 => "t".into(),
        4 => "f".into(),
        5 => format!("n{}", rng.range(0, 2) as i64 - 1),
        6 => format!("i{}", rng.below(2)),
        _ => vstr(rng),
    }
}

/// a rule condition atom on field `f` with any of the twelve operators
fn vatom(rng: &mut Rng, f: u64) -> String {
    match rng.below(10) {
        0..=2 => format!("F{}.{}.{}", f, *rng.pick(&["eq", "eq", "ne"]), vval(rng)),
        3 => {
            let n = rng.range(1, 3);
            let es: Vec<String> = (0..n).map(|_| if rng.chance(2, 3) { vstr(rng) } else { (*rng.pick(&["t", "n1", "i1", "n-1"])).to_string() }).collect();
            format!("F{}.in.a{}", f, es.join("^"))
        }
        4 => format!("F{}.{}.{}", f, *rng.pick(&["gt", "lt", "ge", "le"]), *rng.pick(&["n0", "n1", "n-1", "i0", "z", "t"])),
        _ => format!("F{}.{}.{}", f, *rng.pick(&["co", "nc", "sw", "ew", "ma"]), vstr(rng)),
    }
}

/// value-class family (Null as a present value; string operators and `In` in rule conditions that become sub-goals; string
/// literals with operator text / quotes / blanks).  Returns the body; every body is asked under every strategy.
fn gen_valops(rng: &mut Rng) -> String {
    match rng.below(10) {
        // string literals that READ LIKE another literal class (boolean, null, number, keyword) in EQUALITY conditions that become
        // sub-goals, and as the assigned values: consistent-Horn chains, so the completeness clause (iv) speaks (seeded change C09-13:
        // such literals printed without quotes come back as Boolean / Number / Null)
        8 | 9 => {
            const LOOKALIKE: [&str; 9] = ["true", "false", "null", "42", "-7", "0", "1e3", "contains", "NOT"];
            let l1 = *rng.pick(&LOOKALIKE);
            let l2 = *rng.pick(&LOOKALIKE);
            let mut rules = vec![format!("F6.eq.n1~F0:=s{}", enc_word(l1)), format!("F0.eq.s{}~F5:=t", enc_word(l1))];
            let mut q = "F5.eq.t".to_string();
            if rng.chance(1, 2) {
                rules.push(format!("F5.eq.t~F1:=s{}", enc_word(l2)));
                if rng.chance(1, 2) {
                    rules.push(format!("&,F1.eq.s{},F0.eq.s{}~F2:=t", enc_word(l2), enc_word(l1)));
                    q = "F2.eq.t".to_string();
                } else {
                    q = format!("F1.eq.s{}", enc_word(l2));
                }
            }
            rng.shuffle(&mut rules);
            return format!("F6=n1 {} {}", q, rules.join(";"));
        }
        // a rule condition with a string operator that the facts do not satisfy: another rule has to derive the string
        // (sub-goal through the goal-pattern text), or derives a string that does not fit
        0 | 1 => {
            let lit = rng.pick(&VSTRS).to_string();
            let made = match rng.below(5) {
                0 => rng.pick(&VSTRS).to_string(),
                1 => lit.clone(),
                2 => format!("a{}", lit),
                3 => format!("{}b", lit),
                _ => format!("a {} b", lit),
            };
            let op = *rng.pick(&["co", "nc", "sw", "ew", "ma", "eq", "ne", "in"]);
            let cond = if op == "in" {
                let mut es = vec![format!("s{}", enc_word(&lit))];
                if rng.chance(1, 2) {
                    es.push(vstr(rng));
                }
                if rng.chance(1, 3) {
                    es.push("n1".into());
                }
                rng.shuffle(&mut es);
                format!("F0.in.a{}", es.join("^"))
            } else {
                format!("F0.{}.s{}", op, enc_word(&lit))
            };
            let mut rules = vec![format!("F6.eq.n1~F0:=s{}", enc_word(&made)), format!("{}~F5:=t", cond)];
            if rng.chance(1, 3) {
                rules.push("F7.eq.t~F5:=t".to_string());
            }
            rng.shuffle(&mut rules);
            let init = match rng.below(6) {
                0 => ",F0=z".to_string(),
                1 => format!(",F0={}", vstr(rng)),
                2 => ",F0=n1".to_string(),
                _ => String::new(),
            };
            format!("F6=n1{} F5.eq.t {}", init, rules.join(";"))
        }
        // a fact that is Null (or "null", or absent) before the query is the conclusion of a rule fired during a FAILING proof
        // attempt (the attempt's second condition is a dead end): it must come back as it was
        2 | 3 => {
            let init = *rng.pick(&["F0=z", "F0=z", "F0=z", "F0=snull", "", "F0=t"]);
            let w = vval(rng);
            let first = format!("F0.eq.{}", w);
            let dead = *rng.pick(&["F7.eq.t", "F7.eq.z", "F7.co.sa"]);
            let mut rules = vec![
                format!("F6.eq.n1~F0:={}", w),
                if rng.chance(1, 2) { format!("&,{},{}~F5:=t", first, dead) } else { format!("&,{},{}~F5:=t", dead, first) },
            ];
            if rng.chance(1, 2) {
                rules.push(format!("F6.eq.n1~F1:={}+F0:={}", vval(rng), vval(rng)));
                rules.push("&,F1.ne.z,F7.eq.t~F5:=t".to_string());
            }
            if rng.chance(1, 4) {
                rules.push("F6.eq.n1~F0!".to_string());
            }
            rng.shuffle(&mut rules);
            let facts = if init.is_empty() { "F6=n1".to_string() } else { format!("F6=n1,{}", init) };
            format!("{} F5.eq.t {}", facts, rules.join(";"))
        }
        // the goal itself is about Null: present Null, absent, the string "null", another value; a rule may set Null / "null" /
        // retract the field / set something else
        4 => {
            let init = *rng.pick(&[",F0=z", ",F0=z", "", ",F0=snull", ",F0=t", ",F0=sab"]);
            let act = *rng.pick(&["F0:=z", "F0:=z", "F0:=snull", "F0!", "F0:=t", "F1:=z"]);
            let q = format!("F0.{}.{}", *rng.pick(&["eq", "eq", "ne"]), *rng.pick(&["z", "z", "snull", "t", "sab"]));
            let rules = if rng.chance(1, 5) { "-".to_string() } else { format!("F6.eq.n1~{}", act) };
            format!("F6=n1{} {} {}", init, q, rules)
        }
        // a rule condition about Null that is a sub-goal
        5 => {
            let act = *rng.pick(&["F0:=z", "F0:=z", "F0:=snull", "F0!", "F0:=t"]);
            let init = *rng.pick(&["", "", ",F0=z", ",F0=t", ",F0=snull"]);
            let c = format!("F0.{}.{}", *rng.pick(&["eq", "eq", "ne"]), *rng.pick(&["z", "z", "snull", "t"]));
            let mut rules = vec![format!("F6.eq.n1~{}", act), format!("{}~F5:=t", c)];
            rng.shuffle(&mut rules);
            format!("F6=n1{} F5.eq.t {}", init, rules.join(";"))
        }
        // random knowledge bases over all value classes and all twelve operators
        _ => {
            let nf = rng.range(2, 4);
            let nrules = rng.range(1, 5);
            let mut rules = Vec::new();
            for _ in 0..nrules {
                let (f1, f2) = (rng.below(nf), rng.below(nf));
                let c = if rng.chance(1, 3) {
                    let (a1, a2) = (vatom(rng, f1), vatom(rng, f2));
                    format!("{},{},{}", if rng.chance(2, 3) { "&" } else { "/" }, a1, a2)
                } else {
                    vatom(rng, f1)
                };
                let mut acts = format!("F{}:={}", rng.below(nf), vval(rng));
                if rng.chance(1, 4) {
                    acts.push_str(&format!("+F{}:={}", rng.below(nf), vval(rng)));
                }
                if rng.chance(1, 8) {
                    acts.push_str(&format!("+F{}!", rng.below(nf)));
                }
                rules.push(format!("{}~{}", c, acts));
            }
            let mut facts = vec!["F6=n1".to_string()];
            for f in 0..nf {
                if rng.chance(1, 2) {
                    facts.push(format!("F{}={}", f, vval(rng)));
                }
            }
            let qv = *rng.pick(&["t", "t", "f", "z", "z", "n1", "sab", "snull", "sb"]);
            format!("{} F{}.{}.{} {}", facts.join(","), rng.below(nf), *rng.pick(&["eq", "eq", "eq", "ne"]), qv, rules.join(";"))
        }
    }
}

fn rand_cfg(rng: &mut Rng) -> String {
    format!("{}{}s{}", *rng.pick(&["D", "D", "D", "B", "I"]), rng.range(1, 5), *rng.pick(&[1, 1, 1, 3]))
}

/// the knowledge base is EDITED through `engine.knowledge_base()` between two askings of one top-level goal `F5 == t`, and
/// `rebuild_index()` is called (3 in 4) or not: the rule concluding the goal is replaced by another one (new name / the SAME
/// name; rule count unchanged), enabled / disabled in place, added, removed, the base cleared and refilled. The goal is
/// underivable before and derivable (height 1 or 2) afterwards, or the other way round. Engines built by `with_config`
/// (memo off / on) and by `new`; 1 in 4 with a `set_config` on the way. Returns the whole case.
fn gen_hist_edit(rng: &mut Rng) -> String {
    let mut rules: Vec<String> = Vec::new();
    // unrelated rules first / last
    let chain = rng.chance(1, 2);
    let mut pre = vec!["F6.eq.n1~F0:=t".to_string()];
    if rng.chance(1, 2) {
        pre.push("F0.eq.t~F1:=t".to_string());
    }
    if rng.chance(1, 3) {
        pre.push("F6.eq.n1~F8:=t".to_string());
    }
    let good = |rng: &mut Rng| -> String {
        if chain {
            (*rng.pick(&["F0.eq.t~F5:=t", "&,F0.eq.t,F6.eq.n1~F5:=t", "F0.eq.t~F9:=n1+F5:=t"])).to_string()
        } else {
            (*rng.pick(&["F6.eq.n1~F5:=t", "F6.eq.n1~F5:=t+F9:=n1", "&,F6.eq.n1,F6.ne.n2~F5:=t"])).to_string()
        }
    };
    let bad = |rng: &mut Rng| -> String {
        (*rng.pick(&["F7.eq.t~F5:=t", "F6.eq.n2~F5:=t", "F6.eq.n1~F5:=f", "F7.eq.t~F5:=t+F1:=t"])).to_string()
    };
    let goal_first = rng.chance(1, 2);
    if !goal_first {
        rules.append(&mut pre);
    }
    let g = rules.len();
    let mut steps: Vec<String> = Vec::new();
    let mut next;
    let kind = rng.below(10);
    match kind {
        // replaced under a new name / the same name (count unchanged)
        0 | 1 | 2 | 3 => {
            rules.push(bad(rng));
            if goal_first {
                rules.append(&mut pre);
            }
            next = rules.len();
            let name = if kind == 3 { g } else { next };
            let add = format!("+{}:{}", name, good(rng));
            if rng.chance(1, 4) {
                steps.push(add);
                steps.push(format!("-{}", g));
            } else {
                steps.push(format!("-{}", g));
                steps.push(add);
            }
            next += 1;
        }
        // the right rule is there but disabled; enabled in place (or: enabled one disabled in place)
        4 | 5 => {
            let en = kind == 4;
            rules.push(format!("{}{}", if en { "*" } else { "" }, good(rng)));
            if goal_first {
                rules.append(&mut pre);
            }
            next = rules.len();
            steps.push(format!("{}{}", if en { "e" } else { "d" }, g));
        }
        // an unrelated rule removed, the goal rule added (count unchanged; the index knew nothing about the goal)
        6 => {
            if goal_first {
                rules.append(&mut pre);
            }
            rules.push("F6.eq.n1~F3:=t".to_string());
            next = rules.len();
            steps.push(format!("-{}", next - 1));
            steps.push(format!("+{}:{}", next, good(rng)));
            next += 1;
        }
        // added beside a dead one / removed again
        7 => {
            rules.push(bad(rng));
            if goal_first {
                rules.append(&mut pre);
            }
            next = rules.len();
            steps.push(format!("+{}:{}", next, good(rng)));
            next += 1;
        }
        8 => {
            rules.push(good(rng));
            if goal_first {
                rules.append(&mut pre);
            }
            next = rules.len();
            steps.push(format!("-{}", g));
            if rng.chance(1, 2) {
                steps.push(format!("+{}:{}", next, bad(rng)));
                next += 1;
            }
        }
        // cleared and refilled
        _ => {
            rules.push(bad(rng));
            if goal_first {
                rules.append(&mut pre);
            }
            next = rules.len();
            steps.push("z".to_string());
            steps.push(format!("+{}:F6.eq.n1~F0:=t", next));
            steps.push(format!("+{}:{}", next + 1, good(rng)));
            next += 2;
        }
    }
    let _ = next;
    if rng.chance(3, 4) {
        steps.push("x".to_string());
    }
    if rng.chance(1, 4) {
        let at = rng.below(steps.len() as u64 + 1) as usize;
        steps.insert(at, format!("c{}{}", rand_cfg(rng), if rng.chance(1, 3) { "m" } else { "" }));
    }
    if rng.chance(3, 4) {
        steps.insert(0, "?".to_string());
    }
    steps.push((*rng.pick(&["?", "?", "?", "w"])).to_string());
    if rng.chance(1, 3) {
        // a second round: undo / redo something, rebuild, ask again (also on other facts / for another field)
        steps.push(match rng.below(4) {
            0 => format!("-{}", rng.below(rules.len() as u64 + 2)),
            1 => format!("d{}", rng.below(rules.len() as u64 + 2)),
            2 => format!("e{}", rng.below(rules.len() as u64 + 2)),
            _ => format!("+{}:F6.eq.n1~F5:={}", rules.len() + 5, *rng.pick(&["t", "f"])),
        });
        if rng.chance(2, 3) {
            steps.push("x".to_string());
        }
        steps.push((*rng.pick(&["?", "?-?F5.eq.t", "?F6=n1?F1.eq.t", "?F6=n1,F7=t?F5.eq.t"])).to_string());
    }
    let mut cfg = match rng.below(8) {
        0 | 1 => "N10s1".to_string(),
        2 => format!("D{}s1m", rng.range(2, 4)),
        3 => format!("{}{}s1", *rng.pick(&["B", "I"]), rng.range(2, 4)),
        4 => format!("D{}s3", rng.range(2, 4)),
        _ => format!("D{}s1", rng.range(2, 4)),
    };
    // with memoisation on, a query repeated on an UNCHANGED knowledge base is answered from the cache (C11's subject; a cached
    // `provable` hands the facts back untouched): such histories run with memoisation off
    let mut asked: Vec<(String, String)> = Vec::new();
    let mut repeat = false;
    for st in &steps {
        if st.starts_with('?') || st == "w" {
            let key = (if st == "w" { "?".to_string() } else { st.clone() }, String::new());
            if asked.contains(&key) {
                repeat = true;
            }
            asked.push(key);
        } else if st.starts_with('+') || st.starts_with('-') || st.starts_with('e') || st.starts_with('d') || st == "z" {
            // the second-round edits may name a rule that does not exist (no change); the first-round ones always change the base
            if !(steps.len() > 2 && steps.iter().rev().take(3).any(|x| x == st)) {
                asked.clear();
            }
        }
    }
    if repeat {
        if cfg.starts_with('N') || cfg.ends_with('m') {
            cfg = format!("D{}s1", rng.range(2, 4));
        }
        steps.retain(|x| !(x.starts_with('c') && x.ends_with('m')));
    }
    // … except for a goal that is NOT provable yet: asked twice before the edit, the second answer comes from the cache
    // (with memoisation on) and the edit has to invalidate it
    if kind != 5 && kind != 8 && steps[0] == "?" && rng.chance(1, 3) {
        steps.insert(1, "?".to_string());
    }
    let mut facts = if rng.chance(7, 8) { "F6=n1" } else { "-" };
    if steps[0] == "?" && steps[1] != "?" && rng.chance(1, 10) {
        // the goal already holds in the facts: a cached `provable` hands back facts in which it is true
        facts = "F6=n1,F5=t";
        steps.insert(1, "?".to_string());
    }
    format!("{} {} F5.eq.t {} {}", cfg, facts, rules.join(";"), steps.join("@"))
}

/// a random rule over the fields 0..nf
fn rand_rule(rng: &mut Rng, nf: u64, horn: bool) -> String {
    if horn {
        let c = if rng.chance(1, 3) {
            format!("&,F{}.eq.t,F{}.eq.t", rng.below(nf), rng.below(nf))
        } else {
            format!("F{}.eq.{}", rng.below(nf), *rng.pick(&["t", "t", "n1"]))
        };
        format!("{}~F{}:=t", c, rng.below(nf))
    } else {
        format!("{}~F{}:={}", rand_cond(rng, nf, false, 0), rng.below(nf), rand_val(rng, false))
    }
}

/// random histories: a generated problem (Horn / chain / general / disabled rules), then 3..8 steps — queries (the base one,
/// on other facts, for another field, negated, through explain_why), add / remove / enable / disable / clear, rebuild_index,
/// set_config — in random order; with memoisation on, every query comes after an edit.
fn gen_hist_random(rng: &mut Rng) -> String {
    let body = match rng.below(5) {
        0 | 1 => gen_horn(rng, false),
        2 => gen_shape(rng),
        3 => gen_general(rng),
        _ => gen_disabled(rng).0,
    };
    let t: Vec<&str> = body.split(' ').collect();
    let nrules = if t[2] == "-" { 0 } else { t[2].split(';').count() } as u64;
    let nf = 7u64;
    let memo = rng.chance(1, 5);
    // (no `new` engines here: their max_depth is 10, and on the cyclic knowledge bases random edits produce the search —
    // code and model — is exponential in the depth; gen_hist_edit and the single-query family cover `new`)
    let cfg = format!("{}{}", rand_cfg(rng), if memo { "m" } else { "" });
    let mut next = nrules;
    let mut steps: Vec<String> = Vec::new();
    let edit = |rng: &mut Rng, next: &mut u64| -> String {
        match rng.below(10) {
            0..=2 => format!("-{}", rng.below(*next + 1)),
            3..=5 => {
                *next += 1;
                let horn = rng.chance(2, 3);
                format!("+{}:{}{}", *next - 1, if rng.chance(1, 8) { "*" } else { "" }, rand_rule(rng, nf, horn))
            }
            6 => format!("+{}:{}", rng.below(*next + 1), rand_rule(rng, nf, true)), // mostly an existing name: rejected
            7 => format!("d{}", rng.below(*next + 1)),
            8 => format!("e{}", rng.below(*next + 1)),
            _ => if rng.chance(1, 3) { "z".to_string() } else { format!("d{}", rng.below(*next + 1)) },
        }
    };
    for _ in 0..rng.range(3, 8) {
        match rng.below(10) {
            0..=3 => {
                if memo {
                    // an edit that always changes the knowledge base (fresh name): no query is answered from the memo cache
                    next += 1;
                    steps.push(format!("+{}:{}", next - 1, rand_rule(rng, nf, true)));
                }
                steps.push(match rng.below(8) {
                    0 => "w".to_string(),
                    1 => format!("?{}?{}", t[0], rand_atom(rng, nf, true)),
                    2 => format!("?F6=n1,F0=t?{}", t[1]),
                    3 => format!("?-?{}", t[1]),
                    4 => format!("?{}?!{}", t[0], t[1]),
                    _ => "?".to_string(),
                });
            }
            4..=6 => steps.push(edit(rng, &mut next)),
            7 | 8 => steps.push("x".to_string()),
            _ => steps.push(format!("c{}{}", rand_cfg(rng), if memo && rng.chance(1, 2) { "m" } else { "" })),
        }
    }
    if memo {
        next += 1;
        steps.push(format!("+{}:{}", next - 1, rand_rule(rng, nf, true)));
    }
    if rng.chance(2, 3) {
        steps.push("x".to_string());
    }
    steps.push("?".to_string());
    format!("{} {} {}", cfg, body, steps.join("@"))
}

fn gen(rng: &mut Rng, n: usize, _tier: &str) -> Vec<String> {
    let mut out = Vec::new();
    for i in 0..n {
        let body = match i % 4 {
            0 | 1 => gen_horn(rng, false),
            2 => gen_general(rng),
            _ => gen_shape(rng),
        };
        // every strategy, max_solutions 1 and 3, max_depth 0..6 on the same (facts, query, rules)
        let strat = ["D", "D", "B", "I"][rng.below(4) as usize];
        let depth = rng.below(7);
        let ms = if rng.chance(3, 4) { 1 } else { 3 };
        out.push(format!("{}{}s{} {}", strat, depth, ms, body));
        if rng.chance(1, 3) {
            // the same problem under another strategy / depth
            let strat2 = ["D", "B", "I"][rng.below(3) as usize];
            out.push(format!("{}{}s{} {}", strat2, rng.below(7), if rng.chance(1, 2) { 1 } else { 3 }, body));
        }
    }
    // rival-conclusion family: several applicable rules assign DIFFERENT literals to the goal's field (directly or
    // one level down); whichever candidate order the engine's HashSet yields, a query reported provable must hand
    // back facts in which the goal comparison is true. Each problem is asked under every strategy, several times.
    for _ in 0..n / 10 {
        let vals = ["t", "f", "n1", "n2"];
        let want = *rng.pick(&vals);
        let mut rules = Vec::new();
        let via = rng.chance(1, 2);
        if via {
            rules.push("F6.eq.n1~F0:=t".to_string());
        }
        let src = if via { "F0.eq.t" } else { "F6.eq.n1" };
        rules.push(format!("{}~F5:={}", src, want));
        for _ in 0..rng.range(1, 2) {
            let other = *rng.pick(&vals);
            let c = if rng.chance(1, 2) { "F6.eq.n1" } else { src };
            rules.push(format!("{}~F5:={}", c, other));
        }
        rng.shuffle(&mut rules);
        let body = format!("F6=n1 F5.eq.{} {}", want, rules.join(";"));
        for strat in ["D", "B", "I"] {
            for _ in 0..2 {
                out.push(format!("{}{}s1 {}", strat, rng.range(2, 4), body));
            }
        }
    }
    // string-literal family: every problem under EVERY strategy (the value parser exists once per strategy), max_solutions 1
    for _ in 0..n / 10 {
        let body = gen_strlit(rng);
        let depth = rng.range(1, 5);
        for strat in ["D", "B", "I"] {
            out.push(format!("{}{}s1 {}", strat, depth, body));
        }
    }
    // name-literal family: assigned string literals that coincide with names of facts in the store; every problem
    // under EVERY strategy, DFS at the exploring depth (or more) and once at a random depth
    for i in 0..n / 10 {
        if i % 4 == 3 {
            let body = gen_horn_with(rng, true, true);
            for strat in ["D", "D", "B", "I"] {
                out.push(format!("{}{}s1 {}", strat, rng.range(2, 6), body));
            }
            continue;
        }
        let (body, need) = gen_namelit(rng);
        out.push(format!("D{}s1 {}", (need + rng.below(3)).min(6), body));
        if rng.chance(1, 3) {
            out.push(format!("D{}s{} {}", rng.below(7), if rng.chance(1, 2) { 1 } else { 3 }, body));
        }
        out.push(format!("B{}s1 {}", need, body));
        out.push(format!("I{}s1 {}", need, body));
    }
    // failing-first-alternative family (C10 part B): every problem under EVERY strategy; DFS at the depth that explores
    // everything (or one / two more), at a random smaller depth, and with max_solutions 3
    for _ in 0..n / 12 {
        let (body, need) = gen_interfere(rng);
        let d = (need + rng.below(2)).min(6);
        out.push(format!("D{}s1 {}", d, body));
        out.push(format!("D{}s{} {}", if rng.chance(1, 2) { d } else { rng.below(7) }, if rng.chance(1, 2) { 1 } else { 3 }, body));
        out.push(format!("B{}s1 {}", d, body));
        out.push(format!("I{}s1 {}", d, body));
    }
    // dead-end family (clause (iv-c)): a dead-end rule with several assignments, tried BEFORE the right rule of a later conjunct,
    // overwrites what a sibling's committed sub-proof derived; derivation height 2..4; at the sufficient depth (ms 1 and 3),
    // one deeper, and under the other strategies (control)
    for _ in 0..n / 10 {
        let (body, need) = gen_deadend(rng);
        out.push(format!("D{}s1 {}", need, body));
        out.push(format!("D{}s{} {}", need + rng.below(3), if rng.chance(1, 2) { 1 } else { 3 }, body));
        out.push(format!("{}{}s1 {}", if rng.chance(1, 2) { "I" } else { "B" }, need + 1, body));
    }
    // non-Set actions family (C10 part B): Append / Retract / MethodCall on the way of failing and succeeding proofs
    for i in 0..n / 8 {
        let body = if i % 3 == 2 { gen_general_actions(rng) } else { gen_actions(rng) };
        let d = if rng.chance(3, 4) { rng.range(3, 5) } else { rng.below(7) };
        out.push(format!("D{}s1 {}", d, body));
        if rng.chance(1, 2) {
            out.push(format!("D{}s3 {}", d, body));
        }
        out.push(format!("B{}s1 {}", d, body));
        out.push(format!("I{}s{} {}", d, if rng.chance(3, 4) { 1 } else { 3 }, body));
    }
    // negated-query family (C10 part B): every problem under DFS with max_solutions 1, 2, 3 AND 5 at the exploring depth
    // (or one more), once at a random depth, under BFS and iterative, and once as the positive query with max_solutions > 1
    for _ in 0..n / 10 {
        let (facts, q, rules, need) = gen_negated(rng);
        let d = (need + rng.below(2)).min(6);
        for ms in [1, 2, 3, 5] {
            out.push(format!("D{}s{} {} !{} {}", d, ms, facts, q, rules));
        }
        out.push(format!("D{}s{} {} !{} {}", rng.below(5), *rng.pick(&[1, 2, 3, 5]), facts, q, rules));
        out.push(format!("B{}s{} {} !{} {}", d, *rng.pick(&[1, 3]), facts, q, rules));
        out.push(format!("I{}s{} {} !{} {}", d, *rng.pick(&[1, 2, 3, 5]), facts, q, rules));
        out.push(format!("D{}s{} {} {} {}", d, *rng.pick(&[2, 3, 5]), facts, q, rules));
    }
    // disabled-rule family (F-C09f): every problem under EVERY strategy; 1 in 4 also as the negated query (whose
    // candidates always come from the linear fallback, which offers disabled rules)
    for _ in 0..n / 10 {
        let (body, need) = gen_disabled(rng);
        let d = (need + rng.below(2)).min(6);
        out.push(format!("D{}s1 {}", d, body));
        out.push(format!("B{}s1 {}", d, body));
        out.push(format!("I{}s1 {}", d, body));
        if rng.chance(1, 3) {
            out.push(format!("D{}s{} {}", rng.below(7), *rng.pick(&[1, 3]), body));
        }
        if rng.chance(1, 4) {
            let t: Vec<&str> = body.split(' ').collect();
            out.push(format!("D{}s{} {} !{} {}", d, *rng.pick(&[1, 3]), t[0], t[1], t[2]));
        }
    }
    // value-class family (S09): Null as a present value, string operators / `In` / operator text in string literals of rule
    // conditions that become sub-goals; every problem under EVERY strategy, DFS also with max_solutions 3 now and then
    for _ in 0..n / 6 {
        let body = gen_valops(rng);
        let d = rng.range(2, 5);
        out.push(format!("D{}s1 {}", d, body));
        if rng.chance(1, 3) {
            out.push(format!("D{}s{} {}", rng.below(7), *rng.pick(&[1, 3]), body));
        }
        out.push(format!("B{}s1 {}", d, body));
        out.push(format!("I{}s1 {}", d, body));
    }
    // history family (reach audit): knowledge-base edits / rebuild_index / set_config between queries on ONE engine
    for i in 0..n / 6 {
        out.push(if i % 3 == 2 { gen_hist_random(rng) } else { gen_hist_edit(rng) });
    }
    // engines built by `BackwardEngine::new` (default configuration), single query
    for _ in 0..n / 40 {
        // acyclic chain / diamond shapes (max_depth is 10: a cycle makes the search exponential in it), 1 in 3 with disabled rules
        let body = loop {
            let b = gen_shape(rng);
            if !b.contains("F5.eq.t~F0:=t") {
                break b;
            }
        };
        let t: Vec<&str> = body.split(' ').collect();
        let k = rng.below(3);
        out.push(format!("N10s1 {} {} {}", t[0], t[1], if k == 0 { disable_some(rng, t[2], 1) } else { t[2].to_string() }));
    }
    // negative number literals (`-1`) in facts, assignments, rule conditions that become sub-goals (goal pattern text -> value
    // parser, one copy per strategy) and query literals, under every strategy
    for _ in 0..n / 60 {
        let a = rng.range(1, 3);
        let b = rng.range(1, 3);
        let mut rules = vec![format!("F6.{}.n-{}~F0:=n-{}", *rng.pick(&["eq", "le", "lt", "ne"]), a, b)];
        let q = match rng.below(4) {
            0 => format!("F0.eq.n-{}", b),
            1 => format!("F0.{}.n{}", *rng.pick(&["lt", "le", "gt", "ne"]), *rng.pick(&["0", "-1", "-2", "-3"])),
            _ => {
                rules.push(format!("F0.{}.n-{}~F5:=t", *rng.pick(&["eq", "eq", "le", "ge"]), rng.range(1, 3)));
                "F5.eq.t".to_string()
            }
        };
        rng.shuffle(&mut rules);
        let facts = format!("F6=n-{}{}", rng.range(1, 3), if rng.chance(1, 4) { ",F0=n-3" } else { "" });
        for strat in ["D", "B", "I"] {
            out.push(format!("{}{}s1 {} {} {}", strat, rng.range(1, 3), facts, q, rules.join(";")));
        }
    }
    // keyword-like field names (vocabulary v1: NOTICE, ORDER, ANDROID, trueCount, NOTE, nullable, inStock, NOTIFY.Sent, NOT.Q):
    // the generated problems again, each under EVERY strategy; 1 in 5 as the negated query; 1 in 6 a history
    for i in 0..n / 8 {
        if i % 6 == 5 {
            let h = gen_hist_edit(rng);
            let (cfg, rest) = h.split_once(' ').unwrap();
            out.push(format!("{}v1 {}", cfg, rest));
            continue;
        }
        let (body, need) = match rng.below(6) {
            0 | 1 => (gen_horn(rng, false), 3),
            2 => (gen_shape(rng), 6),
            3 => (gen_general(rng), 3),
            4 => gen_disabled(rng),
            _ => (gen_actions(rng), 4),
        };
        let d = (need + rng.below(2)).min(6);
        let t: Vec<&str> = body.split(' ').collect();
        let neg = if rng.chance(1, 5) { "!" } else { "" };
        for strat in ["D", "B", "I"] {
            out.push(format!("{}{}s1v1 {} {}{} {}", strat, d, t[0], neg, t[1], t[2]));
        }
    }
    caller_frame_family(rng, n, &mut out);
    out
}

/// C10 part B, second sentence on the real search: the frames the search begins / commits / rolls back are NESTED frames of a frame
/// the CALLER may hold (what-if evaluation: begin; query; rollback). (a) constructive: chains of 1..3 levels whose proof derives new
/// facts, overwrites an existing one and (optionally) appends / retracts, asked provable and not provable (underivable conjunct, wrong
/// value, depth cut), under every strategy, max_solutions 1 and 3, rolled back and committed; (b) a sample of ALL single-query cases
/// generated above (every family: horn, general, shapes, actions, negated, disabled, dead ends, keyword names), re-run inside a
/// caller frame, rolled back (2 of 3) or committed. (Appended last: the cases above are what they were without this family.)
fn caller_frame_family(rng: &mut Rng, n: usize, out: &mut Vec<String>) {
    let base = out.len();
    for i in 0..(n / 25).max(12) {
        let levels = 1 + i % 3;
        // F6 (seed) ⇒ F0 ⇒ F1 ⇒ F2; the rule concluding the goal also overwrites the seed-side fact F7 and may append / retract
        let mut rules: Vec<String> = Vec::new();
        let mut prev = "F6.eq.n1".to_string();
        for l in 0..levels {
            let extra = match rng.below(5) {
                0 => "+F7:=n0",
                1 => "+F7:=n0+F3<<n1",
                2 => "+F7!",
                3 => "+F5:=sx",
                _ => "",
            };
            let cond = if l + 1 == levels && rng.chance(1, 3) { format!("&,{},F7.eq.n100", prev) } else { prev.clone() };
            rules.push(format!("{}~F{}:=t{}", cond, l, extra));
            prev = format!("F{}.eq.t", l);
        }
        let goal_field = levels - 1;
        let query = match i % 4 {
            3 => format!("F{}.eq.f", goal_field), // wrong value: the rules fire, the goal is not proved
            _ => format!("F{}.eq.t", goal_field),
        };
        let facts = match i % 5 {
            4 => "F7=n100", // seed missing: nothing fires
            _ => "F6=n1,F7=n100",
        };
        if rng.chance(1, 2) {
            rules.reverse();
        }
        for strat in ["D", "B", "I"] {
            for ms in [1, 3] {
                let d = if rng.chance(1, 5) { rng.below(levels as u64) } else { levels as u64 + rng.below(3) };
                for wrap in ["^r", "^k"] {
                    out.push(format!("{}{}s{}{} {} {} {}", strat, d, ms, wrap, facts, query, rules.join(";")));
                }
            }
        }
    }
    for _ in 0..(n / 2).max(60) {
        let c = out[rng.below(base as u64) as usize].clone();
        let t: Vec<&str> = c.split(' ').collect();
        if t.len() != 4 || t[0].contains('^') {
            continue;
        }
        let wrap = if rng.chance(2, 3) { "^r" } else { "^k" };
        // a deep search over many general rules can take the Lean model tens of seconds (some D6 cases above do): such a case is
        // re-run at depth 4 (3 with 7 or more rules), which keeps its shape and bounds what this family adds to the run time
        let mut cfg = t[0].to_string();
        let nr = t[3].split(';').count();
        if nr >= 3 {
            let cap = if nr >= 7 { 3 } else { 4 };
            let Some((d, rest)) = t[0][1..].split_once('s') else { continue };
            match d.parse::<u64>() {
                Ok(dn) if dn > cap && !t[0].starts_with('N') => cfg = format!("{}{}s{}", &t[0][..1], cap, rest),
                Ok(dn) if dn > cap => continue,
                _ => {}
            }
        }
        out.push(format!("{}{} {} {} {}", cfg, wrap, t[1], t[2], t[3]));
    }
}

fn shrink(case: &str) -> Vec<String> {
    let t: Vec<&str> = case.split_whitespace().collect();
    if t.len() == 5 {
        // a history: drop steps (rule names are explicit, so the rest keeps its meaning), then shrink the rest
        let steps: Vec<String> = if t[4] == "-" { vec![] } else { t[4].split('@').map(|s| s.to_string()).collect() };
        let mut out = Vec::new();
        for v in shrink_list(&steps) {
            out.push(format!("{} {} {} {} {}", t[0], t[1], t[2], t[3], if v.is_empty() { "-".to_string() } else { v.join("@") }));
        }
        // only trailing rules can go (names are positions)
        if t[3] != "-" {
            let rs: Vec<&str> = t[3].split(';').collect();
            let rest = if rs.len() == 1 { "-".to_string() } else { rs[..rs.len() - 1].join(";") };
            out.push(format!("{} {} {} {} {}", t[0], t[1], t[2], rest, t[4]));
        }
        let facts: Vec<String> = if t[1] == "-" { vec![] } else { t[1].split(',').map(|s| s.to_string()).collect() };
        for v in shrink_list(&facts) {
            out.push(format!("{} {} {} {} {}", t[0], if v.is_empty() { "-".to_string() } else { v.join(",") }, t[2], t[3], t[4]));
        }
        return out;
    }
    if t.len() != 4 {
        return vec![];
    }
    let mut out = Vec::new();
    let rules: Vec<String> = if t[3] == "-" { vec![] } else { t[3].split(';').map(|s| s.to_string()).collect() };
    let facts: Vec<String> = if t[1] == "-" { vec![] } else { t[1].split(',').map(|s| s.to_string()).collect() };
    let j = |v: &Vec<String>, sep: &str| if v.is_empty() { "-".to_string() } else { v.join(sep) };
    for v in shrink_list(&rules) {
        out.push(format!("{} {} {} {}", t[0], t[1], t[2], j(&v, ";")));
    }
    for v in shrink_list(&facts) {
        out.push(format!("{} {} {} {}", t[0], j(&v, ","), t[2], t[3]));
    }
    // drop second assignments, replace compound conditions by one side
    for (i, r) in rules.iter().enumerate() {
        if let Some((c, a)) = r.split_once('~') {
            let acts: Vec<&str> = a.split('+').collect();
            if acts.len() > 1 {
                for k in 0..acts.len() {
                    let mut rest = acts.clone();
                    rest.remove(k);
                    let mut v = rules.clone();
                    v[i] = format!("{}~{}", c, rest.join("+"));
                    out.push(format!("{} {} {} {}", t[0], t[1], t[2], j(&v, ";")));
                }
            }
            let toks: Vec<&str> = c.split(',').collect();
            if toks.len() > 1 {
                for tk in toks.iter().filter(|x| x.starts_with('F')) {
                    let mut v = rules.clone();
                    v[i] = format!("{}~{}", tk, a);
                    out.push(format!("{} {} {} {}", t[0], t[1], t[2], j(&v, ";")));
                }
            }
        }
    }
    // smaller depth
    if let Some((d, s)) = t[0][1..].split_once('s') {
        if let Ok(dn) = d.parse::<usize>() {
            if dn > 0 && !t[0].starts_with('N') {
                out.push(format!("{}{}s{} {} {} {}", &t[0][..1], dn - 1, s, t[1], t[2], t[3]));
            }
        }
    }
    out
}

fn main() {
    main_with(Prop { gen, exec, shrink });
}
