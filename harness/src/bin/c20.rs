//! C20 — StateStore checkpoint / restore on the file and memory backends (src/streaming/state.rs).
//!
//! case := `<B> <maxCk> <ttl> <op,op,...>`
//!           B ∈ F (file backend, private temp dir) | M (memory backend)
//!             | O (file backend, driven through the twin `StatefulOperator`: checkpoint / restore are the operator's own
//!               methods, every other call goes through `state_mut()` / `state()`, `E` through `process()`)
//!           ttl ∈ N (enable_ttl = false) | <ms> (enable_ttl = true, default_ttl = ms)
//!           op ∈ P<k>.<v> put | T<k>.<v>.<ttl> put_with_ttl | U<k>.<v> update | D<k> delete | X clear
//!              | G cleanup_expired | C checkpoint | R<i> restore(id returned by the i-th checkpoint of the
//!              case; an id never returned if there is none) | A<ms> advance the injected clock
//!              | K checkpoint under crash analysis (last op; file backend, maxCk ≥ 1)
//!              | Z checkpoint interrupted by a REAL I/O error (file backend only): `<path>/<next id>/state.json` is
//!                occupied by a directory, so `File::create` fails and `checkpoint` returns Err after its first steps;
//!                the obstacle is removed afterwards (the empty `<next id>/` directory the call leaves behind stays).
//!                Unlike `K` this observes the real code's own step order: whatever it did before the failing step.
//!              | E<k>.<v> an event processed by the operator whose process function puts v under k (F / M: plain put)
//!           keys k ∈ 0..2, values v ∈ 0..26 are indices into fixed tables of names / `Value`s (`values()`: 0..9 ordinary,
//!           10..19 edge values that JSON still carries exactly, 20..26 values whose JSON text does not read back).
//!             | Q (file backend, REAL KILL: the ops up to and including the single kill op run in a CHILD process
//!               `c20 crash-child <dir> <case>` which `std::process::abort()`s at the armed `verif_crash` point between
//!               two real syscalls of the real `checkpoint` / `restore`; the parent lists the directory the dead child
//!               left, lets a NEW store restore every id the child reported plus the id under way, then opens another
//!               NEW store on that directory and runs the remaining ops on it. `R<i>` after the kill: ids of the child
//!               first - the one under way included -, then the new ones.)
//!           kill ops (kind Q only, exactly one): Y<p> checkpoint killed at its crash point p | V<i>.<p> restore of id #i
//!               killed at its crash point p   (p past the last point of the call: the child returns and exits)
//!               | W<p>.<sel>.<a> checkpoint whose `write_all` is SPLIT by the hook (`verif_crash::arm_split`) at a byte offset k
//!               of the REAL serialised bytes, killed at point p of the extended point list (p = 4: INSIDE the write, after
//!               exactly k bytes - a truncated state.json produced by a real kill). k by selector: sel 0 = min(a, len-1);
//!               1 = len - min(a, len); 2 = len*min(a,32)/32; 3 / 4 / 5 = the (a mod n)-th offset inside a multi-byte
//!               character / inside a number / behind a backslash (len/2 if there is none).
//!           kill step := dead@<label of the point>|exit / files / id>ok=<view>|id><kind>=u|c,… [/ recon]
//!           recon (W only) := `-` | P|N:<outcome>   the child died inside the write: P = the state.json it left is byte for
//!               byte the first k bytes of the text it was writing (saved by the split chooser before the first write) and k
//!               is the selector's offset; <outcome> = a new store restoring the interrupted id from the RECONSTRUCTION of
//!               that truncation point (those k bytes put into a scratch copy with fs::write, as the `K` analysis does)
//! obs  := step;step;…   step := res/gets/keys/len/metas/files[/crash]
//!           res   := ok | ok:<id> | err:<kind>          id printed `<ms>.<seq>` (`<ms>` before the fix)
//!           gets  := g,g,g   (g = value index or `_`)   keys := sorted key indices   len := usize
//!           metas := id:entry_count,…                   files := id=D|X|E|k:v+k:v,… (parsed state.json)
//!           crash := every intermediate directory state of the interrupted checkpoint and every
//!                    truncation point of state.json, restored by a fresh store holding sentinel entries;
//!                    consecutive equal results collapsed:  ok=<view>~I | <kind>=u|c~I|B
//! The clock is the `#[cfg(rre_verif)]` thread-local override of streaming::state (starts at 0).
use rre_harness::*;
use rust_rule_engine::streaming::event::StreamEvent;
use rust_rule_engine::streaming::state::{verif_clock, verif_crash, StateBackend, StateConfig, StateResult, StateStore, StatefulOperator};
use rust_rule_engine::types::Value;
use std::collections::{BTreeMap, HashMap};
use std::fs;
use std::path::{Path, PathBuf};
use std::sync::atomic::{AtomicU64, Ordering};
use std::time::Duration;

const KEYS: [&str; 3] = ["alpha", "b/\u{e9}", "k 2"];

/// Whether the generator draws the floats of the table that `serde_json` WITHOUT its `float_roundtrip` feature reads back
/// one ULP off (value indices 18, 19). The unfixed Cargo.toml of the repository (`serde_json = "1.0"`) restores them as a
/// different number (finding F-C20c, fix-C20c.patch enables the feature): set to `false` to run against such a tree.
const INEXACT_FLOATS_IN_POOL: bool = true;

/// number of entries of `values()`
const NVALS: usize = 27;

fn nest(depth: usize, leaf: Value) -> Value {
    let mut v = leaf;
    for d in 0..depth {
        v = if d % 3 == 2 {
            let mut m = HashMap::new();
            m.insert("k".to_string(), v);
            Value::Object(m)
        } else {
            Value::Array(vec![v])
        };
    }
    v
}

/// 0..9 ordinary values; 10..19 values at the edges of what JSON can carry, which `serde_json` still reads back exactly;
/// 20..26 values whose JSON text does NOT read back as a `HashMap<String, Value>` (`Model.lossyVal`): one of them in a
/// checkpoint makes `restore` of that checkpoint an error (never a partial state).
fn values() -> Vec<Value> {
    let mut obj = HashMap::new();
    obj.insert("x".to_string(), Value::Integer(1));
    let mut odd = HashMap::new();
    odd.insert(String::new(), Value::Null);
    odd.insert("a.b".to_string(), Value::Boolean(false));
    odd.insert("a/b\u{0}".to_string(), Value::String("Null".to_string()));
    odd.insert("Number".to_string(), Value::Number(1.0));
    odd.insert("\u{2028}".to_string(), nest(9, Value::Array(vec![])));
    let mut bad_obj = HashMap::new();
    bad_obj.insert(String::new(), Value::Null);
    bad_obj.insert("a.b".to_string(), Value::Number(f64::NAN));
    let mut inner = HashMap::new();
    inner.insert("k".to_string(), Value::Array(vec![Value::Number(f64::INFINITY)]));
    let v = vec![
        Value::Integer(0),
        Value::Integer(-7),
        Value::String("h\u{e9}llo \"q\" {}\n".to_string()),
        Value::Boolean(true),
        Value::Null,
        Value::Number(2.5),
        Value::Array(vec![Value::Integer(1), Value::String("a".to_string())]),
        Value::Object(obj),
        Value::Integer(i64::MAX),
        Value::String(String::new()),
        // 10..19: read back exactly
        Value::Number(-0.0),
        Value::Number(f64::MAX),
        Value::Number(5e-324),
        Value::Integer(i64::MIN),
        Value::String("x\u{e9}\u{1F600}".repeat(400)),
        Value::String("\u{0}\u{1}\u{1f}\u{7f}\u{80}\u{2028}\u{2029}\u{feff}\\ud800 \\u0000 null \u{10ffff}\t\r\n\"/\\".to_string()),
        Value::Expression("a + b".to_string()),
        Value::Object(odd),
        // read back exactly only by a `serde_json` built with `float_roundtrip` (0.1 added ten times; a price-like number)
        Value::Number(0.9999999999999999),
        Value::Number(434.29198722896365),
        // 20..26: do not read back
        Value::Number(f64::NAN),
        Value::Number(f64::INFINITY),
        Value::Number(f64::NEG_INFINITY),
        Value::Array(vec![Value::Integer(1), Value::Number(f64::NEG_INFINITY)]),
        Value::Object(bad_obj),
        nest(70, Value::Integer(1)),
        Value::Array(vec![Value::Array(vec![Value::Object(inner)])]),
    ];
    assert_eq!(v.len(), NVALS);
    v
}

/// the value indices a generator may draw besides 0..9; `short`: only those with a small JSON text (a crash analysis
/// restores at every byte offset of the file)
fn exotic_pool(short: bool) -> Vec<usize> {
    let mut p: Vec<usize> = vec![10, 11, 12, 13, 15, 16, 17, 20, 21, 22, 23, 24, 26];
    if !short {
        p.extend([14, 25]);
    }
    if INEXACT_FLOATS_IN_POOL {
        p.extend([18, 19]);
    }
    p
}

/// a value index: mostly ordinary (0..9), one in five from the exotic pool
fn pick_val(rng: &mut Rng, short: bool) -> usize {
    if rng.chance(1, 5) {
        *rng.pick(&exotic_pool(short))
    } else {
        rng.below(10) as usize
    }
}

/// identity of stored values: structural, numbers by BIT PATTERN (`PartialEq` would call NaN unequal to itself and
/// -0.0 equal to 0.0). `ulp`: numbers one ULP apart count as the same (only for the harness' own reading of a file).
fn same(a: &Value, b: &Value, ulp: bool) -> bool {
    match (a, b) {
        (Value::Number(x), Value::Number(y)) => {
            x.to_bits() == y.to_bits() || (ulp && x.is_finite() && y.is_finite() && (x.to_bits() as i128 - y.to_bits() as i128).abs() <= 1)
        }
        (Value::Array(x), Value::Array(y)) => x.len() == y.len() && x.iter().zip(y).all(|(p, q)| same(p, q, ulp)),
        (Value::Object(x), Value::Object(y)) => x.len() == y.len() && x.iter().all(|(k, p)| y.get(k).map_or(false, |q| same(p, q, ulp))),
        (Value::String(x), Value::String(y)) => x == y,
        (Value::Expression(x), Value::Expression(y)) => x == y,
        (Value::Integer(x), Value::Integer(y)) => x == y,
        (Value::Boolean(x), Value::Boolean(y)) => x == y,
        (Value::Null, Value::Null) => true,
        _ => false,
    }
}

fn code_of(v: &Value, tab: &[Value]) -> String {
    match tab.iter().position(|x| same(x, v, false)) {
        Some(i) => i.to_string(),
        None => "99".to_string(),
    }
}

/// the harness' own reading of a checkpoint file goes through a float parser that may be one ULP off
fn code_of_file(v: &Value, tab: &[Value]) -> String {
    match tab.iter().position(|x| same(x, v, false)).or_else(|| tab.iter().position(|x| same(x, v, true))) {
        Some(i) => i.to_string(),
        None => "99".to_string(),
    }
}

#[derive(Clone, Debug)]
enum Op {
    Put(usize, usize),
    PutTtl(usize, usize, u64),
    Update(usize, usize),
    Delete(usize),
    Clear,
    Cleanup,
    Checkpoint,
    Restore(usize),
    Advance(u64),
    Crash,
    FailCk,
    Event(usize, usize),
    Kill(u64),
    KillRestore(usize, u64),
    KillW(u64, u64, u64),
}

fn parse_op(s: &str) -> Option<Op> {
    let (h, rest) = s.split_at(1);
    let nums: Vec<u64> = if rest.is_empty() {
        vec![]
    } else {
        rest.split('.').map(|x| x.parse().ok()).collect::<Option<Vec<u64>>>()?
    };
    let k = |i: usize| -> Option<usize> {
        let v = *nums.get(i)? as usize;
        if v < 3 { Some(v) } else { None }
    };
    let v = |i: usize| -> Option<usize> {
        let v = *nums.get(i)? as usize;
        if v < NVALS { Some(v) } else { None }
    };
    Some(match (h, nums.len()) {
        ("P", 2) => Op::Put(k(0)?, v(1)?),
        ("T", 3) => Op::PutTtl(k(0)?, v(1)?, nums[2]),
        ("U", 2) => Op::Update(k(0)?, v(1)?),
        ("D", 1) => Op::Delete(k(0)?),
        ("X", 0) => Op::Clear,
        ("G", 0) => Op::Cleanup,
        ("C", 0) => Op::Checkpoint,
        ("K", 0) => Op::Crash,
        ("Z", 0) => Op::FailCk,
        ("E", 2) => Op::Event(k(0)?, v(1)?),
        ("R", 1) => Op::Restore(nums[0] as usize),
        ("Y", 1) => Op::Kill(nums[0]),
        ("V", 2) => Op::KillRestore(nums[0] as usize, nums[1]),
        ("W", 3) if nums[1] <= 5 => Op::KillW(nums[0], nums[1], nums[2]),
        ("A", 1) => Op::Advance(nums[0]),
        _ => return None,
    })
}

fn show_op(o: &Op) -> String {
    match o {
        Op::Put(k, v) => format!("P{}.{}", k, v),
        Op::PutTtl(k, v, t) => format!("T{}.{}.{}", k, v, t),
        Op::Update(k, v) => format!("U{}.{}", k, v),
        Op::Delete(k) => format!("D{}", k),
        Op::Clear => "X".into(),
        Op::Cleanup => "G".into(),
        Op::Checkpoint => "C".into(),
        Op::Crash => "K".into(),
        Op::FailCk => "Z".into(),
        Op::Event(k, v) => format!("E{}.{}", k, v),
        Op::Restore(i) => format!("R{}", i),
        Op::Kill(p) => format!("Y{}", p),
        Op::KillRestore(i, p) => format!("V{}.{}", i, p),
        Op::KillW(p, sel, a) => format!("W{}.{}.{}", p, sel, a),
        Op::Advance(d) => format!("A{}", d),
    }
}

struct Case {
    /// kind Q: real kill of a child process (implies `file`)
    real: bool,
    /// the file backend driven through `StatefulOperator` (implies `file`)
    oper: bool,
    file: bool,
    max_ck: usize,
    ttl: Option<u64>,
    ops: Vec<Op>,
}

fn parse_case(case: &str) -> Option<Case> {
    let t: Vec<&str> = case.split_whitespace().collect();
    if t.len() != 4 {
        return None;
    }
    let (file, oper) = match t[0] {
        "F" | "Q" => (true, false),
        "O" => (true, true),
        "M" => (false, false),
        _ => return None,
    };
    let real = t[0] == "Q";
    let max_ck = t[1].parse().ok()?;
    let ttl = if t[2] == "N" { None } else { Some(t[2].parse().ok()?) };
    let ops = if t[3] == "-" {
        vec![]
    } else {
        t[3].split(',').map(parse_op).collect::<Option<Vec<_>>>()?
    };
    // the injected I/O error needs a file to fail on
    if !file && ops.iter().any(|o| matches!(o, Op::FailCk)) {
        return None;
    }
    let kills = ops.iter().filter(|o| matches!(o, Op::Kill(_) | Op::KillRestore(..) | Op::KillW(..))).count();
    let special = ops.iter().any(|o| matches!(o, Op::Crash | Op::FailCk | Op::Event(..)));
    if (real && (kills != 1 || special)) || (!real && kills != 0) {
        return None;
    }
    Some(Case { real, oper, file, max_ck, ttl, ops })
}

fn show_case(c: &Case) -> String {
    format!(
        "{} {} {} {}",
        if c.real { "Q" } else if c.oper { "O" } else if c.file { "F" } else { "M" },
        c.max_ck,
        c.ttl.map(|t| t.to_string()).unwrap_or_else(|| "N".into()),
        if c.ops.is_empty() { "-".to_string() } else { c.ops.iter().map(show_op).collect::<Vec<_>>().join(",") }
    )
}

/// `checkpoint_<ms>_<seq>` -> `<ms>.<seq>`; `checkpoint_<ms>` -> `<ms>`; anything else hex
fn canon_id(id: &str) -> String {
    if let Some(rest) = id.strip_prefix("checkpoint_") {
        let parts: Vec<&str> = rest.split('_').collect();
        if !parts.is_empty() && parts.len() <= 2 && parts.iter().all(|p| !p.is_empty() && p.bytes().all(|b| b.is_ascii_digit())) {
            return parts.iter().map(|p| p.parse::<u128>().unwrap().to_string()).collect::<Vec<_>>().join(".");
        }
    }
    format!("x{}", hex(id))
}

fn id_sort_key(c: &str) -> (u128, u128, String) {
    let p: Vec<&str> = c.split('.').collect();
    let a = p.first().and_then(|x| x.parse().ok()).unwrap_or(u128::MAX);
    let b = p.get(1).and_then(|x| x.parse().ok()).unwrap_or(0);
    (a, b, c.to_string())
}

fn err_kind(e: &rust_rule_engine::RuleEngineError) -> &'static str {
    let m = format!("{}", e);
    if m.contains("has expired") {
        "expired"
    } else if m.contains("State key") {
        "missing"
    } else if m.contains("Failed to create checkpoint file") {
        "ckfile"
    } else if m.contains("Cannot restore from memory") {
        "memory"
    } else if m.contains("not found") {
        "notfound"
    } else if m.contains("Failed to read checkpoint") || m.contains("Failed to deserialize checkpoint") {
        "parse"
    } else {
        "other"
    }
}

/// sorted `k:v+k:v` of a map given by key name; `E` if empty
fn show_view(m: &BTreeMap<usize, String>) -> String {
    if m.is_empty() {
        "E".into()
    } else {
        m.iter().map(|(k, v)| format!("{}:{}", k, v)).collect::<Vec<_>>().join("+")
    }
}

fn key_index(name: &str) -> usize {
    KEYS.iter().position(|k| *k == name).unwrap_or(9)
}

fn store_view(s: &StateStore, tab: &[Value]) -> BTreeMap<usize, String> {
    let mut m = BTreeMap::new();
    for (i, k) in KEYS.iter().enumerate() {
        if let Ok(Some(v)) = s.get(k) {
            m.insert(i, code_of(&v, tab));
        }
    }
    m
}

/// directory tree of the backend: canonical id -> (raw dir name, Option<bytes of state.json>)
fn read_tree(root: &Path) -> BTreeMap<String, (String, Option<Vec<u8>>)> {
    let mut out = BTreeMap::new();
    if let Ok(rd) = fs::read_dir(root) {
        for e in rd.flatten() {
            let name = e.file_name().to_string_lossy().to_string();
            let f = e.path().join("state.json");
            let bytes = if f.is_file() { fs::read(&f).ok() } else { None };
            out.insert(canon_id(&name), (name, bytes));
        }
    }
    out
}

fn show_file(bytes: &Option<Vec<u8>>, tab: &[Value]) -> String {
    match bytes {
        None => "D".into(),
        Some(b) => match std::str::from_utf8(b).ok().and_then(|s| serde_json::from_str::<HashMap<String, Value>>(s).ok()) {
            None => "X".into(),
            Some(m) => {
                let mut v = BTreeMap::new();
                for (k, x) in m.iter() {
                    v.insert(key_index(k), code_of_file(x, tab));
                }
                show_view(&v)
            }
        },
    }
}

fn show_files(root: &Path, tab: &[Value]) -> String {
    let t = read_tree(root);
    if t.is_empty() {
        return "-".into();
    }
    let mut ids: Vec<&String> = t.keys().collect();
    ids.sort_by_key(|c| id_sort_key(c));
    ids.iter().map(|c| format!("{}={}", c, show_file(&t[*c].1, tab))).collect::<Vec<_>>().join(",")
}

fn observe(res: &str, s: &StateStore, root: Option<&Path>, tab: &[Value]) -> String {
    let gets: Vec<String> = KEYS
        .iter()
        .map(|k| match s.get(k) {
            Ok(Some(v)) => code_of(&v, tab),
            Ok(None) => "_".into(),
            Err(_) => "err".into(),
        })
        .collect();
    let mut keys: Vec<usize> = s.keys().iter().map(|k| key_index(k)).collect();
    keys.sort();
    // `contains` and `is_empty` must agree with `get` / `len`
    let contains_ok = KEYS.iter().all(|k| s.contains(k) == matches!(s.get(k), Ok(Some(_)))) && (s.is_empty() == (s.len() == 0));
    let metas = s.list_checkpoints();
    let latest_ok = s.latest_checkpoint().map(|m| m.id) == metas.last().map(|m| m.id.clone())
        && s.statistics().checkpoint_count == metas.len()
        && s.statistics().active_entries == s.len();
    let metas_s = if metas.is_empty() {
        "-".to_string()
    } else {
        metas.iter().map(|m| format!("{}:{}", canon_id(&m.id), m.entry_count)).collect::<Vec<_>>().join(",")
    };
    format!(
        "{}{}/{}/{}/{}/{}/{}",
        res,
        if contains_ok && latest_ok { "" } else { "!incoherent" },
        gets.join(","),
        join_nums(&keys),
        s.len(),
        metas_s,
        root.map(|r| show_files(r, tab)).unwrap_or_else(|| "-".into())
    )
}

static COUNTER: AtomicU64 = AtomicU64::new(0);

fn fresh_dir(tag: &str) -> PathBuf {
    let n = COUNTER.fetch_add(1, Ordering::SeqCst);
    // a private directory on a real file system; tmpfs when available (7x faster), else the temp dir
    let base = if Path::new("/dev/shm").is_dir() { PathBuf::from("/dev/shm") } else { std::env::temp_dir() };
    let p = base.join(format!("rre_c20_{}_{}_{}", std::process::id(), tag, n));
    let _ = fs::remove_dir_all(&p);
    fs::create_dir_all(&p).unwrap();
    p
}

struct DirGuard(Vec<PathBuf>);
impl Drop for DirGuard {
    fn drop(&mut self) {
        for p in &self.0 {
            let _ = fs::remove_dir_all(p);
        }
        verif_clock::set_ms(None);
    }
}

type Tree = BTreeMap<String, (String, Option<Vec<u8>>)>;

fn materialise(root: &Path, t: &Tree) {
    let _ = fs::remove_dir_all(root);
    fs::create_dir_all(root).unwrap();
    for (_, (name, bytes)) in t.iter() {
        let d = root.join(name);
        fs::create_dir_all(&d).unwrap();
        if let Some(b) = bytes {
            fs::write(d.join("state.json"), b).unwrap();
        }
    }
}

/// crash analysis of the checkpoint that turned directory `before` into `after` and returned `raw_id`:
/// every intermediate directory state in the code's step order, restored by a fresh store.
fn crash_probe(before: &Tree, after: &Tree, raw_id: &str, full_view: &BTreeMap<usize, String>, tab: &[Value], scratch: &Path, now: u64) -> String {
    let cid = canon_id(raw_id);
    let bytes: Vec<u8> = match after.get(&cid).and_then(|x| x.1.clone()) {
        Some(b) => b,
        None => return "nofile".into(),
    };
    let victims: Vec<String> = before.keys().filter(|k| !after.contains_key(*k) && **k != cid).cloned().collect();
    let mut states: Vec<Tree> = Vec::new();
    // 0: nothing happened yet; 1: create_dir_all done
    states.push(before.clone());
    let mut s = before.clone();
    if !s.contains_key(&cid) {
        s.insert(cid.clone(), (raw_id.to_string(), None));
    }
    states.push(s.clone());
    // File::create (truncate) and every prefix written by write_all
    for n in 0..=bytes.len() {
        let mut t = s.clone();
        t.insert(cid.clone(), (raw_id.to_string(), Some(bytes[..n].to_vec())));
        states.push(t);
    }
    // retention: remove_dir_all(oldest) = unlink state.json, then rmdir
    let mut t = s.clone();
    t.insert(cid.clone(), (raw_id.to_string(), Some(bytes.clone())));
    for v in &victims {
        let raw = t[v].0.clone();
        t.insert(v.clone(), (raw, None));
        states.push(t.clone());
        t.remove(v);
        states.push(t.clone());
    }
    // optional statistics for reports: C20_STATS=<file> appends "<crash states> <file bytes>" per analysis
    if let Ok(p) = std::env::var("C20_STATS") {
        use std::io::Write;
        if let Ok(mut f) = fs::OpenOptions::new().create(true).append(true).open(p) {
            let _ = writeln!(f, "{} {}", states.len(), bytes.len());
        }
    }
    let mut out: Vec<String> = Vec::new();
    for st in &states {
        materialise(scratch, st);
        // a store after a restart, holding sentinel entries
        let mut fresh = StateStore::with_config(StateConfig {
            backend: StateBackend::File { path: scratch.to_path_buf() },
            ..Default::default()
        });
        verif_clock::set_ms(Some(now));
        fresh.put(KEYS[0], tab[1].clone()).unwrap();
        fresh.put(KEYS[2], tab[3].clone()).unwrap();
        let sentinel = store_view(&fresh, tab);
        let r = fresh.restore(raw_id);
        let v = store_view(&fresh, tab);
        let rs = match r {
            Ok(()) => format!("ok={}", show_view(&v)),
            Err(e) => format!("{}={}", err_kind(&e), if v == sentinel && fresh.len() == sentinel.len() { "u" } else { "c" }),
        };
        // earlier checkpoints as the (restarted) process sees them on disk after the restore attempt
        let disk = read_tree(scratch);
        let mut intact = true;
        for (e, (_, b)) in before.iter() {
            if *e == cid {
                // the interrupted id coincides with an earlier checkpoint's directory: its content must survive
                if disk.get(e).map(|x| &x.1) != Some(b) {
                    intact = false;
                }
                continue;
            }
            let now_b = disk.get(e).map(|x| x.1.clone());
            let same = now_b.as_ref() == Some(b);
            let removed_ok = victims.contains(e) && (now_b.is_none() || now_b == Some(None));
            if !(same || removed_ok) {
                intact = false;
            }
        }
        let _ = full_view;
        let entry = format!("{}~{}", rs, if intact { "I" } else { "B" });
        if out.last() != Some(&entry) {
            out.push(entry);
        }
    }
    out.join(",")
}

type ProcessFn = fn(&mut StateStore, &StreamEvent) -> StateResult<Option<Value>>;

/// the operator's process function: `put(event.data["k"], event.data["v"])`
fn process_put(st: &mut StateStore, ev: &StreamEvent) -> StateResult<Option<Value>> {
    let k = match ev.data.get("k") {
        Some(Value::String(k)) => k.clone(),
        _ => return Ok(None),
    };
    let v = ev.data.get("v").cloned().unwrap_or(Value::Null);
    st.put(k, v.clone())?;
    Ok(Some(v))
}

/// the system under test: a `StateStore`, or the `StatefulOperator` that owns one
enum Sut {
    Store(StateStore),
    Oper(StatefulOperator<ProcessFn>),
}

impl Sut {
    fn st(&self) -> &StateStore {
        match self {
            Sut::Store(s) => s,
            Sut::Oper(o) => o.state(),
        }
    }
    fn st_mut(&mut self) -> &mut StateStore {
        match self {
            Sut::Store(s) => s,
            Sut::Oper(o) => o.state_mut(),
        }
    }
    fn checkpoint(&mut self, name: String) -> StateResult<String> {
        match self {
            Sut::Store(s) => s.checkpoint(name),
            Sut::Oper(o) => o.checkpoint(name),
        }
    }
    fn restore(&mut self, id: &str) -> StateResult<()> {
        match self {
            Sut::Store(s) => s.restore(id),
            Sut::Oper(o) => o.restore(id),
        }
    }
    fn event(&mut self, k: &str, v: Value) -> StateResult<()> {
        match self {
            Sut::Store(s) => s.put(k, v),
            Sut::Oper(o) => {
                let mut data = HashMap::new();
                data.insert("k".to_string(), Value::String(k.to_string()));
                data.insert("v".to_string(), v);
                o.process(&StreamEvent::new("E", data, "c20")).map(|_| ())
            }
        }
    }
}

fn open_store(c: &Case, root: &Path) -> StateStore {
    StateStore::with_config(StateConfig {
        backend: StateBackend::File { path: root.to_path_buf() },
        max_checkpoints: c.max_ck,
        enable_ttl: c.ttl.is_some(),
        default_ttl: Duration::from_millis(c.ttl.unwrap_or(3_600_000)),
        ..Default::default()
    })
}

/// the plain ops of kind Q on a bare store; returns the `res` field
fn apply_plain(s: &mut StateStore, op: &Op, tab: &[Value], now: &mut u64, ids: &mut Vec<String>) -> String {
    let unit = |r: Result<(), rust_rule_engine::RuleEngineError>| match r {
        Ok(()) => "ok".to_string(),
        Err(e) => format!("err:{}", err_kind(&e)),
    };
    match op {
        Op::Put(k, v) => unit(s.put(KEYS[*k], tab[*v].clone())),
        Op::PutTtl(k, v, t) => unit(s.put_with_ttl(KEYS[*k], tab[*v].clone(), Duration::from_millis(*t))),
        Op::Update(k, v) => unit(s.update(KEYS[*k], tab[*v].clone())),
        Op::Delete(k) => unit(s.delete(KEYS[*k])),
        Op::Clear => unit(s.clear()),
        Op::Cleanup => {
            s.cleanup_expired();
            "ok".into()
        }
        Op::Advance(d) => {
            *now += d;
            verif_clock::set_ms(Some(*now));
            "ok".into()
        }
        Op::Restore(i) => {
            let id = ids.get(*i).cloned().unwrap_or_else(|| "checkpoint_nonexistent".to_string());
            unit(s.restore(&id))
        }
        Op::Checkpoint => match s.checkpoint(format!("cp{}", ids.len())) {
            Ok(id) => {
                let r = format!("ok:{}", canon_id(&id));
                ids.push(id);
                r
            }
            Err(e) => format!("err:{}", err_kind(&e)),
        },
        _ => "bad-op".into(),
    }
}

/// the byte offset at which the hook splits the write, chosen from the REAL serialised bytes (see the header)
fn choose_offset(sel: u64, a: u64, b: &[u8]) -> usize {
    let len = b.len();
    let a = a as usize;
    let nth = |c: Vec<usize>| if c.is_empty() { len / 2 } else { c[a % c.len()] };
    let num = |c: u8| c.is_ascii_digit() || matches!(c, b'.' | b'e' | b'E' | b'-' | b'+');
    match sel {
        0 => a.min(len.saturating_sub(1)),
        1 => len - a.min(len),
        2 => len * a.min(32) / 32,
        3 => nth((1..len).filter(|&k| b[k] & 0xC0 == 0x80).collect()),
        4 => nth((1..len).filter(|&k| num(b[k - 1]) && num(b[k]) && (b[k - 1].is_ascii_digit() || b[k].is_ascii_digit())).collect()),
        _ => nth((1..len).filter(|&k| b[k - 1] == b'\\').collect()),
    }
}

/// where the child's split chooser saves the complete text it was about to write (a sibling of the backend directory)
fn side_file(root: &Path) -> PathBuf {
    PathBuf::from(format!("{}.full", root.display()))
}

/// after a restart: a NEW store on `root` holding the sentinel entries restores `id`
fn probe_restore(root: &Path, id: &str, now: u64, tab: &[Value]) -> String {
    verif_clock::set_ms(Some(now));
    let mut fresh = StateStore::with_config(StateConfig { backend: StateBackend::File { path: root.to_path_buf() }, ..Default::default() });
    fresh.put(KEYS[0], tab[1].clone()).unwrap();
    fresh.put(KEYS[2], tab[3].clone()).unwrap();
    let sentinel = store_view(&fresh, tab);
    let r = fresh.restore(id);
    let v = store_view(&fresh, tab);
    match r {
        Ok(()) => format!("ok={}", show_view(&v)),
        Err(e) => format!("{}={}", err_kind(&e), if v == sentinel && fresh.len() == sentinel.len() { "u" } else { "c" }),
    }
}

fn say(line: &str) {
    use std::io::Write;
    let o = std::io::stdout();
    let mut o = o.lock();
    let _ = writeln!(o, "{}", line);
    let _ = o.flush();
}

/// `c20 crash-child <dir> <case>`: the first life of a kind-Q case. One observation line per completed call (flushed at
/// once), `#id <raw id>` after every checkpoint; inside the kill op the armed crash point aborts the process.
fn child_main(dir: &str, case: &str) -> ! {
    let Some(c) = parse_case(case) else { std::process::exit(3) };
    let tab = values();
    let root = PathBuf::from(dir);
    let mut now: u64 = 0;
    verif_clock::set_ms(Some(now));
    let mut s = open_store(&c, &root);
    let mut ids: Vec<String> = Vec::new();
    for op in &c.ops {
        match op {
            Op::Kill(p) => {
                verif_crash::arm(Some(*p));
                let r = s.checkpoint(format!("cp{}", ids.len()));
                verif_crash::arm(None);
                match r {
                    Ok(id) => say(&format!("#exit {}", id)),
                    Err(e) => say(&format!("#exit-err {}", err_kind(&e))),
                }
                std::process::exit(0);
            }
            Op::KillW(p, sel, a) => {
                // the real `write_all` in two steps around a crash point: the chooser sees the real bytes, saves them
                // beside the backend directory and returns the split offset
                let side = side_file(&root);
                let (sel, a) = (*sel, *a);
                verif_crash::arm_split(Some(Box::new(move |bytes: &[u8]| {
                    let _ = fs::write(&side, bytes);
                    choose_offset(sel, a, bytes)
                })));
                verif_crash::arm(Some(*p));
                let r = s.checkpoint(format!("cp{}", ids.len()));
                verif_crash::arm(None);
                verif_crash::arm_split(None);
                match r {
                    Ok(id) => say(&format!("#exit {}", id)),
                    Err(e) => say(&format!("#exit-err {}", err_kind(&e))),
                }
                std::process::exit(0);
            }
            Op::KillRestore(i, p) => {
                let id = ids.get(*i).cloned().unwrap_or_else(|| "checkpoint_nonexistent".to_string());
                verif_crash::arm(Some(*p));
                let _ = s.restore(&id);
                verif_crash::arm(None);
                say("#exit -");
                std::process::exit(0);
            }
            _ => {
                let n = ids.len();
                let res = apply_plain(&mut s, op, &tab, &mut now, &mut ids);
                if ids.len() > n {
                    say(&format!("#id {}", ids[n]));
                }
                say(&observe(&res, &s, Some(&root), &tab));
            }
        }
    }
    std::process::exit(0)
}

/// kind Q: first life in a child process that is really killed, post-mortem by the parent, second life on a new store
fn exec_real(c: &Case, case: &str) -> String {
    use std::os::unix::process::ExitStatusExt;
    let tab = values();
    let root = fresh_dir("q");
    let scratch = fresh_dir("w");
    let side = side_file(&root);
    let _guard = DirGuard(vec![root.clone(), scratch.clone()]);
    struct FileGuard(PathBuf);
    impl Drop for FileGuard {
        fn drop(&mut self) {
            let _ = fs::remove_file(&self.0);
        }
    }
    let _side_guard = FileGuard(side.clone());
    let exe = match std::env::current_exe() {
        Ok(e) => e,
        Err(_) => return "no-exe".into(),
    };
    let out = match std::process::Command::new(exe).arg("crash-child").arg(&root).arg(case).output() {
        Ok(o) => o,
        Err(_) => return "spawn-failed".into(),
    };
    let dead = out.status.signal() == Some(6);
    if !dead && !out.status.success() {
        return format!("child-failed:{}", hex(&format!("{:?}", out.status)));
    }
    let mut steps: Vec<String> = Vec::new();
    let mut ids: Vec<String> = Vec::new();
    let mut completed: Option<String> = None;
    for l in String::from_utf8_lossy(&out.stdout).lines() {
        if let Some(id) = l.strip_prefix("#id ") {
            ids.push(id.to_string());
        } else if let Some(id) = l.strip_prefix("#exit ") {
            completed = Some(id.to_string());
        } else if l.starts_with('#') {
        } else {
            steps.push(l.to_string());
        }
    }
    let kpos = c.ops.iter().position(|o| matches!(o, Op::Kill(_) | Op::KillRestore(..) | Op::KillW(..))).unwrap();
    if steps.len() != kpos || dead == completed.is_some() {
        return format!("child-protocol:{}:{}", steps.len(), dead);
    }
    let mut now: u64 = c.ops[..kpos].iter().map(|o| if let Op::Advance(d) = o { *d } else { 0 }).sum();
    let armed = match &c.ops[kpos] {
        Op::Kill(p) | Op::KillRestore(_, p) | Op::KillW(p, ..) => *p,
        _ => 0,
    };
    // killed at the point inside the write: `partial:<bytes written>/<bytes in all>`
    let mut partial: Option<(usize, usize)> = None;
    // `@<n> <label>`: the crash point that killed the child
    let head = if dead {
        let e = String::from_utf8_lossy(&out.stderr);
        let l = e.lines().rev().find(|l| l.starts_with('@')).unwrap_or("@? ?").to_string();
        let mut it = l[1..].split(' ');
        let n = it.next().unwrap_or("?");
        let mut label = it.next().unwrap_or("?");
        if let Some((l0, kl)) = label.split_once(':') {
            if let Some((k, len)) = kl.split_once('/') {
                if let (Ok(k), Ok(len)) = (k.parse(), len.parse()) {
                    partial = Some((k, len));
                    label = l0;
                }
            }
        }
        if n == armed.to_string() { format!("dead@{}", label) } else { format!("dead@{}#{}", label, n) }
    } else {
        "exit".to_string()
    };
    // the id under way when the child died: the one directory nobody reported, else (nothing on disk yet) the id the
    // scheme of the code under test gives the next call; a completed call reported it itself
    if matches!(c.ops[kpos], Op::Kill(_) | Op::KillW(..)) {
        let under_way = match completed {
            Some(id) => id,
            None => {
                let t = read_tree(&root);
                let extra: Vec<String> = t.values().map(|x| x.0.clone()).filter(|n| !ids.contains(n)).collect();
                if extra.len() == 1 { extra[0].clone() } else { format!("checkpoint_{}_{:06}", now, ids.len()) }
            }
        };
        ids.push(under_way);
    }
    let files = show_files(&root, &tab);
    let mut probes: Vec<String> = Vec::new();
    for id in &ids {
        probes.push(format!("{}>{}", canon_id(id), probe_restore(&root, id, now, &tab)));
    }
    let mut kill_step = format!("{}/{}/{}", head, files, if probes.is_empty() { "-".to_string() } else { probes.join(",") });
    if let Op::KillW(_, sel, a) = c.ops[kpos] {
        kill_step.push('/');
        match (partial, ids.last()) {
            (Some((k, len)), Some(raw_id)) => {
                // the child died INSIDE write_all. What it left must be exactly the first k bytes of the text it was writing;
                // and the same truncation point REBUILT the way the `K` analysis rebuilds it must restore alike.
                let full = fs::read(&side).unwrap_or_default();
                let tree = read_tree(&root);
                let cid = canon_id(raw_id);
                let on_disk: Option<Vec<u8>> = tree.get(&cid).and_then(|x| x.1.clone());
                let exact = full.len() == len
                    && k <= len
                    && k == choose_offset(sel, a, &full)
                    && on_disk.as_deref() == Some(&full[..k.min(full.len())]);
                let mut rebuilt = tree.clone();
                rebuilt.insert(cid, (raw_id.clone(), Some(full[..k.min(full.len())].to_vec())));
                materialise(&scratch, &rebuilt);
                kill_step.push_str(&format!("{}:{}", if exact { "P" } else { "N" }, probe_restore(&scratch, raw_id, now, &tab)));
                if let Ok(p) = std::env::var("C20_STATS") {
                    use std::io::Write;
                    if let Ok(mut f) = fs::OpenOptions::new().create(true).append(true).open(p) {
                        let _ = writeln!(f, "W {} {}", k, len);
                    }
                }
            }
            _ => kill_step.push('-'),
        }
    }
    steps.push(kill_step);
    // second life: a NEW store on the directory the child left
    verif_clock::set_ms(Some(now));
    let mut s = open_store(c, &root);
    for op in &c.ops[kpos + 1..] {
        let res = apply_plain(&mut s, op, &tab, &mut now, &mut ids);
        steps.push(observe(&res, &s, Some(&root), &tab));
    }
    steps.join(";")
}

fn exec(case: &str) -> String {
    let Some(c) = parse_case(case) else { return "bad-case".into() };
    if c.real {
        return exec_real(&c, case);
    }
    let tab = values();
    let root = fresh_dir("s");
    let scratch = fresh_dir("c");
    let _guard = DirGuard(vec![root.clone(), scratch.clone()]);
    let mut now: u64 = 0;
    verif_clock::set_ms(Some(now));
    let backend = if c.file { StateBackend::File { path: root.clone() } } else { StateBackend::Memory };
    let store = StateStore::with_config(StateConfig {
        backend,
        max_checkpoints: c.max_ck,
        enable_ttl: c.ttl.is_some(),
        default_ttl: Duration::from_millis(c.ttl.unwrap_or(3_600_000)),
        ..Default::default()
    });
    let mut s = if c.oper { Sut::Oper(StatefulOperator::new(store, process_put as ProcessFn)) } else { Sut::Store(store) };
    // number of `checkpoint` calls made on the store so far (= its `checkpoint_seq`), failed ones included
    let mut ck_calls: u64 = 0;
    let rootp: Option<&Path> = if c.file { Some(root.as_path()) } else { None };
    let mut ids: Vec<String> = Vec::new();
    let mut steps: Vec<String> = Vec::new();
    let unit = |r: Result<(), rust_rule_engine::RuleEngineError>| match r {
        Ok(()) => "ok".to_string(),
        Err(e) => format!("err:{}", err_kind(&e)),
    };
    for op in &c.ops {
        let mut crash = None;
        let res = match op {
            Op::Put(k, v) => unit(s.st_mut().put(KEYS[*k], tab[*v].clone())),
            Op::PutTtl(k, v, t) => unit(s.st_mut().put_with_ttl(KEYS[*k], tab[*v].clone(), Duration::from_millis(*t))),
            Op::Update(k, v) => unit(s.st_mut().update(KEYS[*k], tab[*v].clone())),
            Op::Delete(k) => unit(s.st_mut().delete(KEYS[*k])),
            Op::Clear => unit(s.st_mut().clear()),
            Op::Cleanup => {
                s.st_mut().cleanup_expired();
                "ok".into()
            }
            Op::Event(k, v) => unit(s.event(KEYS[*k], tab[*v].clone())),
            Op::FailCk => {
                // occupy the data file's path of the id the next checkpoint will use with a directory
                let dir = root.join(format!("checkpoint_{}_{:06}", now, ck_calls));
                let obstacle = dir.join("state.json");
                fs::create_dir_all(&obstacle).unwrap();
                ck_calls += 1;
                let r = s.checkpoint(format!("cp{}", ids.len()));
                let _ = fs::remove_dir(&obstacle);
                match r {
                    // the injection missed (another id scheme): an ordinary checkpoint — reported as such
                    Ok(id) => {
                        let _ = fs::remove_dir(&dir);
                        let r = format!("ok:{}", canon_id(&id));
                        ids.push(id);
                        r
                    }
                    Err(e) => format!("err:{}", err_kind(&e)),
                }
            }
            Op::Advance(d) => {
                now += d;
                verif_clock::set_ms(Some(now));
                "ok".into()
            }
            Op::Restore(i) => {
                let id = ids.get(*i).cloned().unwrap_or_else(|| "checkpoint_nonexistent".to_string());
                unit(s.restore(&id))
            }
            Op::Kill(_) | Op::KillRestore(..) | Op::KillW(..) => "bad-op".into(),
            Op::Checkpoint | Op::Crash => {
                let before = if c.file { read_tree(&root) } else { Tree::new() };
                let view = store_view(s.st(), &tab);
                ck_calls += 1;
                match s.checkpoint(format!("cp{}", ids.len())) {
                    Ok(id) => {
                        if matches!(op, Op::Crash) {
                            crash = Some(if c.file {
                                let after = read_tree(&root);
                                let r = crash_probe(&before, &after, &id, &view, &tab, &scratch, now);
                                verif_clock::set_ms(Some(now));
                                r
                            } else {
                                "-".to_string()
                            });
                        }
                        let r = format!("ok:{}", canon_id(&id));
                        ids.push(id);
                        r
                    }
                    Err(e) => format!("err:{}", err_kind(&e)),
                }
            }
        };
        let mut o = observe(&res, s.st(), rootp, &tab);
        if let Some(cr) = crash {
            o.push('/');
            o.push_str(&cr);
        }
        steps.push(o);
        if matches!(op, Op::Crash) {
            break;
        }
    }
    if steps.is_empty() { "-".into() } else { steps.join(";") }
}

/// length of the `state.json` a checkpoint after these ops (puts / deletes / clear, no TTL) would write - only used by the
/// generator to decide how many split offsets are worth trying (the selectors clamp, so a wrong guess costs nothing)
fn estimated_file_len(pre: &[Op]) -> usize {
    let tab = values();
    let mut m: HashMap<String, Value> = HashMap::new();
    for o in pre {
        match o {
            Op::Put(k, v) => {
                m.insert(KEYS[*k].to_string(), tab[*v].clone());
            }
            Op::Update(k, v) if m.contains_key(KEYS[*k]) => {
                m.insert(KEYS[*k].to_string(), tab[*v].clone());
            }
            Op::Delete(k) => {
                m.remove(KEYS[*k]);
            }
            Op::Clear => m.clear(),
            _ => {}
        }
    }
    serde_json::to_string_pretty(&m).map(|s| s.len()).unwrap_or(64)
}

/// the (selector, argument) pairs of the split-write family for a file of about `len` bytes: EVERY offset 0..len of a small
/// file; for a large one 33 evenly spread offsets incl. 0 and len, offsets 1 and len-1, and offsets inside multi-byte
/// characters, inside numbers and behind backslashes
fn split_offsets(len: usize) -> Vec<(u64, u64)> {
    let mut v: Vec<(u64, u64)> = Vec::new();
    if len <= 64 {
        for a in 0..len.max(2) as u64 - 1 {
            v.push((0, a));
        }
        v.push((1, 1));
        v.push((1, 0));
    } else {
        for a in 0..=32u64 {
            v.push((2, a));
        }
        v.extend([(0, 1), (1, 1), (1, 0), (3, 0), (3, 1), (3, 7), (4, 0), (4, 1), (4, 5), (5, 0), (5, 3)]);
    }
    v
}

fn random_op(rng: &mut Rng, n_ck: usize, short: bool) -> Op {
    let k = rng.below(3) as usize;
    let v = pick_val(rng, short);
    match rng.below(20) {
        0..=3 => Op::Put(k, v),
        4..=6 => Op::PutTtl(k, v, *rng.pick(&[0u64, 1, 2, 5, 10])),
        7..=8 => Op::Update(k, v),
        9 => Op::Delete(k),
        10..=13 => Op::Checkpoint,
        14..=16 => {
            if n_ck == 0 && rng.chance(7, 10) {
                Op::Checkpoint
            } else {
                Op::Restore(if n_ck > 0 && rng.chance(9, 10) { rng.below(n_ck as u64) as usize } else { n_ck + rng.below(2) as usize })
            }
        }
        17..=18 => Op::Advance(*rng.pick(&[0u64, 1, 1, 2, 5, 11])),
        _ => {
            if rng.chance(1, 2) { Op::Cleanup } else { Op::Clear }
        }
    }
}

fn gen(rng: &mut Rng, n: usize, tier: &str) -> Vec<String> {
    let mut out = Vec::new();
    // exhaustive part: every sequence of length <= L over a small alphabet, file backend, maxCk = 2,
    // closed by a checkpoint under crash analysis
    let alpha: Vec<Op> = vec![
        Op::Put(0, 1),
        Op::PutTtl(1, 2, 1),
        Op::Update(0, 5),
        Op::Delete(0),
        Op::Checkpoint,
        Op::Restore(0),
        Op::Restore(1),
        Op::Advance(2),
    ];
    let l = if tier == "thorough" { 4 } else { 3 };
    let mut frontier: Vec<Vec<Op>> = vec![vec![]];
    let mut all: Vec<Vec<Op>> = vec![vec![]];
    for _ in 0..l {
        let mut next = Vec::new();
        for s in &frontier {
            for o in &alpha {
                let mut s2 = s.clone();
                s2.push(o.clone());
                next.push(s2);
            }
        }
        all.extend(next.iter().cloned());
        frontier = next;
    }
    for s in &all {
        let mut ops = s.clone();
        ops.push(Op::Crash);
        out.push(show_case(&Case { real: false, oper: false, file: true, max_ck: 2, ttl: None, ops }));
    }
    // the twin entry points: every sequence of length <= 3 over {put via state_mut, put via process, delete, checkpoint,
    // restore #0, restore #1} on a StatefulOperator (its checkpoint / restore must behave as the store's own, whatever
    // path the edits in between took)
    let alpha_o: Vec<Op> = vec![Op::Put(0, 1), Op::Event(0, 5), Op::Delete(0), Op::Checkpoint, Op::Restore(0), Op::Restore(1)];
    let mut frontier: Vec<Vec<Op>> = vec![vec![]];
    for _ in 0..3 {
        let mut next = Vec::new();
        for s in &frontier {
            for o in &alpha_o {
                let mut s2 = s.clone();
                s2.push(o.clone());
                next.push(s2);
            }
        }
        for ops in &next {
            out.push(show_case(&Case { real: false, oper: true, file: true, max_ck: 2, ttl: None, ops: ops.clone() }));
        }
        frontier = next;
    }
    // values whose JSON text does not read back (NaN = 20, an array holding -inf = 23, +inf = 21), next to an ordinary
    // key: every sequence of length <= 3 over {put NaN, put nested -inf under another key, update to +inf, delete, put
    // ordinary, checkpoint, restore #0, restore #1} after `put key0`, closed by a crash analysis. A checkpoint that holds
    // such a value must restore as an error with the live state untouched, never with the other keys only.
    let alpha_l: Vec<Op> = vec![
        Op::Put(1, 20),
        Op::Put(2, 23),
        Op::Update(1, 21),
        Op::Delete(1),
        Op::Put(1, 5),
        Op::Checkpoint,
        Op::Restore(0),
        Op::Restore(1),
    ];
    let mut frontier: Vec<Vec<Op>> = vec![vec![Op::Put(0, 1)]];
    for _ in 0..3 {
        let mut next = Vec::new();
        for s in &frontier {
            for o in &alpha_l {
                let mut s2 = s.clone();
                s2.push(o.clone());
                next.push(s2);
            }
        }
        for ops in &next {
            let mut ops = ops.clone();
            ops.push(Op::Crash);
            out.push(show_case(&Case { real: false, oper: false, file: true, max_ck: 2, ttl: None, ops }));
        }
        frontier = next;
    }
    // value sweep: EVERY entry of the value table (edge values that read back exactly; values that do not) stored next to
    // ordinary keys — by put / put_with_ttl / update / a process() event —, checkpointed, the store edited, the checkpoint
    // restored (complete state, or an error and the edited state untouched), a second checkpoint of the restored state
    // restored in turn; on the store, through the operator, and with a real kill after the file is written
    for v in 0..NVALS {
        if !INEXACT_FLOATS_IN_POOL && (v == 18 || v == 19) {
            continue;
        }
        let long = v == 14 || v == 25;
        for variant in 0..4usize {
            let oper = variant == 3;
            let mut ops = vec![Op::Put(0, 1)];
            ops.push(match variant {
                0 => Op::Put(1, v),
                1 => Op::PutTtl(1, v, 50),
                2 => Op::Put(1, 0),
                _ => Op::Event(1, v),
            });
            if variant == 2 {
                ops.push(Op::Update(1, v));
            }
            ops.push(Op::Put(2, 5));
            ops.push(Op::Checkpoint);
            ops.push(Op::Delete(0));
            ops.push(Op::Put(2, 3));
            if variant == 1 {
                ops.push(Op::Advance(2));
            }
            ops.push(Op::Restore(0));
            ops.push(Op::Checkpoint);
            ops.push(Op::Delete(2));
            ops.push(Op::Restore(1));
            if !long {
                ops.push(Op::Crash);
            }
            out.push(show_case(&Case { real: false, oper, file: true, max_ck: 10, ttl: None, ops }));
        }
        // two exotic values in one checkpoint (v and its neighbour in the table)
        let w = if v + 1 < NVALS { v + 1 } else { 10 };
        if !(!INEXACT_FLOATS_IN_POOL && (w == 18 || w == 19)) {
            let ops = vec![Op::Put(0, v), Op::Put(1, w), Op::Put(2, 2), Op::Checkpoint, Op::Clear, Op::Put(1, 4), Op::Restore(0)];
            out.push(show_case(&Case { real: false, oper: false, file: true, max_ck: 2, ttl: None, ops }));
        }
        // real kill at the points after the file is complete (write, push, stamp) and past the end; a new store restores it
        if v >= 10 {
            for p in [3u64, 4, 5, 9] {
                let ops = vec![Op::Put(0, 1), Op::Put(1, v), Op::Kill(p), Op::Advance(1), Op::Put(2, 6), Op::Restore(0), Op::Checkpoint, Op::Restore(1)];
                out.push(show_case(&Case { real: true, oper: false, file: true, max_ck: 2, ttl: None, ops }));
            }
        }
    }
    // random part: length <= 10, both backends, retention bounds 0..3 and 10, with / without default TTL
    for _ in 0..n {
        let file = rng.chance(9, 10);
        let max_ck = *rng.pick(&[0usize, 1, 2, 2, 3, 3, 10, 10]);
        let ttl = if rng.chance(1, 4) { Some(*rng.pick(&[0u64, 1, 3, 10])) } else { None };
        let with_crash = file && max_ck >= 1 && rng.chance(1, 3);
        // a quarter of the file-backend histories go through the twin StatefulOperator
        let oper = file && rng.chance(1, 4);
        let len = rng.range(1, if with_crash { 9 } else { 10 }) as usize;
        let mut ops = Vec::new();
        let mut n_ck = 0;
        for _ in 0..len {
            let mut o = random_op(rng, n_ck, with_crash);
            // one checkpoint in ten (file backend) is interrupted by an I/O error; a third of the puts are events
            if file && matches!(o, Op::Checkpoint) && rng.chance(1, 10) {
                o = Op::FailCk;
            }
            if let Op::Put(k, v) = o {
                if rng.chance(1, 3) {
                    o = Op::Event(k, v);
                }
            }
            if matches!(o, Op::Checkpoint) {
                n_ck += 1;
            }
            ops.push(o);
        }
        if with_crash {
            ops.push(Op::Crash);
        }
        out.push(show_case(&Case { real: false, oper, file, max_ck, ttl, ops }));
    }
    // interrupted-checkpoint family: a history that fills (or nearly fills, or overfills) the retention bound, then a
    // checkpoint that fails with an I/O error, then every earlier checkpoint is restored (still listed ones must
    // reproduce their state, the history and the files must be what they were), then life goes on
    for _ in 0..n / 8 {
        let max_ck = *rng.pick(&[1usize, 1, 2, 2, 3, 10]);
        let oper = rng.chance(1, 4);
        let n_before = match rng.below(6) {
            0 => max_ck.min(3).saturating_sub(1),
            1 => (max_ck + 1).min(4),
            _ => max_ck.min(3),
        };
        let mut ops = Vec::new();
        for i in 0..n_before {
            ops.push(Op::Put(rng.below(3) as usize, pick_val(rng, true)));
            if rng.chance(1, 3) {
                ops.push(Op::Advance(rng.range(0, 2)));
            }
            ops.push(Op::Checkpoint);
            if i + 1 == n_before && rng.chance(1, 2) {
                ops.push(Op::Put(rng.below(3) as usize, pick_val(rng, true)));
            }
        }
        ops.push(Op::FailCk);
        if rng.chance(1, 4) {
            ops.push(Op::FailCk);
        }
        let mut order: Vec<usize> = (0..n_before).collect();
        rng.shuffle(&mut order);
        for i in order {
            ops.push(Op::Restore(i));
        }
        match rng.below(3) {
            0 => {
                ops.push(Op::Checkpoint);
                ops.push(Op::Restore(n_before));
            }
            1 => ops.push(Op::Crash),
            _ => {}
        }
        out.push(show_case(&Case { real: false, oper, file: true, max_ck, ttl: None, ops }));
    }
    // operator family: checkpoint through the operator, then change the state WITHOUT the operator noticing (edits
    // through state_mut(), expiry by the clock, a restore of an older checkpoint) or through process(), then restore
    // the latest / an older checkpoint through the operator
    for _ in 0..n / 8 {
        let max_ck = *rng.pick(&[2usize, 3, 10]);
        let ttl = if rng.chance(1, 5) { Some(*rng.pick(&[3u64, 10])) } else { None };
        let mut ops = Vec::new();
        let mut n_ck = 0usize;
        for _ in 0..rng.range(1, 2) {
            for _ in 0..rng.range(0, 2) {
                let (k, v) = (rng.below(3) as usize, pick_val(rng, false));
                ops.push(match rng.below(3) {
                    0 => Op::Event(k, v),
                    1 => Op::PutTtl(k, v, rng.range(1, 4)),
                    _ => Op::Put(k, v),
                });
            }
            ops.push(Op::Checkpoint);
            n_ck += 1;
            for _ in 0..rng.range(0, 2) {
                let (k, v) = (rng.below(3) as usize, pick_val(rng, false));
                ops.push(match rng.below(8) {
                    0 => Op::Event(k, v),
                    1 | 2 => Op::Put(k, v),
                    3 => Op::Update(k, v),
                    4 => Op::Delete(k),
                    5 => Op::Clear,
                    6 => Op::Advance(rng.range(1, 6)),
                    _ => Op::Restore(rng.below(n_ck as u64) as usize),
                });
            }
            ops.push(Op::Restore(if rng.chance(3, 4) { n_ck - 1 } else { rng.below(n_ck as u64) as usize }));
        }
        out.push(show_case(&Case { real: false, oper: true, file: true, max_ck, ttl, ops }));
    }
    // real-kill family (kind Q): a history that leaves 0 .. max_checkpoints+1 checkpoints on disk (so the fatal checkpoint
    // runs with and without a retention victim), then a `checkpoint` killed at EVERY numbered crash point 0..9 (the last
    // ones past the end: the child exits after the call) - or a `restore` killed at every point 0..7 -, then, one or
    // more milliseconds later, a new store on the same directory that puts, checkpoints and restores ids of both lives
    let n_hist = if tier == "thorough" { 240 } else { 36 };
    for h in 0..n_hist {
        let max_ck = *rng.pick(&[0usize, 1, 1, 2, 2, 2, 3, 10]);
        let ttl = if rng.chance(1, 6) { Some(*rng.pick(&[3u64, 10])) } else { None };
        let n_before = rng.below((max_ck.min(2) + 2) as u64) as usize;
        let mut pre = Vec::new();
        for _ in 0..n_before {
            pre.push(Op::Put(rng.below(3) as usize, pick_val(rng, false)));
            if rng.chance(1, 3) {
                pre.push(Op::Advance(rng.range(0, 2)));
            }
            pre.push(Op::Checkpoint);
        }
        for _ in 0..rng.range(0, 2) {
            let (k, v) = (rng.below(3) as usize, pick_val(rng, false));
            pre.push(match rng.below(5) {
                0 => Op::PutTtl(k, v, rng.range(0, 4)),
                1 => Op::Delete(k),
                2 if n_before > 0 => Op::Restore(rng.below(n_before as u64) as usize),
                _ => Op::Put(k, v),
            });
        }
        let restore_kill = n_before > 0 && h % 4 == 3;
        let target = if restore_kill { if rng.chance(5, 6) { rng.below(n_before as u64) as usize } else { n_before } } else { 0 };
        let n_old = n_before + if restore_kill { 0 } else { 1 };
        let mut post = vec![Op::Advance(rng.range(1, 3))];
        let mut n_ids = n_old;
        for _ in 0..rng.range(0, 5) {
            let (k, v) = (rng.below(3) as usize, pick_val(rng, false));
            post.push(match rng.below(6) {
                0 | 1 => Op::Put(k, v),
                2 | 3 => {
                    n_ids += 1;
                    Op::Checkpoint
                }
                _ => Op::Restore(rng.below(n_ids as u64 + 1) as usize),
            });
        }
        // every id of the earlier life is restored by the reopened store in one history out of three
        if h % 3 == 0 {
            for i in 0..n_old {
                post.push(Op::Restore(i));
            }
        }
        for p in 0..=(if restore_kill { 7u64 } else { 9 }) {
            let mut ops = pre.clone();
            ops.push(if restore_kill { Op::KillRestore(target, p) } else { Op::Kill(p) });
            ops.extend(post.iter().cloned());
            out.push(show_case(&Case { real: true, oper: false, file: true, max_ck, ttl, ops }));
        }
        // ... and the same fatal checkpoint killed INSIDE its write_all (op W, point 4) at a spread of byte offsets of this
        // history's file (see the split-write family below)
        if !restore_kill {
            for (sel, a) in split_offsets(estimated_file_len(&pre)) {
                let mut ops = pre.clone();
                ops.push(Op::KillW(4, sel, a));
                ops.extend(post.iter().cloned());
                out.push(show_case(&Case { real: true, oper: false, file: true, max_ck, ttl, ops }));
            }
        }
    }
    // split-write family (kind Q, op W): the real `write_all` of the fatal checkpoint is carried out in two steps around a
    // crash point at byte offset k of the REAL serialised text, and the child is killed there (point 4): a truncated
    // state.json produced by a real kill. Every offset of the small files, a spread of offsets of the large ones; with and
    // without earlier checkpoints / a retention victim; values with multi-byte characters, escapes, long numbers, deep
    // nests, values that do not read back. Per history also: the points around the split (3, 5) and past the end.
    let mut w_hist: Vec<(usize, Vec<Op>)> = vec![
        (10, vec![]),
        (10, vec![Op::Put(0, 0)]),
        (2, vec![Op::Put(0, 1), Op::Checkpoint, Op::Put(1, 5)]),
        (1, vec![Op::Put(0, 3), Op::Checkpoint, Op::Delete(0), Op::Put(1, 9)]),
        (10, vec![Op::Put(2, 4), Op::Put(1, 12)]),
        (1, vec![Op::Put(0, 3), Op::Checkpoint, Op::Put(0, 2)]),
        (10, vec![Op::Put(1, 14)]),
        (1, vec![Op::Put(0, 1), Op::Checkpoint, Op::Put(0, 15), Op::Put(1, 11)]),
        (10, vec![Op::Put(0, 17), Op::Put(2, 8)]),
        (2, vec![Op::Put(0, 13), Op::Checkpoint, Op::Put(1, 12), Op::Checkpoint, Op::Put(2, 19)]),
        (10, vec![Op::Put(0, 6), Op::Put(1, 7), Op::Put(2, 16)]),
        (10, vec![Op::Put(0, 1), Op::Put(1, 21)]),
        (2, vec![Op::Put(1, 25)]),
        (0, vec![Op::Put(0, 2), Op::Put(1, 5)]),
    ];
    for _ in 0..(if tier == "thorough" { 40 } else { 5 }) {
        let max_ck = *rng.pick(&[1usize, 2, 2, 10]);
        let mut pre = Vec::new();
        let mut n_ck = 0;
        for _ in 0..rng.range(1, 5) {
            pre.push(match rng.below(8) {
                0 if n_ck < 2 => {
                    n_ck += 1;
                    Op::Checkpoint
                }
                1 => Op::Delete(rng.below(3) as usize),
                _ => Op::Put(rng.below(3) as usize, pick_val(rng, false)),
            });
        }
        w_hist.push((max_ck, pre));
    }
    for (max_ck, pre) in &w_hist {
        let n_old = pre.iter().filter(|o| matches!(o, Op::Checkpoint)).count();
        let len = estimated_file_len(pre);
        // second life, 1 ms later: restore the interrupted id, go on, checkpoint, restore the new one and an old one
        let post = vec![Op::Advance(1), Op::Restore(n_old), Op::Put(2, 6), Op::Checkpoint, Op::Restore(n_old + 1), Op::Restore(0)];
        let mut kills: Vec<Op> = split_offsets(len).into_iter().map(|(sel, a)| Op::KillW(4, sel, a)).collect();
        kills.extend([Op::KillW(3, 2, 16), Op::KillW(5, 2, 16), Op::KillW(5, 0, 0), Op::KillW(6, 1, 1), Op::KillW(99, 2, 16)]);
        for kop in kills {
            let mut ops = pre.clone();
            ops.push(kop);
            ops.extend(post.iter().cloned());
            out.push(show_case(&Case { real: true, oper: false, file: true, max_ck: *max_ck, ttl: None, ops }));
        }
    }
    // same-millisecond restart family (kind Q, fix-C20b): the first life takes 0..2 checkpoints and dies in (or exits after)
    // the next one at a point where its state.json exists (create, partial, write, push, stamp, past the end); NO clock
    // advance; the new store on the same directory - whose checkpoint_seq restarts at 0 - takes one or two checkpoints,
    // which must get ids no earlier checkpoint has, leave every earlier file as it is, and every id of both lives must
    // restore its own state. (No retention in either life: a RETIRED id of the same millisecond may be reused - the
    // residual of F-C20b, `reopen_same_ms_reuses_retired_id_counterexample`.)
    for h in 0..(if tier == "thorough" { 60 } else { 12 }) {
        let max_ck = *rng.pick(&[3usize, 10]);
        let n_before = (h % 3) as usize;
        let mut pre = Vec::new();
        for _ in 0..n_before {
            pre.push(Op::Put(rng.below(3) as usize, pick_val(rng, true)));
            pre.push(Op::Checkpoint);
        }
        pre.push(Op::Put(rng.below(3) as usize, pick_val(rng, true)));
        let kills = [Op::Kill(3), Op::Kill(4), Op::Kill(5), Op::Kill(6), Op::Kill(99), Op::KillW(4, 2, 16), Op::KillW(4, 1, 0)];
        let n_old = n_before + 1;
        let two = rng.chance(1, 2);
        for kop in kills {
            let mut ops = pre.clone();
            ops.push(kop);
            ops.push(Op::Put(rng.below(3) as usize, 6));
            ops.push(Op::Checkpoint);
            if two {
                ops.push(Op::Put(1, 7));
                ops.push(Op::Checkpoint);
            }
            for i in 0..(n_old + if two { 2 } else { 1 }) {
                ops.push(Op::Restore(i));
            }
            out.push(show_case(&Case { real: true, oper: false, file: true, max_ck, ttl: None, ops }));
        }
    }
    // expiry family: keys with a TTL that are written, updated, and observed around their expiry instant
    // (created_at + ttl, NOT refreshed by update), then checkpointed and restored: a snapshot must hold exactly
    // the entries a `get` would still return at that moment
    for _ in 0..n / 6 {
        let file = rng.chance(5, 6);
        let max_ck = *rng.pick(&[2usize, 3, 10]);
        let ttl = if rng.chance(1, 3) { Some(*rng.pick(&[2u64, 4])) } else { None };
        let mut ops = Vec::new();
        let t = rng.range(2, 5);
        ops.push(Op::PutTtl(0, pick_val(rng, false), t));
        if rng.chance(1, 2) {
            ops.push(Op::Put(1, pick_val(rng, false)));
        }
        ops.push(Op::Advance(rng.range(1, t - 1)));
        if rng.chance(3, 4) {
            ops.push(Op::Update(0, pick_val(rng, false)));
        }
        // land just before, exactly at, or just after created_at + ttl
        ops.push(Op::Advance(rng.range(0, 3)));
        if rng.chance(1, 3) {
            ops.push(Op::PutTtl(2, pick_val(rng, false), rng.range(1, 3)));
            ops.push(Op::Advance(rng.range(0, 2)));
        }
        ops.push(Op::Checkpoint);
        ops.push(Op::Advance(rng.range(0, 4)));
        if rng.chance(1, 2) {
            ops.push(Op::Delete(1));
        }
        ops.push(Op::Restore(0));
        if rng.chance(1, 2) {
            ops.push(Op::Advance(rng.range(1, 6)));
            ops.push(Op::Checkpoint);
            ops.push(Op::Restore(1));
        }
        out.push(show_case(&Case { real: false, oper: file && rng.chance(1, 5), file, max_ck, ttl, ops }));
    }
    out.extend(spread_restart_family(tier));
    out
}

/// spread-restart family (kind Q, seeded C20-14; constructive, no randomness - it does not depend on the random stream):
/// the FIRST life takes k = 2..4 checkpoints spread over 2..4 milliseconds in every pattern (a clock advance between some
/// of them), so that its last millisecond M holds ids with suffix >= 1 and - unless the advance came before the first
/// checkpoint of M only - NO `_000000`; it ends by a clean exit after its last checkpoint (`Y99`), by a kill after the
/// data file is written (`Y5`), or by an exit after a restore (`V0.99`). The SECOND life (a new store, `checkpoint_seq` 0
/// again) starts in the SAME millisecond M or one millisecond later and takes 1..4 checkpoints, without an advance or
/// with one advance before its j-th checkpoint: only its FIRST id finds `M_000000` free, the later ones run into the
/// first life's files. Then EVERY id of both lives is restored: ids new (`ids_distinct_across_restart`), earlier files
/// unchanged (`earlier_life_checkpoint_changed`), every restore its own state. No retention in either life.
fn spread_restart_family(tier: &str) -> Vec<String> {
    let mut out = Vec::new();
    // gap patterns of the first life: gaps[i] = clock advance in front of its (i+1)-th checkpoint (i >= 1), at least one > 0
    let mut gap_patterns: Vec<Vec<u64>> = Vec::new();
    for k in 2..=4usize {
        for code in 1..(1u32 << (k - 1)) {
            gap_patterns.push((0..k - 1).map(|i| ((code >> i) & 1) as u64).collect());
        }
    }
    gap_patterns.push(vec![2]);
    gap_patterns.push(vec![0, 2]);
    gap_patterns.push(vec![1, 0, 2]);
    let kills: Vec<Op> = if tier == "thorough" {
        vec![Op::Kill(99), Op::KillRestore(0, 99), Op::Kill(5), Op::Kill(6), Op::Kill(4)]
    } else {
        vec![Op::Kill(99), Op::KillRestore(0, 99), Op::Kill(5)]
    };
    for (ki, kop) in kills.iter().enumerate() {
        for gaps in &gap_patterns {
            let k = gaps.len() + 1;
            for delay in 0..2u64 {
                for n in 1..=4usize {
                    // j = 0: no advance in the second life; j >= 1: one advance in front of its (j+1)-th checkpoint
                    for j in 0..n {
                        // the quick tier keeps the partial-kill variant to the second lives that can collide at all
                        if tier != "thorough" && ki == 2 && (n < 2 || delay == 1) {
                            continue;
                        }
                        let mut ops = Vec::new();
                        let mut ord = 0usize; // ordinal of the checkpoint: its put makes the state unique
                        let mut n_ids = 0usize;
                        for i in 0..k {
                            if i > 0 && gaps[i - 1] > 0 {
                                ops.push(Op::Advance(gaps[i - 1]));
                            }
                            ops.push(Op::Put(ord % 3, ord));
                            ord += 1;
                            if i + 1 == k && matches!(kop, Op::Kill(_)) {
                                ops.push(kop.clone());
                            } else {
                                ops.push(Op::Checkpoint);
                            }
                            n_ids += 1;
                        }
                        if let Op::KillRestore(..) = kop {
                            ops.push(Op::KillRestore(k - 2, 99));
                        }
                        if delay > 0 {
                            ops.push(Op::Advance(delay));
                        }
                        for i in 0..n {
                            if j > 0 && i == j {
                                ops.push(Op::Advance(1));
                            }
                            ops.push(Op::Put(ord % 3, ord));
                            ord += 1;
                            ops.push(Op::Checkpoint);
                            n_ids += 1;
                        }
                        for i in 0..n_ids {
                            ops.push(Op::Restore(i));
                        }
                        out.push(show_case(&Case { real: true, oper: false, file: true, max_ck: 10, ttl: None, ops }));
                    }
                }
            }
        }
    }
    out
}

fn shrink(case: &str) -> Vec<String> {
    let Some(c) = parse_case(case) else { return vec![] };
    let mut out = Vec::new();
    for ops in shrink_list(&c.ops) {
        out.push(show_case(&Case { real: c.real, oper: c.oper, file: c.file, max_ck: c.max_ck, ttl: c.ttl, ops }));
    }
    if c.ttl.is_some() {
        out.push(show_case(&Case { real: c.real, oper: c.oper, file: c.file, max_ck: c.max_ck, ttl: None, ops: c.ops.clone() }));
    }
    if c.oper {
        out.push(show_case(&Case { real: c.real, oper: false, file: c.file, max_ck: c.max_ck, ttl: c.ttl, ops: c.ops.clone() }));
    }
    for (i, o) in c.ops.iter().enumerate() {
        let smaller = match o {
            Op::Advance(d) if *d > 1 => Some(Op::Advance(d / 2)),
            Op::PutTtl(k, v, t) if *t > 0 => Some(Op::PutTtl(*k, *v, t / 2)),
            Op::Put(k, v) if *v > 0 => Some(Op::Put(*k, 0)),
            Op::Crash => Some(Op::Checkpoint),
            Op::FailCk => Some(Op::Checkpoint),
            Op::Event(k, v) => Some(Op::Put(*k, *v)),
            _ => None,
        };
        if let Some(s) = smaller {
            let mut ops = c.ops.clone();
            ops[i] = s;
            out.push(show_case(&Case { real: c.real, oper: c.oper, file: c.file, max_ck: c.max_ck, ttl: c.ttl, ops }));
        }
    }
    out
}

fn main() {
    let args: Vec<String> = std::env::args().collect();
    if args.len() == 4 && args[1] == "crash-child" {
        child_main(&args[2], &args[3]);
    }
    main_with(Prop { gen, exec, shrink });
}
