//! C07 — AdvancedAgenda histories and the three `fire_all` loops of the RETE family.
//!
//! agenda case := `A op op …`   (names: rule n = "r<n>", agenda group 0 = "MAIN", k = "g<k>",
//!                               activation group k = "x<k>", ruleflow group k = "f<k>")
//!   a:<rule>:<sal>:<ag>:<actg|->:<rfg|->:<nlf>:<created>   add_activation (nlf = no_loop, lock_on_active,
//!        auto_focus as 0/1; created = tick → created_at = base + tick µs; the op index is the tag,
//!        carried in `condition_count`)
//!   p  get_next_activation          q  get_next_activation + mark_rule_fired(result)
//!   m:<rule>:<ag>:<actg|->:<lock>   mark_rule_fired on an arbitrary activation
//!   f:<g> set_focus   r reset_fired_flags   c clear   R+:<g> / R-:<g> (de)activate ruleflow group   s:<k> set_strategy
//! obs := `T<0|1> tok tok …`, one token per op: `<res>/<focus>/<total>/<fired_rules>/<fired_activation_groups>`
//!        res = tag of the returned activation, `-` for None, `.` for non-pop ops; T1 = two activations of one
//!        agenda group had equal (salience, created_at) (BinaryHeap order is then unspecified).
//!
//! engine case := `E <I|T|U> <rules> <facts>`; rule = `prio:noloop:ck:limit:ak:inc` (`when C.<ck> < limit then
//!   C.<ak> += inc`, ck/ak ∈ 0=a,1=b; rule i is named "R<i>"), joined by `,`.
//!   T = TypedReteUlEngine, U = ReteUlEngine: facts = `a:b` (initial counters).
//!   I = IncrementalEngine: facts = `a:b,a:b,…` inserted as facts of type C after the rules; actions are no-ops.
//! obs := `ok <fired, run-length encoded> <a> <b>` | `hang` (no return within the action budget / deadline) | panic:…
//!
//! history case := `H <rules> <op> <op> …` — ONE IncrementalEngine (rules as above, no-op actions, facts of type C) driven
//!   through several calls: `i<a>:<b>` insert, `u<h>:<a>:<b>` update, `x<h>` retract, `F` fire_all, `Z` reset.
//!   What survives between two fire_all calls is the agenda (pending activations, fired-rule set, focus).
//! obs := `ok tok …`, one token per call: `i<handle>` | `u<0|1>` | `x<0|1>` | `F<fired, run-length encoded>` | `z`; `hang`; panic:…
//!
//! named-rule-set case := `M <T|U> <rules> <a>:<b> <op> …` — ONE TypedReteUlEngine (T) / ReteUlEngine (U) whose rules carry explicit
//!   NAMES (the same name may be registered several times), driven through several calls.  rule =
//!   `name:prio:noloop:ck:limit:ak:inc:mk` (`when C.<ck> < limit then C.<ak> += inc`, and when mk ≠ `-` the action also sets the
//!   fact `N<mk>_fired = true`: a marker that appears DURING a cycle; `mk` = `<k>=<code>` sets it to the value with that code);
//!   rule names are "N<name>".
//!   ops: `F` fire_all, `Z` reset_fired_flags, `s<a>:<b>` set_fact C.a / C.b, `k<n>` set_fact `N<n>_fired = true` from outside,
//!   `k<n>=<code>` set_fact `N<n>_fired = <value>`.  Value codes (C07.markerFired): U: 0,1 "true", 2 "false", 3 "", 4 "0", 5 "1",
//!   6 "TRUE", 7 "True", 8 " true", 9 "true ", 10 "yes", 11 "on", 12 "off", 13 "t", 14 "f", 15 "null"; T: 1..10 String(the same
//!   strings), 0, 11 Boolean(true), 12 Boolean(false), 13 Integer(1), 14 Integer(0), 15 Null; any other code: the string "v<code>".
//! obs := `ok tok …`, one token per call: `F<fired, run-length encoded>/<a>/<b>` | `z` | `s` | `k`; `hang`; panic:…
//!   `M I <rules> - <op> …` — ONE IncrementalEngine with the same NAMED rules (ak / inc / mk unused: no-op actions, facts of type
//!   C), ops and observation tokens as in the `H` cases (`i<a>:<b>` `u<h>:<a>:<b>` `x<h>` `F` `Z`), names printed as "N<name>".
//!
//! NAMES: every numeric name code `k` above stands for the ordinary name (`r<k>`, `g<k>`, `x<k>`, `f<k>`, `N<k>`) when k < 10 or k > 29, and
//!   for entry `k` of the table `odd_name` (codes 10..=29: "", " ", "  ", TAB, "MAIN", "main", "MAIN ", " MAIN", two 300-byte names that
//!   differ in the last byte, "é" composed / decomposed, a CJK name with a blank, full-width "Ａ", "A", "a", "A ", NBSP, LF, "0") in EVERY
//!   namespace (agenda group 14 is "Main", since "MAIN" is group 0).  The table is injective; observations print names by code.
//!
//! action case := `K <rules> <op> …` — ONE IncrementalEngine whose rules' ACTIONS queue retractions; rule =
//!   `name:prio:noloop:ck:limit:acts` (`when C.<ck> < limit`), acts = `-` | `+`-joined list of `o` (ActionResult::Retract of the rule's own
//!   matched fact), `h<n>` (Retract(FactHandle::new(n)): any handle — live, already retracted, never existing), `t` (RetractByType("C")),
//!   queued in that order; ops and observation tokens as in the `H` cases, names printed as "N<name>".  At most 3 inserts per case.
//!
//! caller-queued activations := `G <rules> <op> …` — ONE IncrementalEngine (rules and ops as in the `H` cases) on whose OWN agenda the caller
//!   queues activations through the public accessor: `a<rule>:<sal>:<actg|->:<nl>:<h|->` = `engine.agenda_mut().add_activation(
//!   Activation::new("R<rule>", sal).with_no_loop(nl)[.with_activation_group("x<actg>")][.with_matched_fact(h)])` (token `a`).  Engine-made
//!   activations never carry an activation group; these do: at most one rule of an activation group fires between resets in `fire_all` too.
use rre_harness::*;
use rust_rule_engine::rete::agenda::{Activation, AdvancedAgenda, ConflictResolutionStrategy};
use rust_rule_engine::rete::facts::{FactValue, TypedFacts};
use rust_rule_engine::rete::network::{ReteUlEngine, ReteUlNode, TypedReteUlEngine, TypedReteUlRule};
use rust_rule_engine::rete::propagation::IncrementalEngine;
use rust_rule_engine::rete::working_memory::FactHandle;
use rust_rule_engine::rete::{ActionResult, ActionResults, AlphaNode};
use std::collections::HashMap;
use std::sync::atomic::{AtomicU64, Ordering};
use std::sync::Arc;
use std::time::{Duration, Instant};

const ACTION_BUDGET: u64 = 200_000; // far above every bound (1000, 100·rules); exceeded ⇒ the loop does not terminate
const DEADLINE: Duration = Duration::from_secs(30);

/// unusual but legal NAMES (codes 10..=29), one table for every namespace (rule names, agenda / activation / ruleflow groups, engine
/// rule names): empty, blank-only (space, two spaces, tab, NBSP, newline), "MAIN" and its case / blank variants, very long names that
/// differ in the last byte only, non-ASCII (composed / decomposed / CJK / full-width), names differing only in case or in a trailing
/// blank.  The table is INJECTIVE: different codes are different strings, so they must be different rules / groups for the code.
fn odd_name(code: u64) -> Option<String> {
    Some(match code {
        10 => "".into(),
        11 => " ".into(),
        12 => "  ".into(),
        13 => "\t".into(),
        14 => "MAIN".into(),
        15 => "main".into(),
        16 => "MAIN ".into(),
        17 => " MAIN".into(),
        18 => "x".repeat(300),
        19 => format!("{}y", "x".repeat(299)),
        20 => "\u{e9}".into(),
        21 => "e\u{301}".into(),
        22 => "\u{89c4}\u{5219} \u{4e00}".into(),
        23 => "\u{ff21}".into(),
        24 => "A".into(),
        25 => "a".into(),
        26 => "A ".into(),
        27 => "\u{a0}".into(),
        28 => "\n".into(),
        29 => "0".into(),
        _ => return None,
    })
}
const ODD_LO: u64 = 10;
const ODD_HI: u64 = 29;
const BLANK_CODES: [u64; 6] = [10, 11, 12, 13, 27, 28];
/// name with code `k` in the namespace whose ordinary names are `<prefix><k>`
fn pname(prefix: &str, k: u64) -> String {
    odd_name(k).unwrap_or_else(|| format!("{}{}", prefix, k))
}
/// inverse of `pname` (what the observations print): the code of a name, `?` for a name outside the table
fn pcode(prefix: &str, s: &str) -> String {
    if let Some(c) = (ODD_LO..=ODD_HI).find(|c| odd_name(*c).as_deref() == Some(s)) { return c.to_string(); }
    match s.strip_prefix(prefix) {
        Some(d) if !d.is_empty() && d.bytes().all(|b| b.is_ascii_digit()) => d.to_string(),
        _ => "?".into(),
    }
}
/// agenda groups: 0 = "MAIN"; code 14 would be "MAIN" again, it is "Main" in this namespace
fn gname(g: u64) -> String {
    if g == 0 { "MAIN".to_string() } else if g == 14 { "Main".to_string() } else { pname("g", g) }
}
fn gnum(s: &str) -> String {
    if s == "MAIN" { "0".into() } else if s == "Main" { "14".into() } else { pcode("g", s) }
}
fn opt(s: &str) -> Option<Option<u64>> {
    if s == "-" { Some(None) } else { s.parse().ok().map(Some) }
}

fn strategy(k: u64) -> ConflictResolutionStrategy {
    use ConflictResolutionStrategy::*;
    // re-sorting with any strategy rebuilds the heaps with the same `Ord`; Random is excluded (it only shuffles
    // the intermediate vector, but keep the run deterministic)
    [Salience, LEX, MEA, Depth, Breadth, Simplicity, Complexity][(k % 7) as usize]
}

fn exec_agenda(ops: &[&str]) -> String {
    let base = Instant::now();
    let mut ag = AdvancedAgenda::new();
    let mut toks = Vec::new();
    let mut keys: Vec<(u64, i32, u64)> = Vec::new();
    let mut ties = false;
    for (idx, op) in ops.iter().enumerate() {
        let p: Vec<&str> = op.split(':').collect();
        let mut res = ".".to_string();
        match p[0] {
            "a" if p.len() == 8 => {
                let (Ok(rule), Ok(sal), Ok(g), Some(actg), Some(rfg), Ok(created)) = (
                    p[1].parse::<u64>(), p[2].parse::<i32>(), p[3].parse::<u64>(), opt(p[4]), opt(p[5]), p[7].parse::<u64>(),
                ) else { return "bad-case".into() };
                let fl: Vec<bool> = p[6].chars().map(|c| c == '1').collect();
                if fl.len() != 3 { return "bad-case".into(); }
                let mut a = Activation::new(pname("r", rule), sal)
                    .with_agenda_group(gname(g))
                    .with_no_loop(fl[0])
                    .with_lock_on_active(fl[1])
                    .with_auto_focus(fl[2])
                    .with_condition_count(idx);
                if let Some(x) = actg { a = a.with_activation_group(pname("x", x)); }
                if let Some(x) = rfg { a = a.with_ruleflow_group(pname("f", x)); }
                a.created_at = base + Duration::from_micros(created);
                if keys.contains(&(g, sal, created)) { ties = true; }
                keys.push((g, sal, created));
                ag.add_activation(a);
            }
            "p" | "q" => {
                match ag.get_next_activation() {
                    Some(a) => {
                        res = a.condition_count.to_string();
                        if p[0] == "q" { ag.mark_rule_fired(&a); }
                    }
                    None => res = "-".into(),
                }
            }
            "m" if p.len() == 5 => {
                let (Ok(rule), Ok(g), Some(actg)) = (p[1].parse::<u64>(), p[2].parse::<u64>(), opt(p[3])) else { return "bad-case".into() };
                let mut a = Activation::new(pname("r", rule), 0).with_agenda_group(gname(g)).with_lock_on_active(p[4] == "1");
                if let Some(x) = actg { a = a.with_activation_group(pname("x", x)); }
                ag.mark_rule_fired(&a);
            }
            "f" if p.len() == 2 => {
                let Ok(g) = p[1].parse::<u64>() else { return "bad-case".into() };
                ag.set_focus(gname(g));
            }
            "r" => ag.reset_fired_flags(),
            "c" => ag.clear(),
            "R+" if p.len() == 2 => { let Ok(k) = p[1].parse::<u64>() else { return "bad-case".into() }; ag.activate_ruleflow_group(pname("f", k)) }
            "R-" if p.len() == 2 => { let Ok(k) = p[1].parse::<u64>() else { return "bad-case".into() }; ag.deactivate_ruleflow_group(&pname("f", k)) }
            "s" if p.len() == 2 => ag.set_strategy(strategy(p[1].parse().unwrap_or(0))),
            _ => return "bad-case".into(),
        }
        let st = ag.stats();
        toks.push(format!("{}/{}/{}/{}/{}", res, gnum(ag.get_focus()), st.total_activations, st.fired_rules, st.fired_activation_groups));
    }
    format!("T{} {}", if ties { 1 } else { 0 }, if toks.is_empty() { "-".to_string() } else { toks.join(" ") })
}

#[derive(Clone)]
struct CRule { prio: i32, no_loop: bool, ck: bool, limit: i64, ak: bool, inc: i64 }

fn parse_rules(s: &str) -> Option<Vec<CRule>> {
    if s == "-" { return Some(vec![]); }
    s.split(',').map(|r| {
        let p: Vec<&str> = r.split(':').collect();
        if p.len() != 6 { return None; }
        Some(CRule { prio: p[0].parse().ok()?, no_loop: p[1] == "1", ck: p[2] == "1", limit: p[3].parse().ok()?, ak: p[4] == "1", inc: p[5].parse().ok()? })
    }).collect()
}
fn parse_facts(s: &str) -> Option<Vec<(i64, i64)>> {
    if s == "-" { return Some(vec![]); }
    s.split(',').map(|f| { let (a, b) = f.split_once(':')?; Some((a.parse().ok()?, b.parse().ok()?)) }).collect()
}
fn key(k: bool) -> &'static str { if k { "C.b" } else { "C.a" } }

fn rle(names: &[String]) -> String {
    if names.is_empty() { return "-".into(); }
    let mut out: Vec<(String, usize)> = Vec::new();
    for n in names {
        match out.last_mut() {
            Some((m, c)) if m == n => *c += 1,
            _ => out.push((n.clone(), 1)),
        }
    }
    out.iter().map(|(n, c)| format!("{}*{}", n, c)).collect::<Vec<_>>().join(",")
}

/// runs `f` on its own thread under a wall-clock deadline; the action closures additionally stop a runaway loop by
/// panicking once the action budget is used up (so that a non-terminating `fire_all` cannot eat the machine)
fn guarded<F: FnOnce(Arc<AtomicU64>) -> String + Send + 'static>(f: F) -> String {
    let count = Arc::new(AtomicU64::new(0));
    let c2 = count.clone();
    let (tx, rx) = std::sync::mpsc::channel();
    std::thread::spawn(move || {
        let r = std::panic::catch_unwind(std::panic::AssertUnwindSafe(|| f(c2)));
        let _ = tx.send(r);
    });
    match rx.recv_timeout(DEADLINE) {
        Ok(Ok(s)) => s,
        Ok(Err(e)) => {
            let msg = e.downcast_ref::<&str>().map(|s| s.to_string()).or_else(|| e.downcast_ref::<String>().cloned()).unwrap_or_default();
            if msg.contains("verif-action-budget") { "hang".into() } else { format!("panic:{}", hex(&msg)) }
        }
        Err(_) => {
            count.store(u64::MAX / 2, Ordering::SeqCst); // makes the next action call panic and end the thread
            "hang".into()
        }
    }
}
fn tick(count: &AtomicU64) {
    if count.fetch_add(1, Ordering::SeqCst) >= ACTION_BUDGET { panic!("verif-action-budget"); }
}

fn exec_engine(kind: &str, rules: Vec<CRule>, facts: Vec<(i64, i64)>) -> String {
    match kind {
        "T" => guarded(move |count| {
            let mut e = TypedReteUlEngine::new();
            for (i, r) in rules.iter().enumerate() {
                let node = ReteUlNode::UlAlpha(AlphaNode { field: key(r.ck).into(), operator: "<".into(), value: r.limit.to_string() });
                let (ak, inc, cnt) = (r.ak, r.inc, count.clone());
                e.add_rule_with_action(format!("R{}", i), node, r.prio, r.no_loop, move |f: &mut TypedFacts, _| {
                    tick(&cnt);
                    let v = f.get(key(ak)).and_then(|v| v.as_integer()).unwrap_or(0);
                    f.set(key(ak), FactValue::Integer(v + inc));
                });
            }
            let (a, b) = facts.first().copied().unwrap_or((0, 0));
            e.set_fact("C.a", a);
            e.set_fact("C.b", b);
            let fired = e.fire_all();
            let g = |k: &str| e.get_fact(k).and_then(|v| v.as_integer()).map(|v| v.to_string()).unwrap_or("?".into());
            format!("ok {} {} {}", rle(&fired), g("C.a"), g("C.b"))
        }),
        "U" => guarded(move |count| {
            let mut e = ReteUlEngine::new();
            for (i, r) in rules.iter().enumerate() {
                let node = ReteUlNode::UlAlpha(AlphaNode { field: key(r.ck).into(), operator: "<".into(), value: r.limit.to_string() });
                let (ak, inc, cnt) = (r.ak, r.inc, count.clone());
                e.add_rule_with_action(format!("R{}", i), node, r.prio, r.no_loop, move |f: &mut HashMap<String, String>| {
                    tick(&cnt);
                    let v: i64 = f.get(key(ak)).and_then(|v| v.parse().ok()).unwrap_or(0);
                    f.insert(key(ak).to_string(), (v + inc).to_string());
                });
            }
            let (a, b) = facts.first().copied().unwrap_or((0, 0));
            e.set_fact("C.a".into(), a.to_string());
            e.set_fact("C.b".into(), b.to_string());
            let fired = e.fire_all();
            let g = |k: &str| e.get_fact(k).cloned().unwrap_or("?".into());
            format!("ok {} {} {}", rle(&fired), g("C.a"), g("C.b"))
        }),
        "I" => guarded(move |count| {
            let mut e = IncrementalEngine::new();
            for (i, r) in rules.iter().enumerate() {
                let node = ReteUlNode::UlAlpha(AlphaNode { field: key(r.ck).into(), operator: "<".into(), value: r.limit.to_string() });
                let cnt = count.clone();
                e.add_rule(
                    TypedReteUlRule { name: format!("R{}", i), node, priority: r.prio, no_loop: r.no_loop,
                        action: Arc::new(move |_f: &mut TypedFacts, _r| { tick(&cnt); }) },
                    vec!["C".to_string()],
                );
            }
            for (a, b) in &facts {
                let mut d = TypedFacts::new();
                d.set("a", *a);
                d.set("b", *b);
                e.insert("C".to_string(), d);
            }
            let fired = e.fire_all();
            format!("ok {} - -", rle(&fired))
        }),
        _ => "bad-case".into(),
    }
}

fn cfact(a: i64, b: i64) -> TypedFacts {
    let mut d = TypedFacts::new();
    d.set("a", a);
    d.set("b", b);
    d
}

/// one engine, many calls (under the same watchdog as the single-call engine cases: the whole history shares the
/// action budget and the deadline)
/// what the action of a `K` rule queues (in this order) in its `ActionResults`
#[derive(Clone, Copy)]
enum KAct { Own, Handle(u64), ByType }

fn parse_kacts(s: &str) -> Option<Vec<KAct>> {
    if s == "-" { return Some(vec![]); }
    s.split('+').map(|a| match a {
        "o" => Some(KAct::Own),
        "t" => Some(KAct::ByType),
        _ => a.strip_prefix('h').and_then(|h| h.parse().ok()).map(KAct::Handle),
    }).collect()
}

/// `name:prio:noloop:ck:limit:acts`
fn parse_krules(s: &str) -> Option<(Vec<CRule>, Vec<u64>, Vec<Vec<KAct>>)> {
    let (mut rs, mut ns, mut acts) = (vec![], vec![], vec![]);
    if s == "-" { return Some((rs, ns, acts)); }
    for r in s.split(',') {
        let p: Vec<&str> = r.split(':').collect();
        if p.len() != 6 { return None; }
        ns.push(p[0].parse().ok()?);
        rs.push(CRule { prio: p[1].parse().ok()?, no_loop: p[2] == "1", ck: p[3] == "1", limit: p[4].parse().ok()?, ak: false, inc: 0 });
        acts.push(parse_kacts(p[5])?);
    }
    Some((rs, ns, acts))
}

/// fired names of a named rule set, printed by CODE (`N<code>`, see `pname`)
fn rle_n(names: &[String]) -> String {
    rle(&names.iter().map(|n| format!("N{}", pcode("N", n))).collect::<Vec<_>>())
}

fn exec_history(rules: Vec<CRule>, names: Option<Vec<u64>>, kacts: Option<Vec<Vec<KAct>>>, ops: Vec<String>) -> String {
    guarded(move |count| {
        let mut e = IncrementalEngine::new();
        let named = names.is_some();
        for (i, r) in rules.iter().enumerate() {
            let node = ReteUlNode::UlAlpha(AlphaNode { field: key(r.ck).into(), operator: "<".into(), value: r.limit.to_string() });
            let cnt = count.clone();
            let name = match &names { Some(ns) => pname("N", ns[i]), None => format!("R{}", i) };
            let acts: Vec<KAct> = kacts.as_ref().map(|k| k[i].clone()).unwrap_or_default();
            e.add_rule(
                TypedReteUlRule { name, node, priority: r.prio, no_loop: r.no_loop,
                    action: Arc::new(move |f: &mut TypedFacts, res: &mut ActionResults| {
                        tick(&cnt);
                        for a in &acts {
                            match a {
                                KAct::Own => if let Some(h) = f.get_fact_handle("C") { res.add(ActionResult::Retract(h)); },
                                KAct::Handle(h) => res.add(ActionResult::Retract(FactHandle::new(*h))),
                                KAct::ByType => res.add(ActionResult::RetractByType("C".to_string())),
                            }
                        }
                    }) },
                vec!["C".to_string()],
            );
        }
        let mut toks = vec!["ok".to_string()];
        for op in &ops {
            let nums = |s: &str| -> Option<Vec<i64>> { s.split(':').map(|x| x.parse().ok()).collect() };
            let tok = match op.as_bytes()[0] {
                b'i' => match nums(&op[1..]).as_deref() {
                    Some([a, b]) => format!("i{}", e.insert("C".to_string(), cfact(*a, *b)).id()),
                    _ => return "bad-case".into(),
                },
                b'u' => match nums(&op[1..]).as_deref() {
                    Some([h, a, b]) if *h >= 0 => format!("u{}", if e.update(FactHandle::new(*h as u64), cfact(*a, *b)).is_ok() { 1 } else { 0 }),
                    _ => return "bad-case".into(),
                },
                b'x' => match op[1..].parse::<u64>() {
                    Ok(h) => format!("x{}", if e.retract(FactHandle::new(h)).is_ok() { 1 } else { 0 }),
                    _ => return "bad-case".into(),
                },
                b'a' => {
                    let p: Vec<&str> = op[1..].split(':').collect();
                    if p.len() != 5 { return "bad-case".into(); }
                    let (Ok(rule), Ok(sal), Some(actg), Some(h)) = (p[0].parse::<u64>(), p[1].parse::<i32>(), opt(p[2]), opt(p[4])) else { return "bad-case".into() };
                    let name = if named { pname("N", rule) } else { format!("R{}", rule) };
                    let mut a = Activation::new(name, sal).with_no_loop(p[3] == "1");
                    if let Some(x) = actg { a = a.with_activation_group(pname("x", x)); }
                    if let Some(h) = h { a = a.with_matched_fact(FactHandle::new(h)); }
                    e.agenda_mut().add_activation(a);
                    "a".to_string()
                }
                b'F' if op == "F" => { let fired = e.fire_all(); format!("F{}", if named { rle_n(&fired) } else { rle(&fired) }) }
                b'Z' if op == "Z" => { e.reset(); "z".to_string() }
                _ => return "bad-case".into(),
            };
            toks.push(tok);
        }
        toks.join(" ")
    })
}

#[derive(Clone)]
struct NRule { name: u64, r: CRule, mk: Option<(u64, u64)> }

const MARK_STRINGS: [&str; 16] = ["true", "true", "false", "", "0", "1", "TRUE", "True", " true", "true ", "yes", "on", "off", "t", "f", "null"];
fn mark_string(code: u64) -> String {
    MARK_STRINGS.get(code as usize).map(|s| s.to_string()).unwrap_or_else(|| format!("v{}", code))
}
fn mark_typed(code: u64) -> FactValue {
    match code {
        0 | 11 => FactValue::Boolean(true),
        12 => FactValue::Boolean(false),
        13 => FactValue::Integer(1),
        14 => FactValue::Integer(0),
        15 => FactValue::Null,
        c => FactValue::String(mark_string(c)),
    }
}
/// `<k>` | `<k>=<code>`
fn parse_mark(s: &str) -> Option<(u64, u64)> {
    match s.split_once('=') {
        Some((k, v)) => Some((k.parse().ok()?, v.parse().ok()?)),
        None => Some((s.parse().ok()?, 0)),
    }
}

fn parse_nrules(s: &str) -> Option<Vec<NRule>> {
    if s == "-" { return Some(vec![]); }
    s.split(',').map(|r| {
        let p: Vec<&str> = r.split(':').collect();
        if p.len() != 8 { return None; }
        Some(NRule { name: p[0].parse().ok()?, mk: if p[7] == "-" { None } else { Some(parse_mark(p[7])?) },
            r: CRule { prio: p[1].parse().ok()?, no_loop: p[2] == "1", ck: p[3] == "1", limit: p[4].parse().ok()?, ak: p[5] == "1", inc: p[6].parse().ok()? } })
    }).collect()
}

enum MapEngine { T(TypedReteUlEngine), U(ReteUlEngine) }

/// one map engine with NAMED rules (duplicate names allowed), many calls, under the watchdog
fn exec_named(kind: String, rules: Vec<NRule>, init: (i64, i64), ops: Vec<String>) -> String {
    guarded(move |count| {
        let mut e = match kind.as_str() { "T" => MapEngine::T(TypedReteUlEngine::new()), "U" => MapEngine::U(ReteUlEngine::new()), _ => return "bad-case".into() };
        for nr in &rules {
            let r = &nr.r;
            let node = ReteUlNode::UlAlpha(AlphaNode { field: key(r.ck).into(), operator: "<".into(), value: r.limit.to_string() });
            let (ak, inc, cnt, mk) = (r.ak, r.inc, count.clone(), nr.mk);
            match &mut e {
                MapEngine::T(e) => e.add_rule_with_action(pname("N", nr.name), node, r.prio, r.no_loop, move |f: &mut TypedFacts, _| {
                    tick(&cnt);
                    let v = f.get(key(ak)).and_then(|v| v.as_integer()).unwrap_or(0);
                    f.set(key(ak), FactValue::Integer(v + inc));
                    if let Some((k, v)) = mk { f.set(format!("{}_fired", pname("N", k)), mark_typed(v)); }
                }),
                MapEngine::U(e) => e.add_rule_with_action(pname("N", nr.name), node, r.prio, r.no_loop, move |f: &mut HashMap<String, String>| {
                    tick(&cnt);
                    let v: i64 = f.get(key(ak)).and_then(|v| v.parse().ok()).unwrap_or(0);
                    f.insert(key(ak).to_string(), (v + inc).to_string());
                    if let Some((k, v)) = mk { f.insert(format!("{}_fired", pname("N", k)), mark_string(v)); }
                }),
            }
        }
        let set = |e: &mut MapEngine, k: &str, v: i64| match e {
            MapEngine::T(e) => e.set_fact(k, v),
            MapEngine::U(e) => e.set_fact(k.to_string(), v.to_string()),
        };
        set(&mut e, "C.a", init.0);
        set(&mut e, "C.b", init.1);
        let mut toks = vec!["ok".to_string()];
        for op in &ops {
            let tok = match op.as_bytes()[0] {
                b'F' if op == "F" => match &mut e {
                    MapEngine::T(e) => {
                        let fired = e.fire_all();
                        let g = |k: &str| e.get_fact(k).and_then(|v| v.as_integer()).map(|v| v.to_string()).unwrap_or("?".into());
                        format!("F{}/{}/{}", rle_n(&fired), g("C.a"), g("C.b"))
                    }
                    MapEngine::U(e) => {
                        let fired = e.fire_all();
                        let g = |k: &str| e.get_fact(k).cloned().unwrap_or("?".into());
                        format!("F{}/{}/{}", rle_n(&fired), g("C.a"), g("C.b"))
                    }
                },
                b'Z' if op == "Z" => { match &mut e { MapEngine::T(e) => e.reset_fired_flags(), MapEngine::U(e) => e.reset_fired_flags() }; "z".to_string() }
                b's' => match op[1..].split_once(':').and_then(|(a, b)| Some((a.parse::<i64>().ok()?, b.parse::<i64>().ok()?))) {
                    Some((a, b)) => { set(&mut e, "C.a", a); set(&mut e, "C.b", b); "s".to_string() }
                    None => return "bad-case".into(),
                },
                b'k' => match parse_mark(&op[1..]) {
                    Some((n, v)) => {
                        match &mut e {
                            MapEngine::T(e) => e.set_fact(format!("{}_fired", pname("N", n)), mark_typed(v)),
                            MapEngine::U(e) => e.set_fact(format!("{}_fired", pname("N", n)), mark_string(v)),
                        }
                        "k".to_string()
                    }
                    _ => return "bad-case".into(),
                },
                _ => return "bad-case".into(),
            };
            toks.push(tok);
        }
        toks.join(" ")
    })
}

fn exec(case: &str) -> String {
    let t: Vec<&str> = case.split_whitespace().collect();
    match t.first().copied() {
        Some("A") => exec_agenda(&t[1..]),
        Some("H") | Some("G") if t.len() >= 2 => {
            let Some(rules) = parse_rules(t[1]) else { return "bad-case".into() };
            exec_history(rules, None, None, t[2..].iter().map(|s| s.to_string()).collect())
        }
        Some("K") if t.len() >= 2 => {
            let Some((rules, names, acts)) = parse_krules(t[1]) else { return "bad-case".into() };
            exec_history(rules, Some(names), Some(acts), t[2..].iter().map(|s| s.to_string()).collect())
        }
        Some("E") if t.len() == 4 => {
            let (Some(rules), Some(facts)) = (parse_rules(t[2]), parse_facts(t[3])) else { return "bad-case".into() };
            exec_engine(t[1], rules, facts)
        }
        Some("M") if t.len() >= 4 && t[1] == "I" => {
            let Some(rules) = parse_nrules(t[2]) else { return "bad-case".into() };
            let names = rules.iter().map(|r| r.name).collect();
            exec_history(rules.into_iter().map(|r| r.r).collect(), Some(names), None, t[4..].iter().map(|s| s.to_string()).collect())
        }
        Some("M") if t.len() >= 4 => {
            let (Some(rules), Some(facts)) = (parse_nrules(t[2]), parse_facts(t[3])) else { return "bad-case".into() };
            if facts.len() != 1 { return "bad-case".into(); }
            exec_named(t[1].to_string(), rules, facts[0], t[4..].iter().map(|s| s.to_string()).collect())
        }
        _ => "bad-case".into(),
    }
}

// ------------------------------------------------------------------------------------------------ generation
fn gen_sal(rng: &mut Rng) -> i64 {
    match rng.below(12) {
        0 => i32::MIN as i64,
        1 => i32::MAX as i64,
        2 => -1,
        _ => *rng.pick(&[0i64, 0, 1, 1, 2, 5, 10, -3]),
    }
}

fn gen_agenda(rng: &mut Rng) -> String {
    let len = rng.range(1, 16) as usize;
    let tie_mode = rng.chance(1, 6);
    let groups = rng.range(1, 3);
    let mut order: Vec<u64> = (0..len as u64).collect();
    if rng.chance(1, 2) { rng.shuffle(&mut order); }
    let addish = rng.range(3, 8);
    let mut ops = Vec::new();
    for i in 0..len {
        let k = rng.below(10);
        let op = if k < addish {
            let actg = if rng.chance(1, 3) { rng.below(2).to_string() } else { "-".into() };
            let rfg = if rng.chance(1, 10) { rng.below(2).to_string() } else { "-".into() };
            let created = if tie_mode { rng.below(2) } else { order[i] };
            format!("a:{}:{}:{}:{}:{}:{}{}{}:{}", rng.below(3), gen_sal(rng), rng.below(groups), actg, rfg,
                rng.below(2), if rng.chance(1, 6) { 1 } else { 0 }, if rng.chance(1, 8) { 1 } else { 0 }, created)
        } else {
            match rng.below(16) {
                0..=4 => "p".to_string(),
                5..=9 => "q".to_string(),
                10 => format!("m:{}:{}:{}:{}", rng.below(3), rng.below(groups),
                    if rng.chance(1, 3) { rng.below(2).to_string() } else { "-".into() }, rng.below(2)),
                11 | 12 => format!("f:{}", rng.below(groups + 1)),
                13 => "r".to_string(),
                14 => if rng.chance(1, 3) { "c".to_string() } else { format!("s:{}", rng.below(7)) },
                _ => format!("R{}:{}", if rng.chance(2, 3) { "+" } else { "-" }, rng.below(2)),
            }
        };
        ops.push(op);
    }
    // most histories end with a drain so that everything pending is observed
    if rng.chance(3, 4) {
        let drain = if rng.chance(1, 2) { "p" } else { "q" };
        for _ in 0..rng.range(1, 6) { ops.push(drain.to_string()); }
    }
    format!("A {}", ops.join(" "))
}

fn gen_engine(rng: &mut Rng) -> String {
    let kind = *rng.pick(&["I", "T", "U", "T", "U"]);
    let nrules = rng.range(1, 4) as usize;
    let mut prios: Vec<i64> = vec![-7, -1, 0, 3, 10, 50, i32::MAX as i64, i32::MIN as i64];
    rng.shuffle(&mut prios);
    let mut rules = Vec::new();
    for i in 0..nrules {
        // IncrementalEngine cases use pairwise distinct priorities (creation order of activations of different rules
        // comes from a HashSet iteration); the map engines sort stably, so ties are fine there
        let prio = if kind == "I" || rng.chance(2, 3) { prios[i] } else { *rng.pick(&[0i64, 1, 5]) };
        let limit = match rng.below(6) { 0 => 1_000_000_000, 1 => -5, 2 => 150, _ => rng.range(1, 12) as i64 };
        let inc = if kind == "I" { 0 } else { *rng.pick(&[0i64, 1, 1, 1, 2, 3]) };
        rules.push(format!("{}:{}:{}:{}:{}:{}", prio, rng.below(2), rng.below(2), limit, rng.below(2), inc));
    }
    let facts = if kind == "I" {
        (0..rng.range(0, 3)).map(|_| format!("{}:{}", rng.below(6), rng.below(6))).collect::<Vec<_>>()
    } else {
        vec![format!("{}:{}", rng.below(6), rng.below(6))]
    };
    format!("E {} {} {}", kind, rules.join(","), if facts.is_empty() { "-".to_string() } else { facts.join(",") })
}

/// family "state that survives a fire_all call": one IncrementalEngine, 2..4 fire_all calls with inserts / updates /
/// retracts (and sometimes a reset) in between.  Most rule sets contain an always-true rule WITHOUT no-loop (the call
/// really runs into `max_iterations`) below one or two no-loop rules that fire first; after the bounded call a further
/// insert / update re-activates the no-loop rules and fire_all is called again with no reset in between — the no-loop
/// clause is evaluated over the whole history.  Priorities are pairwise distinct (as in the `E I` cases).
fn gen_history(rng: &mut Rng) -> String {
    let mut prios: Vec<i64> = vec![-7, -1, 0, 3, 10, 50];
    rng.shuffle(&mut prios);
    let nrules = rng.range(2, 4) as usize;
    let mut ps: Vec<i64> = prios[..nrules].to_vec();
    ps.sort();
    let runaway = rng.chance(4, 5);
    let mut rules = Vec::new();
    for i in 0..nrules {
        // ps ascending: rule 0 has the lowest priority
        let always = *rng.pick(&[1_000_000_000i64, 1_000_000_000, 150]);
        let r = if i == 0 && runaway {
            // the runaway rule: always true, not no-loop; usually below everything else, sometimes moved up
            format!("{}:0:{}:{}:0:0", ps[i], rng.below(2), always)
        } else if rng.chance(3, 4) {
            format!("{}:1:{}:{}:0:0", ps[i], rng.below(2), if rng.chance(2, 3) { always } else { rng.range(1, 6) as i64 })
        } else {
            format!("{}:{}:{}:{}:0:0", ps[i], rng.below(2), rng.below(2), rng.range(1, 6))
        };
        rules.push(r);
    }
    if rng.chance(1, 4) { rng.shuffle(&mut rules); }
    let mut ops: Vec<String> = Vec::new();
    let mut inserted = 0u64;
    let fact = |rng: &mut Rng| format!("{}:{}", rng.below(6), rng.below(6));
    // (every firing re-creates one activation per matching (rule, fact) pair and consumes one: with one live fact the
    // agenda of a runaway call stays small, with two or three it grows by 1000 or 2000 per call — keep most histories small)
    let max_facts = *rng.pick(&[1u64, 1, 1, 2, 2, 3]);
    ops.push(format!("i{}", fact(rng))); inserted += 1;
    if max_facts > 1 && rng.chance(1, 3) { ops.push(format!("i{}", fact(rng))); inserted += 1; }
    ops.push("F".into());
    for _ in 0..*rng.pick(&[1u64, 1, 1, 2, 2, 3]) {
        // between two calls: mostly NO reset
        if rng.chance(1, 5) { ops.push("Z".into()); }
        for _ in 0..rng.range(1, 2) {
            match rng.below(6) {
                0 | 1 | 2 if inserted < max_facts => { ops.push(format!("i{}", fact(rng))); inserted += 1; }
                5 if inserted > 1 => ops.push(format!("x{}", rng.range(1, inserted + 1))),
                _ => {
                    let extra = if rng.chance(1, 8) { 1 } else { 0 };
                    ops.push(format!("u{}:{}", rng.range(1, inserted + extra), fact(rng)));
                }
            }
        }
        ops.push("F".into());
    }
    format!("H {} {}", rules.join(","), ops.join(" "))
}

/// family "one rule NAME registered several times": 1..3 names, the first one (usually) registered 2..3 times — the same rule
/// added twice, or variants with the same / a different salience, mostly all no-loop, sometimes with mixed no-loop flags — on
/// each of the three engines, driven through 2..4 fire_all calls with resets (`reset_fired_flags` / `reset`), fact changes and
/// (map engines) `<name>_fired` markers set from outside or by another rule's action DURING a cycle in between.  No-loop is
/// tracked by NAME in all three engines; the oracle judges "at most once between resets" per name.
fn gen_named(rng: &mut Rng) -> String {
    let kind = *rng.pick(&["T", "T", "U", "U", "I"]);
    let nnames = *rng.pick(&[1u64, 1, 2, 2, 3]);
    let mut regs: Vec<(u64, bool)> = Vec::new(); // (name, no_loop)
    for name in 0..nnames {
        let copies = if name == 0 { *rng.pick(&[2u64, 2, 2, 3, 3, 1]) } else { *rng.pick(&[1u64, 1, 2]) };
        let all_no_loop = rng.chance(3, 4);
        let none_no_loop = !all_no_loop && rng.chance(1, 3);
        for _ in 0..copies {
            regs.push((name, all_no_loop || (!none_no_loop && rng.chance(1, 2))));
        }
    }
    rng.shuffle(&mut regs);
    if kind == "I" {
        // no-op actions: every matching registration without no-loop is a runaway (1000 firings, each re-creating one activation
        // per matching (registration, fact) pair) — keep those histories small: half of the I cases are all no-loop, the others
        // have at most 4 registrations, one fact and at most three fire_all calls
        if rng.chance(1, 2) { for r in regs.iter_mut() { r.1 = true; } } else { regs.truncate(4); }
    }
    let heavy = kind == "I" && regs.iter().any(|r| !r.1);
    // IncrementalEngine: pairwise distinct priorities (as in the `E I` / `H` cases); map engines: ties are fine (stable sort)
    let mut prios: Vec<i64> = vec![-7, -1, 0, 3, 10, 50, 70, i32::MAX as i64, i32::MIN as i64];
    rng.shuffle(&mut prios);
    let same_sal = rng.chance(1, 3);
    let mut rules = Vec::new();
    let mut runaways = 0;
    for (i, (name, nl)) in regs.iter().enumerate() {
        let prio = if kind == "I" { prios[i] } else if same_sal { 0 } else if rng.chance(1, 2) { prios[i] } else { *rng.pick(&[0i64, 1, 5]) };
        let always = *rng.pick(&[1_000_000_000i64, 1_000_000_000, 150]);
        let mut limit = if rng.chance(2, 3) { always } else { rng.range(1, 8) as i64 };
        // at most one always-true registration without no-loop (the call then really runs to its bound)
        // (IncrementalEngine: a runaway call grows the agenda by one activation per matching registration and firing — rarer)
        if !*nl && limit >= 150 { runaways += 1; if runaways > 1 || (kind == "I" && !rng.chance(1, 3)) { limit = rng.range(1, 8) as i64; } }
        let (ak, inc, mk) = if kind == "I" { (0, 0, "-".to_string()) } else {
            (rng.below(2), *rng.pick(&[0i64, 1, 1, 1, 2]), if rng.chance(1, 6) { rng.below(nnames).to_string() } else { "-".into() })
        };
        rules.push(format!("{}:{}:{}:{}:{}:{}:{}:{}", name, prio, if *nl { 1 } else { 0 }, rng.below(2), limit, ak, inc, mk));
    }
    let fact = |rng: &mut Rng| format!("{}:{}", rng.below(6), rng.below(6));
    let mut ops: Vec<String> = Vec::new();
    let init;
    if kind == "I" {
        init = "-".to_string();
        let mut inserted = 1u64;
        ops.push(format!("i{}", fact(rng)));
        if !heavy && rng.chance(1, 3) { ops.push(format!("i{}", fact(rng))); inserted += 1; }
        ops.push("F".into());
        for _ in 0..*rng.pick(if heavy { &[1u64, 1, 1, 2, 2] } else { &[1u64, 1, 2, 2, 3] }) {
            if rng.chance(1, 3) { ops.push("Z".into()); }
            match rng.below(6) {
                0 | 1 if inserted < 2 && !heavy => { ops.push(format!("i{}", fact(rng))); inserted += 1; }
                5 if inserted > 1 => ops.push(format!("x{}", rng.range(1, inserted))),
                _ => ops.push(format!("u{}:{}", rng.range(1, inserted), fact(rng))),
            }
            ops.push("F".into());
        }
    } else {
        init = fact(rng);
        if rng.chance(1, 8) { ops.push(format!("k{}", rng.below(nnames))); }
        ops.push("F".into());
        for _ in 0..*rng.pick(&[1u64, 1, 2, 2, 3]) {
            if rng.chance(2, 5) { ops.push("Z".into()); }
            if rng.chance(1, 3) { ops.push(format!("s{}", fact(rng))); }
            if rng.chance(1, 8) { ops.push(format!("k{}", rng.below(nnames))); }
            ops.push("F".into());
        }
    }
    format!("M {} {} {} {}", kind, rules.join(","), init, ops.join(" "))
}

/// family "an OLDER pending activation has gone stale before fire_all": one IncrementalEngine, 1..3 rules (mostly no-loop), 2..3
/// facts inserted, then — before the first fire_all, or after a reset — the older fact(s) are retracted or updated so that they no
/// longer match while a younger fact still does; the dropped activation must not consume the rule (liveness clause `liveOk`:
/// every rule with an eligible pending activation fires).
fn gen_stale(rng: &mut Rng) -> String {
    let mut prios: Vec<i64> = vec![-7, -1, 0, 3, 10, 50];
    rng.shuffle(&mut prios);
    let nrules = *rng.pick(&[1usize, 1, 2, 2, 3]);
    let mut rules = Vec::new();
    for i in 0..nrules {
        let limit = if rng.chance(1, 3) { *rng.pick(&[1_000_000_000i64, 150]) } else { rng.range(2, 6) as i64 };
        rules.push(format!("{}:{}:{}:{}:0:0", prios[i], if rng.chance(11, 12) { 1 } else { 0 }, rng.below(2), limit));
    }
    let low = |rng: &mut Rng| format!("{}:{}", rng.below(2), rng.below(2));   // matches every generated limit
    let high = |rng: &mut Rng| format!("{}:{}", rng.range(6, 9), rng.range(6, 9)); // matches only the always-true limits
    let nfacts = rng.range(2, 3);
    let mut ops: Vec<String> = Vec::new();
    for _ in 0..nfacts { ops.push(format!("i{}", if rng.chance(5, 6) { low(rng) } else { high(rng) })); }
    let spoil = |rng: &mut Rng, ops: &mut Vec<String>, live: &mut Vec<u64>| {
        // spoil one or two facts, mostly the oldest
        for _ in 0..rng.range(1, 2) {
            if live.len() < 2 { break; }
            let k = if rng.chance(3, 4) { 0 } else { rng.below(live.len() as u64) as usize };
            let h = live[k];
            if rng.chance(1, 2) { ops.push(format!("x{}", h)); live.remove(k); } else { ops.push(format!("u{}:{}", h, high(rng))); }
        }
    };
    let mut live: Vec<u64> = (1..=nfacts).collect();
    if rng.chance(1, 4) { ops.push("F".into()); ops.push("Z".into()); ops.push(format!("u{}:{}", live[live.len() - 1], low(rng))); }
    spoil(rng, &mut ops, &mut live);
    ops.push("F".into());
    if rng.chance(1, 2) {
        if rng.chance(1, 2) { ops.push("Z".into()); }
        ops.push(format!("u{}:{}", rng.pick(&live), low(rng)));
        if rng.chance(1, 2) { spoil(rng, &mut ops, &mut live); }
        ops.push("F".into());
    }
    format!("H {} {}", rules.join(","), ops.join(" "))
}

/// family "the `<name>_fired` fact holds some OTHER value": one ReteUlEngine / TypedReteUlEngine, 1..2 rule names (the first no-loop
/// and mostly always true, sometimes registered twice), the marker fact of a name set to a value drawn from a pool — absent, "true",
/// "false", "", "0", "1", "TRUE", "True", " true", "true ", "yes" (typed engine: the same strings plus Boolean(true/false),
/// Integer(1/0), Null) — BEFORE the first fire_all, BETWEEN calls, and by a rule's own / another rule's action DURING a cycle; 2..4
/// fire_all calls, mostly without reset_fired_flags in between.  What each engine reads as "fired" is `C07.markerFired`; an overwrite
/// with a value that is not read as fired forgets that name's no-loop memory (the oracle treats it as a reset of that name).
fn gen_marks(rng: &mut Rng) -> String {
    let kind = *rng.pick(&["U", "U", "U", "T", "T"]);
    let code = |rng: &mut Rng| -> u64 {
        if kind == "T" && rng.chance(1, 2) { rng.range(11, 15) } else { rng.range(1, 10) }
    };
    let nnames = *rng.pick(&[1u64, 1, 2]);
    let mut rules = Vec::new();
    for name in 0..nnames {
        let copies = if name == 0 && rng.chance(1, 4) { 2 } else { 1 };
        let nl = name == 0 || rng.chance(1, 2);
        for _ in 0..copies {
            let limit = if rng.chance(3, 4) { 1_000_000_000 } else { rng.range(1, 8) as i64 };
            // a rule without no-loop is never always-true here (no runaway: the point is the marker, not the bound)
            let limit = if !nl && limit > 100 { rng.range(1, 8) as i64 } else { limit };
            let mk = match rng.below(6) {
                0 => format!("{}={}", name, code(rng)),                 // the rule's OWN marker, written by its action
                1 => format!("{}={}", rng.below(nnames), code(rng)),
                _ => "-".to_string(),
            };
            rules.push(format!("{}:{}:{}:{}:{}:{}:{}:{}", name, *rng.pick(&[0i64, 0, 5, -1, 10]), if nl { 1 } else { 0 }, rng.below(2), limit,
                rng.below(2), *rng.pick(&[0i64, 1, 1, 2]), mk));
        }
    }
    let fact = |rng: &mut Rng| format!("{}:{}", rng.below(6), rng.below(6));
    let mut ops: Vec<String> = Vec::new();
    let init = fact(rng);
    // before the first call: mostly a marker of the no-loop name 0 (absent otherwise)
    if rng.chance(3, 4) { ops.push(format!("k{}={}", if rng.chance(3, 4) { 0 } else { rng.below(nnames) }, code(rng))); }
    ops.push("F".into());
    for _ in 0..*rng.pick(&[1u64, 1, 2, 2, 3]) {
        if rng.chance(1, 5) { ops.push("Z".into()); }
        if rng.chance(1, 4) { ops.push(format!("s{}", fact(rng))); }
        if rng.chance(1, 3) { ops.push(format!("k{}={}", rng.below(nnames), code(rng))); }
        ops.push("F".into());
    }
    format!("M {} {} {} {}", kind, rules.join(","), init, ops.join(" "))
}

/// one name code of a namespace: an ordinary one (`0..base`) or an unusual one (`odd_name`); `blank_bias`: prefer the blank-only names
fn gen_code(rng: &mut Rng, base: u64, blank_bias: bool) -> u64 {
    match rng.below(4) {
        0 => rng.below(base),
        1 if blank_bias => *rng.pick(&BLANK_CODES),
        _ => rng.range(ODD_LO, ODD_HI),
    }
}
/// pool of `k` pairwise different codes
fn gen_pool(rng: &mut Rng, k: usize, base: u64, blank_bias: bool) -> Vec<u64> {
    let mut out: Vec<u64> = Vec::new();
    while out.len() < k {
        let c = gen_code(rng, base, blank_bias);
        if !out.contains(&c) { out.push(c); }
    }
    out
}

/// family "unusual but legal NAMES" at the agenda level: the histories of `gen_agenda`, but rule names, agenda groups, activation
/// groups and ruleflow groups are drawn from small per-case pools that mix the ordinary names with the `odd_name` table — "" and
/// blank-only names, "MAIN" / "main" / "MAIN " / " MAIN" as an activation-group, ruleflow-group or rule name and next to the agenda
/// group MAIN, 300-byte names differing in the last byte, non-ASCII names, names differing only in case or in a trailing blank
/// (DIFFERENT names: no-loop / activation-group memory of one must not leak to the other, and each must have its own).  Activation
/// groups are frequent (1/2 of the adds) so that group exclusivity is exercised for every name.
fn gen_agenda_names(rng: &mut Rng) -> String {
    let len = rng.range(2, 14) as usize;
    let rules = gen_pool(rng, 3, 3, false);
    let mut ags = vec![0u64];
    let extra = rng.range(0, 2) as usize;
    for c in gen_pool(rng, extra, 3, true) { if c != 0 { ags.push(c); } }
    let actgs = gen_pool(rng, 2, 2, true);
    let rfgs = gen_pool(rng, 2, 2, true);
    let addish = rng.range(4, 8);
    let mut ops = Vec::new();
    for i in 0..len {
        let op = if rng.below(10) < addish {
            let actg = if rng.chance(1, 2) { rng.pick(&actgs).to_string() } else { "-".into() };
            let rfg = if rng.chance(1, 8) { rng.pick(&rfgs).to_string() } else { "-".into() };
            format!("a:{}:{}:{}:{}:{}:{}{}{}:{}", rng.pick(&rules), gen_sal(rng), rng.pick(&ags), actg, rfg,
                rng.below(2), if rng.chance(1, 8) { 1 } else { 0 }, if rng.chance(1, 8) { 1 } else { 0 }, i)
        } else {
            match rng.below(16) {
                0..=3 => "p".to_string(),
                4..=9 => "q".to_string(),
                10 => format!("m:{}:{}:{}:{}", rng.pick(&rules), rng.pick(&ags),
                    if rng.chance(1, 2) { rng.pick(&actgs).to_string() } else { "-".into() }, rng.below(2)),
                11 | 12 => format!("f:{}", if rng.chance(3, 4) { *rng.pick(&ags) } else { gen_code(rng, 3, true) }),
                13 => "r".to_string(),
                14 => if rng.chance(1, 3) { "c".to_string() } else { format!("s:{}", rng.below(7)) },
                _ => format!("R{}:{}", if rng.chance(2, 3) { "+" } else { "-" }, rng.pick(&rfgs)),
            }
        };
        ops.push(op);
    }
    if rng.chance(3, 4) {
        let drain = if rng.chance(2, 3) { "q" } else { "p" };
        for _ in 0..rng.range(1, 6) { ops.push(drain.to_string()); }
    }
    format!("A {}", ops.join(" "))
}

/// family "rules whose ACTIONS retract facts" (`K`): one IncrementalEngine, 1..3 NAMED rules (pairwise distinct saliences, mostly
/// no-loop), each action queueing 0..2 retractions — of its OWN matched fact (`o`), of a fixed handle (`h<n>`: another rule's
/// fact, a handle that a higher-salience rule or the same action has already retracted, a handle that never existed), or of the first
/// fact of the type (`t`) — driven through 2..4 fire_all calls with inserts / updates / retracts and sometimes a reset in between;
/// at most 3 facts are ever inserted (the iteration order of the type index is then one fixed permutation per run, see the model).
/// The clause "a no-loop rule fires at most once between resets" is evaluated over the whole history (`histOk`).
fn gen_kact(rng: &mut Rng) -> String {
    let mut prios: Vec<i64> = vec![-7, -1, 0, 3, 10, 50, i32::MAX as i64, i32::MIN as i64];
    rng.shuffle(&mut prios);
    let nrules = *rng.pick(&[1usize, 2, 2, 2, 3]);
    let odd_names = rng.chance(1, 4);
    let names: Vec<u64> = if odd_names { gen_pool(rng, nrules, 3, true) } else { (0..nrules as u64).collect() };
    let mut rules = Vec::new();
    for i in 0..nrules {
        let nl = rng.chance(4, 5);
        let act = |rng: &mut Rng| -> String {
            match rng.below(8) {
                0 | 1 => "o".to_string(),
                2 => "t".to_string(),
                3 => format!("h{}", *rng.pick(&[4u64, 9, 99, 0])),          // never existed (at most 3 inserts)
                _ => format!("h{}", rng.range(1, 3)),
            }
        };
        let mut acts: Vec<String> = Vec::new();
        for _ in 0..*rng.pick(&[0u64, 1, 1, 1, 2, 2]) { acts.push(act(rng)); }
        // a rule without no-loop consumes what it matched (otherwise it is the runaway of the `H` family) — mostly
        if !nl && rng.chance(5, 6) && !acts.iter().any(|a| a == "o") { acts.insert(0, "o".to_string()); }
        let limit = if rng.chance(2, 3) { *rng.pick(&[1_000_000_000i64, 150]) } else { rng.range(1, 6) as i64 };
        // a name may be registered twice (rarely): the second registration shares the name of rule 0
        let name = if i > 0 && rng.chance(1, 12) { names[0] } else { names[i] };
        rules.push(format!("{}:{}:{}:{}:{}:{}", name, prios[i], if nl { 1 } else { 0 }, rng.below(2), limit,
            if acts.is_empty() { "-".to_string() } else { acts.join("+") }));
    }
    let fact = |rng: &mut Rng| format!("{}:{}", rng.below(6), rng.below(6));
    let mut ops: Vec<String> = Vec::new();
    let mut inserted = 0u64;
    // a rule without no-loop that does not consume its fact runs to the bound (1000 firings, each re-creating one activation per
    // match): such histories keep to ONE fact (the model is run once per iteration order of the facts)
    let runaway = rules.iter().any(|r| { let p: Vec<&str> = r.split(':').collect(); p[2] == "0" && !p[5].split('+').any(|a| a == "o") });
    let max_ins = if runaway { 1 } else { 3 };
    for _ in 0..(*rng.pick(&[1u64, 2, 2, 3])).min(max_ins) { ops.push(format!("i{}", fact(rng))); inserted += 1; }
    if rng.chance(1, 8) { ops.push(format!("x{}", rng.range(1, inserted))); }
    ops.push("F".into());
    for _ in 0..*rng.pick(&[1u64, 1, 2, 2, 3]) {
        if rng.chance(1, 5) { ops.push("Z".into()); }
        match rng.below(6) {
            0 | 1 | 2 if inserted < max_ins => { ops.push(format!("i{}", fact(rng))); inserted += 1; }
            5 => ops.push(format!("x{}", rng.range(1, inserted))),
            _ => ops.push(format!("u{}:{}", rng.range(1, inserted), fact(rng))),
        }
        ops.push("F".into());
    }
    format!("K {} {}", rules.join(","), ops.join(" "))
}

/// engine-level names: rewrites the rule-name codes of an `M` / `K` case through an injective map into the `odd_name` table
fn odd_rule_names(rng: &mut Rng, case: &str) -> String {
    let t: Vec<&str> = case.split_whitespace().collect();
    let ri = if t[0] == "M" { 2 } else { 1 };
    let map = gen_pool(rng, 3, 1, true).into_iter().map(|c| if c == 0 { 29 } else { c }).collect::<Vec<u64>>();
    let m = |k: &str| -> String { k.parse::<usize>().ok().and_then(|k| map.get(k)).map(|c| c.to_string()).unwrap_or(k.to_string()) };
    let rules: Vec<String> = t[ri].split(',').map(|r| {
        let mut p: Vec<String> = r.split(':').map(|x| x.to_string()).collect();
        p[0] = m(&p[0]);
        if t[0] == "M" && p.len() == 8 && p[7] != "-" {
            p[7] = match p[7].split_once('=') { Some((k, v)) => format!("{}={}", m(k), v), None => m(&p[7]) };
        }
        p.join(":")
    }).collect();
    let mut out: Vec<String> = t.iter().map(|x| x.to_string()).collect();
    out[ri] = rules.join(",");
    if t[0] == "M" {
        for o in out.iter_mut().skip(4) {
            if let Some(k) = o.strip_prefix('k') {
                *o = match k.split_once('=') { Some((k, v)) => format!("k{}={}", m(k), v), None => format!("k{}", m(k)) };
            }
        }
    }
    out.join(" ")
}

/// family "activations queued by the caller on the engine's agenda" (seeded change C07-14: `fire_all` recording a fired activation only
/// the first time its rule NAME fires).  2..3 rules; a rule is either never satisfied (limit -100: every activation of it comes from
/// the caller) or satisfied by the inserted facts (then mostly no-loop: the engine's own activation fires once).  Ops: inserts, then
/// `a` ops — ungrouped and grouped activations (each rule keeps to ONE activation group, shared with other rules), flags no_loop 0/1,
/// with or without a matched fact, saliences that put the grouped activation of a rule BEHIND an earlier firing of the same rule and
/// another rule of the group behind that —, `F`, sometimes `Z` and a second round, update / retract in between.  At most one fact.
fn gen_group(rng: &mut Rng) -> String {
    let nrules = rng.range(2, 3);
    let mut rules = Vec::new();
    let mut matchable = Vec::new();
    // distinct saliences: the order in which `insert` visits rules of equal salience is a HashMap order
    let mut prios: Vec<i64> = vec![0, 5, 10, 20];
    rng.shuffle(&mut prios);
    for ri in 0..nrules as usize {
        let m = rng.chance(1, 3);
        let nl = if m { !rng.chance(1, 8) } else { rng.chance(1, 2) };
        matchable.push(m);
        rules.push(format!("{}:{}:0:{}:0:0", prios[ri], if nl { 1 } else { 0 }, if m { 10 } else { -100 }));
    }
    let grp: Vec<u64> = (0..nrules).map(|_| if rng.chance(3, 4) { 1 } else { 2 }).collect();
    let mut ops: Vec<String> = Vec::new();
    let mut facts = 0u64;
    // at most ONE fact: with two, the order in which `get_by_type` (a HashSet) hands the facts to the propagation decides where a stale
    // activation sits among activations of equal salience — not predictable
    for _ in 0..rng.below(2) { ops.push(format!("i{}:0", rng.below(5))); facts += 1; }
    let add = |rng: &mut Rng, facts: u64| -> String {
        let r = rng.below(nrules);
        let g = if rng.chance(2, 3) { format!("{}", if rng.chance(7, 8) { grp[r as usize] } else { 3 - grp[r as usize] }) } else { "-".to_string() };
        let h = if facts > 0 && rng.chance(1, 4) { format!("{}", rng.range(1, facts + 1)) } else { "-".to_string() };
        format!("a{}:{}:{}:{}:{}", r, *rng.pick(&[0i64, 5, 10, 20, 20, -3]), g, if rng.chance(3, 4) { 0 } else { 1 }, h)
    };
    for round in 0..rng.range(1, 3) {
        if round > 0 {
            if rng.chance(2, 3) { ops.push("Z".into()); }
            if facts > 0 && rng.chance(1, 4) { ops.push(format!("u{}:{}:0", rng.range(1, facts), rng.below(5))); }
            if facts > 0 && rng.chance(1, 8) { ops.push(format!("x{}", rng.range(1, facts))); }
        }
        for _ in 0..rng.range(if round == 0 { 2 } else { 0 }, 5) { ops.push(add(rng, facts)); }
        if rng.chance(1, 6) { ops.push("F".into()); ops.push(add(rng, facts)); }
        ops.push("F".into());
    }
    let _ = matchable;
    format!("G {} {}", rules.join(","), ops.join(" "))
}

fn gen(rng: &mut Rng, n: usize, _tier: &str) -> Vec<String> {
    let mut out = Vec::new();
    for i in 0..n {
        if i % 8 == 7 { out.push(gen_engine(rng)); } else if i % 32 == 3 { out.push(gen_history(rng)); } else { out.push(gen_agenda(rng)); }
    }
    // the named-rule-set family comes on top of the n cases (own stream: the cases above stay what they were)
    let mut r2 = Rng::new(rng.next() ^ 0x4e41_4d45_4421);
    for _ in 0..n / 16 { out.push(gen_named(&mut r2)); }
    for _ in 0..n / 32 { out.push(gen_stale(&mut r2)); }
    // marker-value family: own stream again
    let mut r3 = Rng::new(r2.next() ^ 0x4d41_524b_5631);
    for _ in 0..n / 16 { out.push(gen_marks(&mut r3)); }
    // unusual names (agenda level and engine level) and rules whose actions retract facts: own stream again
    let mut r4 = Rng::new(r3.next() ^ 0x4e41_4d45_5335);
    for _ in 0..n / 8 { out.push(gen_agenda_names(&mut r4)); }
    for _ in 0..n / 16 { out.push(gen_kact(&mut r4)); }
    for i in 0..n / 32 {
        let c = if i % 2 == 0 { gen_named(&mut r4) } else { gen_marks(&mut r4) };
        out.push(odd_rule_names(&mut r4, &c));
    }
    // activations queued by the caller on the engine's agenda: own stream again
    let mut r5 = Rng::new(r4.next() ^ 0x4752_4f55_5036);
    for _ in 0..n / 10 { out.push(gen_group(&mut r5)); }
    out
}

fn shrink(case: &str) -> Vec<String> {
    let t: Vec<&str> = case.split_whitespace().collect();
    match t.first().copied() {
        Some("A") => shrink_list(&t[1..]).into_iter().map(|v| format!("A {}", v.join(" "))).collect(),
        Some("H") if t.len() >= 2 => {
            let rules: Vec<&str> = t[1].split(',').collect();
            let mut out: Vec<String> = shrink_list(&t[2..]).into_iter().map(|v| format!("H {} {}", t[1], v.join(" "))).collect();
            if rules.len() > 1 {
                for v in shrink_list(&rules) { if !v.is_empty() { out.push(format!("H {} {}", v.join(","), t[2..].join(" "))); } }
            }
            out
        }
        // rules are referred to by index in the `a` ops: only the op list shrinks
        Some("G") if t.len() >= 2 => shrink_list(&t[2..]).into_iter().map(|v| format!("G {} {}", t[1], v.join(" "))).collect(),
        Some("K") if t.len() >= 2 => {
            let rules: Vec<&str> = t[1].split(',').collect();
            let mut out: Vec<String> = shrink_list(&t[2..]).into_iter().map(|v| format!("K {} {}", t[1], v.join(" "))).collect();
            if rules.len() > 1 {
                for v in shrink_list(&rules) { if !v.is_empty() { out.push(format!("K {} {}", v.join(","), t[2..].join(" "))); } }
            }
            // simpler rules: fewer queued results, ordinary name, salience 0 (only when there is one rule: saliences stay distinct)
            for (i, r) in rules.iter().enumerate() {
                let p: Vec<&str> = r.split(':').collect();
                if p.len() != 6 { continue; }
                let mut alts: Vec<Vec<String>> = Vec::new();
                let acts: Vec<&str> = if p[5] == "-" { vec![] } else { p[5].split('+').collect() };
                for v in shrink_list(&acts) {
                    let mut q: Vec<String> = p.iter().map(|x| x.to_string()).collect();
                    q[5] = if v.is_empty() { "-".to_string() } else { v.join("+") };
                    alts.push(q);
                }
                if p[0].parse::<u64>().map(|c| c >= ODD_LO).unwrap_or(false) {
                    let mut q: Vec<String> = p.iter().map(|x| x.to_string()).collect(); q[0] = i.to_string(); alts.push(q);
                }
                if rules.len() == 1 && p[1] != "0" {
                    let mut q: Vec<String> = p.iter().map(|x| x.to_string()).collect(); q[1] = "0".to_string(); alts.push(q);
                }
                for q in alts {
                    let mut rs: Vec<String> = rules.iter().map(|x| x.to_string()).collect();
                    rs[i] = q.join(":");
                    out.push(format!("K {} {}", rs.join(","), t[2..].join(" ")));
                }
            }
            out
        }
        Some("E") if t.len() == 4 => {
            let rules: Vec<&str> = t[2].split(',').collect();
            let facts: Vec<&str> = t[3].split(',').collect();
            let mut out = Vec::new();
            if rules.len() > 1 {
                for v in shrink_list(&rules) { if !v.is_empty() { out.push(format!("E {} {} {}", t[1], v.join(","), t[3])); } }
            }
            if facts.len() > 1 {
                for v in shrink_list(&facts) { if !v.is_empty() { out.push(format!("E {} {} {}", t[1], t[2], v.join(","))); } }
            }
            out
        }
        Some("M") if t.len() >= 4 => {
            let rules: Vec<&str> = t[2].split(',').collect();
            let head = format!("M {} ", t[1]);
            let mut out: Vec<String> = shrink_list(&t[4..]).into_iter().map(|v| format!("{}{} {} {}", head, t[2], t[3], v.join(" "))).collect();
            if rules.len() > 1 {
                for v in shrink_list(&rules) { if !v.is_empty() { out.push(format!("{}{} {} {}", head, v.join(","), t[3], t[4..].join(" "))); } }
            }
            // simpler rules: no marker, salience 0, increment 0
            for (i, r) in rules.iter().enumerate() {
                let p: Vec<&str> = r.split(':').collect();
                if p.len() != 8 { continue; }
                for (k, v) in [(7usize, "-"), (1, "0"), (6, "0"), (3, "0"), (5, "0")] {
                    if p[k] != v {
                        let mut q = p.clone(); q[k] = v;
                        let mut rs = rules.clone(); let qq = q.join(":"); rs[i] = &qq;
                        out.push(format!("{}{} {} {}", head, rs.join(","), t[3], t[4..].join(" ")));
                    }
                }
            }
            if t[3] != "-" && t[3] != "0:0" { out.push(format!("{}{} 0:0 {}", head, t[2], t[4..].join(" "))); }
            out
        }
        _ => vec![],
    }
}

fn main() {
    main_with(Prop { gen, exec, shrink });
}
