//! C11 — query history independence of BackwardEngine (memo cache).
//! case := `<cfg>m<0|1> <init facts> <rules> <ops>`   (cfg / facts / rules as in c09.rs)
//!   ops := op,op,…   op := `Q<atom>` query | `A<atom>` query_aggregate("count(?x) WHERE <pattern>")
//!                        | `S<F>=<val>` facts.set | `D<F>` facts.remove
//!                        | `K<D|B|I><depth>` engine.set_config (same memoisation / max_solutions, new strategy and depth);
//!                          queries after a `K` are reported with kind `k` (the cache model is not run on them:
//!                          set_config rebuilds the goal manager), the fresh engine uses the configuration in force
//! obs  := one item per Q/A op, `;`-separated:  `<kind q|a>/<key>/<answer>/<fresh>/<hit>`
//!   key = query text | max_solutions in force | canonical facts before the call (hex of the text)
//!   answer = provable (Q) or count > 0 … rendered `1|0|e`; fresh = the same from a freshly built engine on
//!   a deep copy of the facts; hit = the call was answered without searching (stats.goals_explored == 0)
#[allow(dead_code)]
#[path = "c09.rs"]
mod c09;
use c09::{build_engine, parse_case, show_facts, FIELDS};
use rre_harness::*;
use rust_rule_engine::engine::facts::Facts;
use rust_rule_engine::types::Value;

fn deep_copy(f: &Facts) -> Facts {
    let g = Facts::new();
    for (k, v) in f.get_all_facts() {
        g.set(&k, v);
    }
    g
}

fn show_value(v: &Value) -> String {
    match v {
        Value::Integer(i) => format!("i{}", i),
        Value::Number(n) => format!("n{}", n.to_bits()),
        Value::Boolean(b) => format!("b{}", b),
        _ => "?".into(),
    }
}

fn exec(case: &str) -> String {
    let t: Vec<&str> = case.split_whitespace().collect();
    if t.len() != 4 {
        return "bad-case".into();
    }
    let Some((cfg, memo)) = t[0].split_once('m') else { return "bad-case".into() };
    let memo = memo == "1";
    // reuse the c09 parser for configuration, rules and initial facts
    let Some(mut base) = parse_case(&format!("{} {} F0.eq.t {}", cfg, t[1], t[2])) else { return "bad-case".into() };
    let mut engine = build_engine(&base, memo);
    let mut reconfigured = false;
    let mut facts = Facts::new();
    for (k, v) in &base.facts {
        facts.set(FIELDS[*k], v.clone());
    }
    let mut out = Vec::new();
    for op in t[3].split(',') {
        let (kind, rest) = op.split_at(1);
        match kind {
            "S" => {
                let Some(c) = parse_case(&format!("{} {} F0.eq.t -", cfg, rest)) else { return "bad-case".into() };
                for (k, v) in c.facts {
                    facts.set(FIELDS[k], v);
                }
            }
            "D" => {
                let Some(i) = rest.strip_prefix('F').and_then(|x| x.parse::<usize>().ok()) else { return "bad-case".into() };
                if i >= FIELDS.len() {
                    return "bad-case".into();
                }
                facts.remove(FIELDS[i]);
            }
            "K" => {
                let strategy = match &rest[..1] {
                    "D" => rust_rule_engine::backward::search::SearchStrategy::DepthFirst,
                    "B" => rust_rule_engine::backward::search::SearchStrategy::BreadthFirst,
                    "I" => rust_rule_engine::backward::search::SearchStrategy::Iterative,
                    _ => return "bad-case".into(),
                };
                let Ok(d) = rest[1..].parse::<usize>() else { return "bad-case".into() };
                base.strategy = strategy;
                base.max_depth = d;
                engine.set_config(rust_rule_engine::backward::backward_engine::BackwardConfig {
                    max_depth: d,
                    strategy,
                    enable_memoization: memo,
                    max_solutions: base.max_solutions,
                });
                reconfigured = true;
            }
            "Q" | "A" => {
                let Some(c) = parse_case(&format!("{} - {} -", cfg, rest)) else { return "bad-case".into() };
                let before = show_facts(&facts);
                let mut fresh_engine = build_engine(&base, memo);
                let mut copy = deep_copy(&facts);
                let (ans, fresh, hit, ms) = if kind == "Q" {
                    let fr = match fresh_engine.query(&c.query, &mut copy) {
                        Ok(r) => if r.provable { "1" } else { "0" }.to_string(),
                        Err(_) => "e".to_string(),
                    };
                    match engine.query(&c.query, &mut facts) {
                        Ok(r) => (if r.provable { "1" } else { "0" }.to_string(), fr, r.stats.goals_explored == 0, base.max_solutions.to_string()),
                        Err(_) => ("e".to_string(), fr, false, base.max_solutions.to_string()),
                    }
                } else {
                    let q = format!("count(?x) WHERE {}", c.query);
                    let fr = match fresh_engine.query_aggregate(&q, &mut copy) {
                        Ok(v) => show_value(&v),
                        Err(_) => "e".to_string(),
                    };
                    match engine.query_aggregate(&q, &mut facts) {
                        Ok(v) => (show_value(&v), fr, false, "max".to_string()),
                        Err(_) => ("e".to_string(), fr, false, "max".to_string()),
                    }
                };
                let key = format!("{}|{}|{}", c.query, ms, before);
                let kd = if kind == "A" { "a" } else if reconfigured { "k" } else { "q" };
                out.push(format!("{}/{}/{}/{}/{}", kd, hex(&key), ans, fresh, if hit { 1 } else { 0 }));
            }
            _ => return "bad-case".into(),
        }
    }
    if out.is_empty() { "-".into() } else { out.join(";") }
}

fn gen(rng: &mut Rng, n: usize, _tier: &str) -> Vec<String> {
    let mut out = Vec::new();
    for _ in 0..n {
        // a small derivation problem over fields F0..F3 (+ F5 goal, F6 input)
        let nf = 4u64;
        let mut rules = Vec::new();
        for _ in 0..rng.range(1, 5) {
            let c = if rng.chance(1, 3) {
                format!("&,F{}.eq.t,F6.eq.n{}", rng.below(nf), rng.below(2))
            } else if rng.chance(1, 2) {
                format!("F6.eq.n{}", rng.below(2))
            } else {
                format!("F{}.eq.t", rng.below(nf))
            };
            let h = if rng.chance(1, 3) { 5 } else { rng.below(nf) };
            rules.push(format!("{}~F{}:={}", c, h, if rng.chance(4, 5) { "t" } else { "f" }));
        }
        let strat = ["D", "D", "B", "I"][rng.below(4) as usize];
        let cfg = format!("{}{}s{}m{}", strat, rng.range(1, 4), if rng.chance(3, 4) { 1 } else { 3 }, if rng.chance(5, 6) { 1 } else { 0 });
        let init = if rng.chance(1, 2) { "F6=n1".to_string() } else { "-".to_string() };
        let goals = ["F5.eq.t", "F0.eq.t", "F1.eq.t", "F5.eq.f"];
        let mut ops = Vec::new();
        let nq = rng.range(2, 6);
        let mut q = 0;
        let g0 = *rng.pick(&goals);
        while q < nq {
            match rng.below(10) {
                0..=4 => {
                    // mostly the same query again: that is what a stale cache answers wrongly
                    let g = if rng.chance(2, 3) { g0 } else { *rng.pick(&goals) };
                    ops.push(format!("{}{}", if rng.chance(1, 8) { "A" } else { "Q" }, g));
                    q += 1;
                }
                // the same printed value in another type (Integer 1 / Number 1.0, Boolean true / String "true"):
                // the verdict changes, a key that forgets the type does not
                5..=6 => ops.push(format!("SF6={}{}", if rng.chance(1, 3) { "i" } else { "n" }, rng.below(2))),
                7 => ops.push(format!("SF{}={}", rng.below(nf), *rng.pick(&["t", "f", "t", "f", "strue", "sfalse"]))),
                8 => ops.push(format!("DF{}", *rng.pick(&[6u64, 5, 0, 1]))),
                9 if rng.chance(1, 2) => ops.push(format!("K{}{}", *rng.pick(&["D", "B", "I"]), rng.range(1, 4))),
                _ => ops.push("DF6".to_string()),
            }
        }
        out.push(format!("{} {} {} {}", cfg, init, rules.join(";"), ops.join(",")));
    }
    // reconfiguration family: the same query before and after a set_config that changes only the strategy
    // (breadth-first does not prove premises recursively, so it legitimately disagrees with depth-first on a
    // chain of rules; a cache that survives the change returns the other strategy's verdict)
    for _ in 0..n / 10 {
        let d = rng.range(2, 4);
        let s1 = *rng.pick(&["B", "D", "I"]);
        let s2 = *rng.pick(&["B", "D", "I"]);
        let len = rng.range(1, 3);
        let mut rules = vec!["F6.eq.n1~F0:=t".to_string()];
        for i in 0..len {
            rules.push(format!("F{}.eq.t~F{}:=t", i, if i + 1 == len { 5 } else { i + 1 }));
        }
        rng.shuffle(&mut rules);
        let mut ops = vec!["QF5.eq.t".to_string()];
        if rng.chance(1, 2) {
            // put the facts back as they were, so that only the configuration differs
            for i in 0..len {
                ops.push(format!("DF{}", i));
            }
            ops.push("DF5".to_string());
        }
        ops.push(format!("K{}{}", s2, d));
        ops.push("QF5.eq.t".to_string());
        out.push(format!("{}{}s1m1 F6=n1 {} {}", s1, d, rules.join(";"), ops.join(",")));
    }
    out
}

fn shrink(case: &str) -> Vec<String> {
    let t: Vec<&str> = case.split_whitespace().collect();
    if t.len() != 4 {
        return vec![];
    }
    let ops: Vec<String> = t[3].split(',').map(|s| s.to_string()).collect();
    let rules: Vec<String> = t[2].split(';').map(|s| s.to_string()).collect();
    let mut out = Vec::new();
    for v in shrink_list(&ops) {
        if !v.is_empty() {
            out.push(format!("{} {} {} {}", t[0], t[1], t[2], v.join(",")));
        }
    }
    for v in shrink_list(&rules) {
        if !v.is_empty() {
            out.push(format!("{} {} {} {}", t[0], t[1], v.join(";"), t[3]));
        }
    }
    out
}

fn main() {
    main_with(Prop { gen, exec, shrink });
}
