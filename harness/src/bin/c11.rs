//! C11 — query history independence of BackwardEngine (memo cache).
//! case := `<cfg>m<0|1> <init facts> <rules> <ops>`   (cfg / facts / rules as in c09.rs)
//!   ops := op,op,…   op := `Q<atom>` query | `N<atom>` query("NOT <atom>") — the negated goal
//!                        | `A<atom>` query_aggregate("count(?x) WHERE <pattern>")
//!                        | `S<F>=<val>` facts.set | `D<F>` facts.remove
//!                        | `P<prefix>*<n>=<xval>` bulk load: facts.set("<prefix><i:02>", xval) for i in 0..n — `n` extra
//!                          facts whose names sort where the prefix puts them (`0k` before every FIELDS name, `H` between
//!                          `G` and `U.P`, `z` after all of them); prefix := [A-Za-z0-9.]+
//!                        | `X<name>=<xval>` facts.set of one extra fact by name
//!                          xval := val | `l<len>` (the String of `len` letters x: a long value)
//!                        | `K<D|B|I><depth>` engine.set_config (same memoisation / max_solutions, new strategy and depth);
//!                          queries after a `K` are reported with kind `k` (the cache model is not run on them:
//!                          set_config rebuilds the goal manager), the fresh engine uses the configuration in force
//!                        | `R` from here on every `Q` / `N` goes through query_with_rete_engine(.., Some(rete)) with ONE
//!                          IncrementalEngine attached for the rest of the history (the fresh engine of the comparison gets a
//!                          freshly built one); rule Sets on dotted fields (`U.P`, `U.Q`) are then also inserted there as
//!                          logical facts and recorded in the search's proof graph
//!                        | `T` retract every fact the attached IncrementalEngine holds (TMS cascade included)
//!                        | `E<k>` engine.query_aggregate(MALFORMED[k]): an aggregate query that returns Err — the header parses and
//!                          the WHERE pattern does not (k < 6), or the header itself is rejected (k >= 6, control)
//!   additions to c09's value / atom syntax, handled here (c09.rs is unchanged): val `z` = Value::Null (init facts, S, X, query
//!   literal `F<i>.<op>.z` = `<field> <op> null`, rule condition literal and Set literal); rule condition atom `F<i>.ex.t` = the
//!   test `exists(<field>)`
//!   KNOWLEDGE-BASE EDITS on the live engine (U09; through `engine.knowledge_base()`, as in c09.rs's histories) and `rebuild_index`:
//!     `+<i>=<j>` add_rule(a copy of the j-th rule of the rules token, ENABLED, under the name `R<i>`; an existing name is rejected)
//!     | `-<i>` remove_rule("R<i>") | `e<i>` / `d<i>` set_rule_enabled("R<i>", true / false) | `z` clear() | `x` engine.rebuild_index()
//!     a rule of the rules token may carry c09's `*` marker (added DISABLED: a reserve for `e<i>` / `+<i>=<j>`).
//!     The engine of the fresh comparison is built on the rule list as it was when the index was last built (construction or
//!     the last `x`) and then given the same edits since, WITHOUT a rebuild: "a fresh engine on the rule set as it is at that step,
//!     with the index as fresh as the last rebuild_index made it". The obs key carries the number of effective edits (`v<n>`,
//!     counted by the harness, not read from the code) once there was one; queries after an `x` are of kind `k` (cache emptied).
//!   MUTATOR SUFFIX (U09): every `S` / `D` / `X` op may end in `@<m>`: WHICH public mutator of `Facts` makes the change — the
//!   contents afterwards are the same for every choice (the models read contents only: Driver/C11.lean drops the suffix), what
//!   differs is the route, i.e. whatever bookkeeping the code keeps beside the contents (undo log, type table, stamps, …):
//!     put (S, X): none/`s` Facts::set | `n` set_nested (names without a dot; dotted names go through set) | `a` add_value
//!                 | `j` add::<T> (serde: bool / i64 / f64 / String / () — arrays and objects go through add_value)
//!                 | `m` merge(&other) from another Facts holding just this entry | `t` restore(snapshot with the entry changed)
//!                 | `c` clear() + every entry added again (add_value) | `w` a NEW Facts object = from_context(changed contents)
//!                 | `y` a NEW Facts object = Facts::new() + add_value of every entry
//!     del (D):    none/`s` Facts::remove | `t` restore(snapshot without the entry) | `c` clear() + the others added again
//!                 | `w` / `y` a NEW Facts object without the entry
//!   op `W` / `Wy`: the caller hands the NEXT query a NEW Facts object with EQUAL contents (from_context / new + add_value)
//! obs  := one item per Q/N/A/E op, `;`-separated:  `<kind q|a|k>/<key>/<answer>/<fresh>/<hit>/<flags>/<after>`
//!   after = the caller's facts after the call on the long-lived engine (c09's rendering; `?` when a fact outside c09's universe
//!           is present; a present Null is rendered `z`) — with answer and hit what the engine model of Driver/C11.lean predicts for every call
//!   key = query text | max_solutions in force | canonical facts before the call — hex of the text when it is short,
//!         `h<len>.<two 64-bit FNV digests>` of the text when it is longer than 160 bytes (large stores; the key is only
//!         compared for equality by the cache model)
//!   answer = provable (Q/N) or count > 0 … rendered `1|0|e`; fresh = the same from a freshly built engine on
//!   a deep copy of the facts; hit = the call was answered without searching (stats.goals_explored == 0)
//!   flags (input classification only, `-` when none): `N` a negated goal; `n` the negation / un-negated form of this query was asked earlier
//!   on identical facts; `p` the same query was asked earlier on facts that are a non-trivial PERMUTATION of the present
//!   ones (same names, same multiset of values, another assignment); `L` the engine's own key text (query, max_solutions,
//!   Debug of the facts sorted by name) is longer than 1024 bytes; `c` the same query was asked earlier on facts whose
//!   rendering shares the first 1024 bytes with the present one but differs later; `E` an aggregate call that returns Err on the
//!   fresh engine; `e` a query asked after an aggregate call failed on this engine; `w` an earlier call's engine key text differs
//!   from this one's ONLY in whitespace (blanks inside a string literal of the query / inside a string value of the facts);
//!   `z` the same query was asked earlier on facts that differ from the present ones ONLY in entries holding Null (absent vs Null);
//!   `R` a RETE engine is attached to the call; `T` facts were retracted in the attached engine earlier in the history;
//!   `V` the knowledge base of the live engine was edited earlier in the history; `s` … and not every edit was followed by a
//!   rebuild_index yet (the conclusion index is stale)
#[allow(dead_code)]
#[path = "c09.rs"]
mod c09;
use c09::{build_engine, parse_case, show_facts, FIELDS};
use rre_harness::*;
use rust_rule_engine::engine::facts::Facts;
use rust_rule_engine::engine::rule::{ConditionExpression, ConditionGroup, Rule};
use rust_rule_engine::types::{ActionType, Value};

/// aggregate queries that return Err. 0..=5: `parse_aggregate_query` accepts the header and the INNER query fails on the WHERE
/// pattern (the error path behind the temporary max_solutions / memoisation switch); 6..: rejected before that (control)
const MALFORMED: [&str; 8] = [
    "count(?x) WHERE (((",
    "count(?x) WHERE A ==",
    "sum(?x) WHERE )",
    "count(?x) WHERE A == \"open",
    "first(?x) WHERE && B",
    "last(?x) WHERE (A == true",
    "count(?x) A == true",
    "total(?x) WHERE A == true",
];

const NULL_SENTINEL: &str = "ZNULLZ";
const EXISTS_SENTINEL: &str = "ZEXISTSZ";

/// c11's additions to c09's rule syntax (`z` literal, `F<i>.ex.t` atom) rewritten to string sentinels c09's parser accepts
fn lower_rules(rules: &str) -> String {
    if rules == "-" {
        return rules.to_string();
    }
    let mut out = Vec::new();
    for r in rules.split(';') {
        let Some((c, a)) = r.split_once('~') else {
            out.push(r.to_string());
            continue;
        };
        let conds: Vec<String> = c
            .split(',')
            .map(|t| {
                if let Some(f) = t.strip_suffix(".ex.t") {
                    format!("{}.eq.s{}", f, EXISTS_SENTINEL)
                } else if let Some(x) = t.strip_suffix(".z") {
                    format!("{}.s{}", x, NULL_SENTINEL)
                } else {
                    t.to_string()
                }
            })
            .collect();
        let acts: Vec<String> = a
            .split('+')
            .map(|t| match t.strip_suffix(":=z") {
                Some(f) => format!("{}:=s{}", f, NULL_SENTINEL),
                None => t.to_string(),
            })
            .collect();
        out.push(format!("{}~{}", conds.join(","), acts.join("+")));
    }
    out.join(";")
}

fn raise_group(g: &mut ConditionGroup) {
    match g {
        ConditionGroup::Single(c) => {
            if c.value == Value::String(NULL_SENTINEL.to_string()) {
                c.value = Value::Null;
            } else if c.value == Value::String(EXISTS_SENTINEL.to_string()) {
                if let ConditionExpression::Field(name) = c.expression.clone() {
                    c.expression = ConditionExpression::Test { name: "exists".to_string(), args: vec![name] };
                    c.value = Value::Boolean(true);
                }
            }
        }
        ConditionGroup::Compound { left, right, .. } => {
            raise_group(left);
            raise_group(right);
        }
        _ => {}
    }
}

/// … and the sentinels replaced by what they stand for in the parsed rules
fn raise_rules(rules: &mut [Rule]) {
    for r in rules.iter_mut() {
        raise_group(&mut r.conditions);
        for a in r.actions.iter_mut() {
            if let ActionType::Set { value, .. } = a {
                if *value == Value::String(NULL_SENTINEL.to_string()) {
                    *value = Value::Null;
                }
            }
        }
    }
}

/// `F<i>=z` entries of a fact list: (fields set to Null, the remaining list in c09's syntax)
fn split_nulls(facts: &str) -> Option<(Vec<usize>, String)> {
    if facts == "-" {
        return Some((vec![], "-".to_string()));
    }
    let mut nulls = Vec::new();
    let mut rest = Vec::new();
    for kv in facts.split(',') {
        match kv.strip_suffix("=z") {
            Some(f) => {
                let i: usize = f.strip_prefix('F')?.parse().ok()?;
                if i >= FIELDS.len() {
                    return None;
                }
                nulls.push(i);
            }
            None => rest.push(kv),
        }
    }
    Some((nulls, if rest.is_empty() { "-".to_string() } else { rest.join(",") }))
}

/// query text of an atom; `F<i>.<op>.z` is the comparison with the literal `null`
fn query_text(cfg: &str, atom: &str) -> Option<String> {
    if let Some(x) = atom.strip_suffix(".z") {
        let (f, op) = x.split_once('.')?;
        let i: usize = f.strip_prefix('F')?.parse().ok()?;
        if i >= FIELDS.len() {
            return None;
        }
        let op = match op {
            "eq" => "==",
            "ne" => "!=",
            "gt" => ">",
            "lt" => "<",
            "ge" => ">=",
            "le" => "<=",
            _ => return None,
        };
        return Some(format!("{} {} null", FIELDS[i], op));
    }
    Some(parse_case(&format!("{} - {} -", cfg, atom))?.query)
}

fn strip_ws(s: &str) -> String {
    s.split_whitespace().collect()
}

fn without_nulls(c: &[(String, String)]) -> Vec<(String, String)> {
    c.iter().filter(|(_, v)| v != "z").cloned().collect()
}

fn deep_copy(f: &Facts) -> Facts {
    let g = Facts::new();
    for (k, v) in f.get_all_facts() {
        g.set(&k, v);
    }
    g
}

fn show_value(v: &Value) -> String {
    match v {
        Value::Integer(i) => format!("i{}", i),
        Value::Number(n) => format!("n{}", n.to_bits()),
        Value::Boolean(b) => format!("b{}", b),
        _ => "?".into(),
    }
}

/// values of the extra facts: c09's literals plus `l<len>` = a String of `len` letters x
fn parse_xval(s: &str) -> Option<Value> {
    match s.chars().next()? {
        't' if s == "t" => Some(Value::Boolean(true)),
        'f' if s == "f" => Some(Value::Boolean(false)),
        'z' if s == "z" => Some(Value::Null),
        'n' => Some(Value::Number(s[1..].parse::<i64>().ok()? as f64)),
        'i' => Some(Value::Integer(s[1..].parse().ok()?)),
        's' => Some(Value::String(s[1..].replace('_', " "))),
        'l' => {
            let n: usize = s[1..].parse().ok()?;
            if n > 4096 {
                return None;
            }
            Some(Value::String("x".repeat(n)))
        }
        _ => None,
    }
}

/// injective rendering of a value (type tag + content; numbers as bit patterns)
fn show_any(v: &Value) -> String {
    match v {
        Value::Boolean(true) => "t".into(),
        Value::Boolean(false) => "f".into(),
        Value::Number(x) => format!("n{:x}", x.to_bits()),
        Value::Integer(i) => format!("i{}", i),
        Value::String(s) => format!("s{}", hex(s)),
        Value::Null => "z".into(),
        other => format!("?{}", hex(&format!("{:?}", other))),
    }
}

fn extra_name_ok(s: &str) -> bool {
    !s.is_empty() && s.len() <= 24 && s.chars().all(|c| c.is_ascii_alphanumeric() || c == '.') && !FIELDS.contains(&s)
}

/// the caller's facts, sorted by name, each value rendered injectively
fn canon(f: &Facts) -> Vec<(String, String)> {
    let mut v: Vec<(String, String)> = f.get_all_facts().iter().map(|(k, v)| (k.clone(), show_any(v))).collect();
    v.sort();
    v
}

/// canonical text of the facts for the observation key: c09's rendering while only FIELDS are present (as before),
/// `name=value` of every fact otherwise
fn facts_text(f: &Facts, c: &[(String, String)]) -> String {
    if c.iter().all(|(k, v)| FIELDS.contains(&k.as_str()) && v != "z" && !v.starts_with('?')) {
        show_facts(f)
    } else {
        c.iter().map(|(k, v)| format!("{}={}", k, v)).collect::<Vec<_>>().join(",")
    }
}

/// the caller's facts after a call, for the engine model's prediction (`?` outside c09's universe)
fn after_text(f: &Facts) -> String {
    let c = canon(f);
    // (a present Null is inside c09's universe since S09: rendered `z`)
    if c.iter().all(|(k, v)| FIELDS.contains(&k.as_str()) && !v.starts_with('?')) {
        show_facts(f)
    } else {
        "?".to_string()
    }
}

fn fnv64(s: &str, basis: u64) -> u64 {
    let mut h = basis;
    for b in s.bytes() {
        h ^= b as u64;
        h = h.wrapping_mul(0x100000001b3);
    }
    h
}

/// bounded rendering of the key text (the cache model only compares keys for equality)
fn show_key(key: &str) -> String {
    if key.len() <= 160 {
        hex(key)
    } else {
        format!("h{}.{:016x}{:016x}", key.len(), fnv64(key, 0xcbf29ce484222325), fnv64(key, 0x84222325cbf29ce4))
    }
}

/// the text `BackwardEngine::memo_key` renders for these facts (used only for the classification flags `L` / `c`)
fn engine_key_text(query: &str, ms: usize, f: &Facts) -> String {
    let mut entries: Vec<(String, Value)> = f.get_all_facts().into_iter().collect();
    entries.sort_by(|a, b| a.0.cmp(&b.0));
    format!("{}\u{0}{}\u{0}{:?}", query, ms, entries)
}

struct Asked {
    query: String,
    ms: String,
    facts: Vec<(String, String)>,
    text: String,
}

fn is_permutation(a: &[(String, String)], b: &[(String, String)]) -> bool {
    if a == b || a.len() != b.len() || a.iter().zip(b).any(|(x, y)| x.0 != y.0) {
        return false;
    }
    let mut va: Vec<&String> = a.iter().map(|x| &x.1).collect();
    let mut vb: Vec<&String> = b.iter().map(|x| &x.1).collect();
    va.sort();
    vb.sort();
    va == vb
}

/// an edit of the knowledge base of a live engine
#[derive(Clone)]
enum Edit {
    Add(Rule),
    Remove(String),
    Enable(String, bool),
    Clear,
}

/// what `KnowledgeBase` does with an edit, on a plain list (all saliences equal: `get_rules()` = insertion order); true = the
/// edit counts (the version moves)
fn shadow_edit(live: &mut Vec<Rule>, e: &Edit) -> bool {
    match e {
        Edit::Add(r) => {
            if live.iter().any(|x| x.name == r.name) {
                return false;
            }
            live.push(r.clone());
            true
        }
        Edit::Remove(n) => {
            let had = live.iter().any(|x| &x.name == n);
            live.retain(|x| &x.name != n);
            had
        }
        Edit::Enable(n, b) => {
            let mut had = false;
            for x in live.iter_mut() {
                if &x.name == n {
                    x.enabled = *b;
                    had = true;
                }
            }
            had
        }
        Edit::Clear => {
            live.clear();
            true
        }
    }
}

fn apply_edit(engine: &rust_rule_engine::backward::backward_engine::BackwardEngine, e: &Edit) {
    let kb = engine.knowledge_base();
    match e {
        Edit::Add(r) => {
            let _ = kb.add_rule(r.clone());
        }
        Edit::Remove(n) => {
            let _ = kb.remove_rule(n);
        }
        Edit::Enable(n, b) => {
            let _ = kb.set_rule_enabled(n, *b);
        }
        Edit::Clear => kb.clear(),
    }
}

/// the public mutators of `Facts` a caller can change one entry with (see MUTATOR SUFFIX in the header)
const PUT_MUTATORS: [char; 9] = ['s', 'n', 'a', 'j', 'm', 't', 'c', 'w', 'y'];
const DEL_MUTATORS: [char; 5] = ['s', 't', 'c', 'w', 'y'];

fn sorted_entries(f: &Facts) -> Vec<(String, Value)> {
    let mut v: Vec<(String, Value)> = f.get_all_facts().into_iter().collect();
    v.sort_by(|a, b| a.0.cmp(&b.0));
    v
}

/// `name := v` through the mutator `m`; false = unknown mutator
fn put(facts: &mut Facts, name: &str, v: Value, m: char) -> bool {
    match m {
        's' => facts.set(name, v),
        'n' => {
            if name.contains('.') {
                facts.set(name, v);
            } else if facts.set_nested(name, v).is_err() {
                return false;
            }
        }
        'a' => {
            let _ = facts.add_value(name, v);
        }
        'j' => {
            // which values go through serde is decided by their shape alone (never by asking the code under test)
            let r = match &v {
                Value::Boolean(b) => facts.add(name, *b),
                Value::Integer(i) => facts.add(name, *i),
                Value::Number(x) if x.is_finite() => facts.add(name, *x),
                Value::String(s) => facts.add(name, s.clone()),
                Value::Null => facts.add(name, ()),
                _ => facts.add_value(name, v.clone()),
            };
            if r.is_err() {
                return false;
            }
        }
        'm' => {
            let other = Facts::new();
            other.set(name, v);
            facts.merge(&other);
        }
        't' => {
            let mut snap = facts.snapshot();
            snap.data.insert(name.to_string(), v);
            facts.restore(snap);
        }
        'c' => {
            let mut all = sorted_entries(facts);
            all.retain(|(k, _)| k != name);
            all.push((name.to_string(), v));
            facts.clear();
            for (k, x) in all {
                let _ = facts.add_value(&k, x);
            }
        }
        'w' => {
            let mut ctx = facts.to_context();
            ctx.insert(name.to_string(), v);
            *facts = Facts::from_context(ctx);
        }
        'y' => {
            let mut all = sorted_entries(facts);
            all.retain(|(k, _)| k != name);
            all.push((name.to_string(), v));
            let g = Facts::new();
            for (k, x) in all {
                let _ = g.add_value(&k, x);
            }
            *facts = g;
        }
        _ => return false,
    }
    true
}

/// remove `name` through the mutator `m`; false = unknown mutator
fn del(facts: &mut Facts, name: &str, m: char) -> bool {
    match m {
        's' => {
            facts.remove(name);
        }
        't' => {
            let mut snap = facts.snapshot();
            snap.data.remove(name);
            snap.fact_types.remove(name);
            facts.restore(snap);
        }
        'c' => {
            let mut all = sorted_entries(facts);
            all.retain(|(k, _)| k != name);
            facts.clear();
            for (k, x) in all {
                let _ = facts.add_value(&k, x);
            }
        }
        'w' => {
            let mut ctx = facts.to_context();
            ctx.remove(name);
            *facts = Facts::from_context(ctx);
        }
        'y' => {
            let mut all = sorted_entries(facts);
            all.retain(|(k, _)| k != name);
            let g = Facts::new();
            for (k, x) in all {
                let _ = g.add_value(&k, x);
            }
            *facts = g;
        }
        _ => return false,
    }
    true
}

/// `<op>[@<m>]` -> (op, mutator)
fn split_mutator(op: &str) -> Option<(&str, char)> {
    match op.split_once('@') {
        None => Some((op, 's')),
        Some((o, m)) => {
            let mut cs = m.chars();
            let c = cs.next()?;
            if cs.next().is_some() || !matches!(o.chars().next()?, 'S' | 'D' | 'X') {
                return None;
            }
            Some((o, c))
        }
    }
}

fn exec(case: &str) -> String {
    let t: Vec<&str> = case.split_whitespace().collect();
    if t.len() != 4 {
        return "bad-case".into();
    }
    let Some((cfg, memo)) = t[0].split_once('m') else { return "bad-case".into() };
    let memo = memo == "1";
    // reuse the c09 parser for configuration, rules and initial facts
    let Some((init_nulls, init_rest)) = split_nulls(t[1]) else { return "bad-case".into() };
    let Some(mut base) = parse_case(&format!("{} {} F0.eq.t {}", cfg, init_rest, lower_rules(t[2]))) else { return "bad-case".into() };
    raise_rules(&mut base.rules);
    let mut engine = build_engine(&base, memo);
    // knowledge-base edits: the rule token as written (for `+<i>=<j>`), the live rule list (shadow), the edits since the index was
    // last built (`base.rules` = the rule list it was built from), the number of effective edits
    let written: Vec<Rule> = base.rules.clone();
    let mut live: Vec<Rule> = base.rules.clone();
    let mut pending: Vec<Edit> = Vec::new();
    let mut version = 0usize;
    let fresh = |base: &c09::Case, pending: &[Edit]| {
        let e = build_engine(base, memo);
        for ed in pending {
            apply_edit(&e, ed);
        }
        e
    };
    let mut failed_aggregate = false;
    let mut reconfigured = false;
    let mut rete: Option<std::sync::Arc<std::sync::Mutex<rust_rule_engine::rete::propagation::IncrementalEngine>>> = None;
    let mut rete_retracted = false;
    let mut facts = Facts::new();
    for (k, v) in &base.facts {
        facts.set(FIELDS[*k], v.clone());
    }
    for k in init_nulls {
        facts.set(FIELDS[k], Value::Null);
    }
    let mut out = Vec::new();
    let mut asked: Vec<Asked> = Vec::new();
    for op in t[3].split(',') {
        if op.is_empty() {
            return "bad-case".into();
        }
        let Some((op, mu)) = split_mutator(op) else { return "bad-case".into() };
        let (kind, rest) = op.split_at(1);
        match kind {
            "S" if rest.ends_with("=z") => {
                let Some((nulls, _)) = split_nulls(rest) else { return "bad-case".into() };
                for k in nulls {
                    if !put(&mut facts, FIELDS[k], Value::Null, mu) {
                        return "bad-case".into();
                    }
                }
            }
            "S" => {
                let Some(c) = parse_case(&format!("{} {} F0.eq.t -", cfg, rest)) else { return "bad-case".into() };
                for (k, v) in c.facts {
                    if !put(&mut facts, FIELDS[k], v, mu) {
                        return "bad-case".into();
                    }
                }
            }
            "D" => {
                let Some(i) = rest.strip_prefix('F').and_then(|x| x.parse::<usize>().ok()) else { return "bad-case".into() };
                if i >= FIELDS.len() || !del(&mut facts, FIELDS[i], mu) {
                    return "bad-case".into();
                }
            }
            "W" if rest.is_empty() => {
                facts = Facts::from_context(facts.to_context());
            }
            "W" if rest == "y" => {
                let g = Facts::new();
                for (k, x) in sorted_entries(&facts) {
                    let _ = g.add_value(&k, x);
                }
                facts = g;
            }
            "P" => {
                let Some((pre, nv)) = rest.split_once('*') else { return "bad-case".into() };
                let Some((n, v)) = nv.split_once('=') else { return "bad-case".into() };
                let (Ok(n), Some(v)) = (n.parse::<usize>(), parse_xval(v)) else { return "bad-case".into() };
                if n > 200 || !extra_name_ok(pre) {
                    return "bad-case".into();
                }
                for i in 0..n {
                    facts.set(&format!("{}{:02}", pre, i), v.clone());
                }
            }
            "X" => {
                let Some((name, v)) = rest.split_once('=') else { return "bad-case".into() };
                let Some(v) = parse_xval(v) else { return "bad-case".into() };
                if !extra_name_ok(name) || !put(&mut facts, name, v, mu) {
                    return "bad-case".into();
                }
            }
            "K" => {
                if rest.is_empty() {
                    return "bad-case".into();
                }
                let strategy = match &rest[..1] {
                    "D" => rust_rule_engine::backward::search::SearchStrategy::DepthFirst,
                    "B" => rust_rule_engine::backward::search::SearchStrategy::BreadthFirst,
                    "I" => rust_rule_engine::backward::search::SearchStrategy::Iterative,
                    _ => return "bad-case".into(),
                };
                let Ok(d) = rest[1..].parse::<usize>() else { return "bad-case".into() };
                base.strategy = strategy;
                base.max_depth = d;
                engine.set_config(rust_rule_engine::backward::backward_engine::BackwardConfig {
                    max_depth: d,
                    strategy,
                    enable_memoization: memo,
                    max_solutions: base.max_solutions,
                });
                reconfigured = true;
            }
            "+" | "-" | "e" | "d" | "z" => {
                let num = |x: &str| x.parse::<usize>().ok().filter(|i| *i < 64);
                let ed = match kind {
                    "+" => {
                        let Some((i, j)) = rest.split_once('=') else { return "bad-case".into() };
                        let (Some(i), Some(j)) = (num(i), num(j)) else { return "bad-case".into() };
                        let Some(r) = written.get(j) else { return "bad-case".into() };
                        let mut r = r.clone();
                        r.name = format!("R{}", i);
                        r.enabled = true;
                        Edit::Add(r)
                    }
                    "z" if rest.is_empty() => Edit::Clear,
                    "z" => return "bad-case".into(),
                    _ => {
                        let Some(i) = num(rest) else { return "bad-case".into() };
                        match kind {
                            "-" => Edit::Remove(format!("R{}", i)),
                            "e" => Edit::Enable(format!("R{}", i), true),
                            _ => Edit::Enable(format!("R{}", i), false),
                        }
                    }
                };
                apply_edit(&engine, &ed);
                if shadow_edit(&mut live, &ed) {
                    version += 1;
                }
                pending.push(ed);
            }
            "x" if rest.is_empty() => {
                engine.rebuild_index();
                base.rules = live.clone();
                pending.clear();
                reconfigured = true;
            }
            "R" if rest.is_empty() => {
                if rete.is_none() {
                    rete = Some(std::sync::Arc::new(std::sync::Mutex::new(
                        rust_rule_engine::rete::propagation::IncrementalEngine::new(),
                    )));
                }
            }
            "T" if rest.is_empty() => {
                if let Some(r) = &rete {
                    let mut e = r.lock().unwrap();
                    let mut hs = e.working_memory().get_all_handles();
                    hs.sort_by_key(|h| h.id());
                    for h in hs {
                        if e.retract(h).is_ok() {
                            rete_retracted = true;
                        }
                    }
                }
            }
            "E" => {
                let Some(q) = rest.parse::<usize>().ok().and_then(|k| MALFORMED.get(k)) else { return "bad-case".into() };
                let cf = canon(&facts);
                let before = facts_text(&facts, &cf);
                let mut fresh_engine = fresh(&base, &pending);
                let mut copy = deep_copy(&facts);
                let fr = match fresh_engine.query_aggregate(q, &mut copy) {
                    Ok(v) => show_value(&v),
                    Err(_) => "e".to_string(),
                };
                let ans = match engine.query_aggregate(q, &mut facts) {
                    Ok(v) => show_value(&v),
                    Err(_) => "e".to_string(),
                };
                if ans == "e" {
                    failed_aggregate = true;
                }
                let key = format!("E{}|max|{}", rest, before);
                out.push(format!("a/{}/{}/{}/0/{}/{}", show_key(&key), ans, fr, if fr == "e" { "E" } else { "-" }, after_text(&facts)));
            }
            "Q" | "A" | "N" => {
                let Some(atom_query) = query_text(cfg, rest) else { return "bad-case".into() };
                let query = if kind == "N" { format!("NOT {}", atom_query) } else { atom_query };
                let cf = canon(&facts);
                let before = if version == 0 { facts_text(&facts, &cf) } else { format!("v{}|{}", version, facts_text(&facts, &cf)) };
                let mut fresh_engine = fresh(&base, &pending);
                let mut copy = deep_copy(&facts);
                let (text, ms);
                let (ans, fresh, hit) = if kind != "A" {
                    ms = base.max_solutions.to_string();
                    text = engine_key_text(&query, base.max_solutions, &facts);
                    let fresh_rete = rete.as_ref().map(|_| {
                        std::sync::Arc::new(std::sync::Mutex::new(rust_rule_engine::rete::propagation::IncrementalEngine::new()))
                    });
                    let fr = match fresh_engine.query_with_rete_engine(&query, &mut copy, fresh_rete) {
                        Ok(r) => if r.provable { "1" } else { "0" }.to_string(),
                        Err(_) => "e".to_string(),
                    };
                    match engine.query_with_rete_engine(&query, &mut facts, rete.clone()) {
                        Ok(r) => (if r.provable { "1" } else { "0" }.to_string(), fr, r.stats.goals_explored == 0),
                        Err(_) => ("e".to_string(), fr, false),
                    }
                } else {
                    ms = "max".to_string();
                    text = engine_key_text(&query, usize::MAX, &facts);
                    let q = format!("count(?x) WHERE {}", query);
                    let fr = match fresh_engine.query_aggregate(&q, &mut copy) {
                        Ok(v) => show_value(&v),
                        Err(_) => "e".to_string(),
                    };
                    match engine.query_aggregate(&q, &mut facts) {
                        Ok(v) => (show_value(&v), fr, false),
                        Err(_) => ("e".to_string(), fr, false),
                    }
                };
                // classification of the input situation (what kind of earlier call this one could be confused with)
                let partner = match query.strip_prefix("NOT ") {
                    Some(p) => p.to_string(),
                    None => format!("NOT {}", query),
                };
                let mut flags = String::new();
                if kind == "N" {
                    flags.push('N');
                }
                if asked.iter().any(|a| a.query == partner && a.ms == ms && a.facts == cf) {
                    flags.push('n');
                }
                if asked.iter().any(|a| a.query == query && a.ms == ms && is_permutation(&a.facts, &cf)) {
                    flags.push('p');
                }
                if text.len() > 1024 {
                    flags.push('L');
                    if asked.iter().any(|a| a.query == query && a.ms == ms && a.text != text && a.text.len() > 1024 && a.text.as_bytes()[..1024] == text.as_bytes()[..1024]) {
                        flags.push('c');
                    }
                }
                if failed_aggregate {
                    flags.push('e');
                }
                if asked.iter().any(|a| a.text != text && strip_ws(&a.text) == strip_ws(&text)) {
                    flags.push('w');
                }
                if asked.iter().any(|a| a.query == query && a.ms == ms && a.facts != cf && without_nulls(&a.facts) == without_nulls(&cf)) {
                    flags.push('z');
                }
                if version > 0 {
                    flags.push('V');
                    if !pending.is_empty() {
                        flags.push('s');
                    }
                }
                if rete.is_some() && kind != "A" {
                    flags.push('R');
                    if rete_retracted {
                        flags.push('T');
                    }
                }
                if flags.is_empty() {
                    flags.push('-');
                }
                let key = format!("{}|{}|{}", query, ms, before);
                let kd = if kind == "A" { "a" } else if reconfigured { "k" } else { "q" };
                out.push(format!("{}/{}/{}/{}/{}/{}/{}", kd, show_key(&key), ans, fresh, if hit { 1 } else { 0 }, flags, after_text(&facts)));
                asked.push(Asked { query, ms, facts: cf, text });
            }
            _ => return "bad-case".into(),
        }
    }
    if out.is_empty() { "-".into() } else { out.join(";") }
}

/// one random history over a small derivation problem on fields F0..F3 (+ F5 goal, F6 input): `(cfg, init, rules, ops)`
fn random_history(rng: &mut Rng) -> (String, String, Vec<String>, Vec<String>) {
    let nf = 4u64;
    let mut rules = Vec::new();
    for _ in 0..rng.range(1, 5) {
        let c = if rng.chance(1, 3) {
            format!("&,F{}.eq.t,F6.eq.n{}", rng.below(nf), rng.below(2))
        } else if rng.chance(1, 2) {
            format!("F6.eq.n{}", rng.below(2))
        } else {
            format!("F{}.eq.t", rng.below(nf))
        };
        let h = if rng.chance(1, 3) { 5 } else { rng.below(nf) };
        rules.push(format!("{}~F{}:={}", c, h, if rng.chance(4, 5) { "t" } else { "f" }));
    }
    let strat = ["D", "D", "B", "I"][rng.below(4) as usize];
    let cfg = format!("{}{}s{}m{}", strat, rng.range(1, 4), if rng.chance(3, 4) { 1 } else { 3 }, if rng.chance(5, 6) { 1 } else { 0 });
    let init = if rng.chance(1, 2) { "F6=n1".to_string() } else { "-".to_string() };
    let goals = ["F5.eq.t", "F0.eq.t", "F1.eq.t", "F5.eq.f"];
    let mut ops = Vec::new();
    let nq = rng.range(2, 6);
    let mut q = 0;
    let g0 = *rng.pick(&goals);
    while q < nq {
        match rng.below(10) {
            0..=4 => {
                // mostly the same query again: that is what a stale cache answers wrongly; 1 in 7 as the NEGATED goal
                // (`NOT g`), which must not share a cache entry with `g`
                let g = if rng.chance(2, 3) { g0 } else { *rng.pick(&goals) };
                let k = match rng.below(56) {
                    0..=6 => "A",
                    7..=14 => "N",
                    _ => "Q",
                };
                ops.push(format!("{}{}", k, g));
                q += 1;
            }
            // the same printed value in another type (Integer 1 / Number 1.0, Boolean true / String "true"):
            // the verdict changes, a key that forgets the type does not
            5..=6 => ops.push(format!("SF6={}{}", if rng.chance(1, 3) { "i" } else { "n" }, rng.below(2))),
            7 => ops.push(format!("SF{}={}", rng.below(nf), *rng.pick(&["t", "f", "t", "f", "strue", "sfalse"]))),
            8 => ops.push(format!("DF{}", *rng.pick(&[6u64, 5, 0, 1]))),
            9 if rng.chance(1, 2) => ops.push(format!("K{}{}", *rng.pick(&["D", "B", "I"]), rng.range(1, 4))),
            _ => ops.push("DF6".to_string()),
        }
    }
    (cfg, init, rules, ops)
}

/// prefixes of the extra facts by where their names sort relative to FIELDS (A B C D E G U.P U.Q X Y):
/// before all of them / between G and U.P / after all of them
const PRE_BEFORE: [&str; 3] = ["0k", "0.item", "9"];
const PRE_MIDDLE: [&str; 3] = ["H", "It.", "Mid.v"];
const PRE_AFTER: [&str; 3] = ["z", "Zone.t", "a"];

/// bulk-load ops whose facts render to well over 1024 bytes of the engine's key text: 36..80 small facts, or a
/// few long strings, or both
fn big_store(rng: &mut Rng, pres: &[&str]) -> Vec<String> {
    let pre = *rng.pick(pres);
    let small = ["i100", "t", "n7", "sab", "f", "i0"];
    match rng.below(4) {
        0 => vec![format!("P{}*{}={}", pre, rng.range(2, 5), format!("l{}", rng.range(300, 700)))],
        1 => vec![
            format!("P{}*{}={}", pre, rng.range(20, 50), *rng.pick(&small)),
            format!("P{}s*{}=l{}", pre, rng.range(1, 3), rng.range(400, 900)),
        ],
        _ => vec![format!("P{}*{}={}", pre, rng.range(36, 80), *rng.pick(&small))],
    }
}

fn other_query(rng: &mut Rng) -> String {
    format!(
        "{}F{}.{}.{}",
        if rng.chance(1, 4) { "N" } else { "Q" },
        rng.below(8),
        *rng.pick(&["eq", "eq", "ne", "gt", "lt"]),
        *rng.pick(&["t", "f", "n0", "n1", "n5", "sab"])
    )
}

/// negation family: a goal and its `NOT` form asked on IDENTICAL facts, in both orders, with other queries in
/// between — the two verdicts differ (closed world) under depth-first / iterative search
fn gen_negation(rng: &mut Rng) -> String {
    let vals = ["t", "f", "n0", "n1", "n5", "sab", "i1"];
    let mut init = Vec::new();
    let mut present = Vec::new();
    for f in [0u64, 1, 2, 3, 6, 7, 8] {
        if rng.chance(1, 2) {
            let v = *rng.pick(&vals);
            init.push(format!("F{}={}", f, v));
            present.push((f, v));
        }
    }
    // the goal: mostly about a present fact (true or false of it), sometimes about an absent one
    let g = if !present.is_empty() && rng.chance(4, 5) {
        let (f, v) = *rng.pick(&present);
        if v.starts_with('n') && rng.chance(1, 2) {
            format!("F{}.{}.n{}", f, *rng.pick(&["gt", "lt", "ge", "le", "ne"]), rng.below(6))
        } else if rng.chance(3, 4) && !v.starts_with('i') {
            format!("F{}.eq.{}", f, v)
        } else {
            format!("F{}.eq.{}", f, *rng.pick(&["t", "f", "n1", "sab"]))
        }
    } else {
        format!("F{}.eq.{}", *rng.pick(&[4u64, 5, 9]), *rng.pick(&["t", "f", "n1"]))
    };
    // rules: none (the facts cannot change between the two askings), or a few that conclude something else / the goal
    let mut rules = Vec::new();
    if rng.chance(2, 5) {
        for _ in 0..rng.range(1, 3) {
            let c = format!("F{}.eq.{}", rng.below(4), *rng.pick(&["t", "f", "n1"]));
            rules.push(format!("{}~F{}:={}", c, *rng.pick(&[4u64, 5, 5, 9, 0]), *rng.pick(&["t", "t", "f", "n1"])));
        }
    }
    let first_neg = rng.chance(1, 2);
    let form = |neg: bool| format!("{}{}", if neg { "N" } else { "Q" }, g);
    let mut ops = Vec::new();
    if rng.chance(1, 6) {
        ops.extend(big_store(rng, &PRE_AFTER));
    }
    ops.push(form(first_neg));
    for _ in 0..rng.below(4) {
        ops.push(other_query(rng));
    }
    ops.push(form(!first_neg));
    match rng.below(4) {
        // once more each way round (genuine hits now), or after a change that flips both
        0 => {
            ops.push(form(first_neg));
            ops.push(form(!first_neg));
        }
        1 if !present.is_empty() => {
            let (f, _) = *rng.pick(&present);
            ops.push(format!("SF{}={}", f, *rng.pick(&vals)));
            ops.push(form(!first_neg));
            ops.push(form(first_neg));
        }
        2 if !present.is_empty() => {
            let (f, _) = *rng.pick(&present);
            ops.push(format!("DF{}", f));
            ops.push(form(first_neg));
            ops.push(form(!first_neg));
        }
        _ => {}
    }
    let strat = ["D", "D", "D", "I", "B"][rng.below(5) as usize];
    let cfg = format!("{}{}s{}m{}", strat, rng.range(1, 4), if rng.chance(3, 4) { 1 } else { 3 }, if rng.chance(9, 10) { 1 } else { 0 });
    format!(
        "{} {} {} {}",
        cfg,
        if init.is_empty() { "-".to_string() } else { init.join(",") },
        if rules.is_empty() { "-".to_string() } else { rules.join(";") },
        ops.join(",")
    )
}

/// permutation family: the same query before and after the caller PERMUTES values among the same fact names (swap
/// of two, toggle of two opposite booleans, rotation of three) — name set and multiset of values are unchanged, the
/// verdict depends on which name holds which value (directly, or through a rule over two of the names)
fn gen_permutation(rng: &mut Rng) -> String {
    let mut fields: Vec<u64> = vec![0, 1, 2, 3, 6, 7, 8, 9];
    rng.shuffle(&mut fields);
    let k = if rng.chance(3, 5) { 2 } else { 3 };
    let fs: Vec<u64> = fields[..k].to_vec();
    let pools: [&[&str]; 6] = [
        &["t", "f", "t"],
        &["n3", "n8", "n5"],
        &["i1", "n1", "n0"],
        &["sab", "scd", "s"],
        &["t", "strue", "f"],
        &["n1", "t", "sab"],
    ];
    let pool = *rng.pick(&pools);
    let mut vals: Vec<&str> = pool[..k].to_vec();
    if k == 3 && vals[0] == vals[2] {
        vals[2] = "n1"; // three different holders need at least two different values; keep the rotation visible
    }
    let mut init: Vec<String> = (0..k).map(|i| format!("F{}={}", fs[i], vals[i])).collect();
    // bystanders that never change
    for f in &fields[k..] {
        if rng.chance(1, 4) {
            init.push(format!("F{}={}", f, *rng.pick(&["t", "f", "n1", "n3", "sab"])));
        }
    }
    rng.shuffle(&mut init);
    let numeric = vals.iter().all(|v| v.starts_with('n'));
    let mut rules = Vec::new();
    let derived = rng.chance(2, 5);
    let goal = if derived {
        // F5 := t  <-  a condition over one or two of the permuted names; true either before or after the permutation
        let j = rng.below(k as u64) as usize;
        let holder = if rng.chance(1, 2) { j } else { (j + 1) % k };
        let c1 = if numeric && rng.chance(1, 2) {
            format!("F{}.{}.n5", fs[holder], if vals[j] > "n5" { "gt" } else { "le" })
        } else {
            format!("F{}.eq.{}", fs[holder], vals[j])
        };
        let c = if rng.chance(1, 2) {
            let j2 = (j + 1) % k;
            let holder2 = (holder + 1) % k;
            format!("&,{},F{}.eq.{}", c1, fs[holder2], vals[j2])
        } else {
            c1
        };
        rules.push(format!("{}~F5:=t", c));
        if rng.chance(1, 3) {
            rules.push(format!("F{}.eq.n9~F4:=t", fs[0]));
        }
        rng.shuffle(&mut rules);
        "F5.eq.t".to_string()
    } else {
        let j = rng.below(k as u64) as usize;
        if numeric && rng.chance(1, 2) {
            format!("F{}.{}.n5", fs[j], *rng.pick(&["gt", "lt", "ge", "le"]))
        } else {
            format!("F{}.{}.{}", fs[j], if rng.chance(5, 6) { "eq" } else { "ne" }, vals[rng.below(k as u64) as usize])
        }
    };
    let ask = |rng: &mut Rng, ops: &mut Vec<String>| {
        ops.push(format!("{}{}", if rng.chance(1, 8) { "N" } else { "Q" }, goal));
        if derived {
            // a proof commits the derived fact: take it out again so that only the permutation differs
            if rng.chance(5, 6) {
                ops.push("DF5".to_string());
            }
        }
    };
    let mut ops = Vec::new();
    if rng.chance(1, 8) {
        ops.extend(big_store(rng, &PRE_AFTER));
    } else if rng.chance(1, 4) {
        ops.push(format!("P{}*{}={}", *rng.pick(&PRE_MIDDLE), rng.range(1, 6), *rng.pick(&["t", "n3", "sab"])));
    }
    ask(rng, &mut ops);
    let mut cur: Vec<&str> = vals.clone();
    for _ in 0..rng.range(1, 3) {
        for _ in 0..rng.below(3) {
            ops.push(other_query(rng));
        }
        // permute: rotation by one or two places (for k = 2 both are the swap / the double toggle)
        let r = if k == 3 && rng.chance(1, 2) { 2 } else { 1 };
        let next: Vec<&str> = (0..k).map(|i| cur[(i + r) % k]).collect();
        let mut sets: Vec<String> = (0..k).filter(|&i| next[i] != cur[i]).map(|i| format!("SF{}={}", fs[i], next[i])).collect();
        rng.shuffle(&mut sets);
        ops.extend(sets);
        cur = next;
        ask(rng, &mut ops);
    }
    let strat = ["D", "D", "B", "I"][rng.below(4) as usize];
    let cfg = format!("{}{}s{}m{}", strat, rng.range(1, 4), if rng.chance(3, 4) { 1 } else { 3 }, if rng.chance(9, 10) { 1 } else { 0 });
    format!("{} {} {} {}", cfg, init.join(","), if rules.is_empty() { "-".to_string() } else { rules.join(";") }, ops.join(","))
}

/// large-store family, focused form: the working memory renders to more than 1024 bytes in front of a LATE-sorting
/// relevant fact (X, Y, U.P/U.Q after the `0…`/`H…` extras); the same query before and after a change to that fact only
fn gen_late_change(rng: &mut Rng) -> String {
    let late = *rng.pick(&[6u64, 7, 7, 8, 9]);
    let (v0, v1) = *rng.pick(&[("n4", "n12"), ("f", "t"), ("t", "f"), ("n1", "i1"), ("sab", "scd"), ("n12", "n4")]);
    let derived = rng.chance(1, 2);
    let mut rules = Vec::new();
    let goal = if derived {
        rules.push(format!("F{}.eq.{}~F5:=t", late, if rng.chance(1, 2) { v0 } else { v1 }));
        if rng.chance(1, 3) {
            rules.push("F5.eq.t~F4:=t".to_string());
        }
        rng.shuffle(&mut rules);
        if rules.len() == 2 && rng.chance(1, 2) { "F4.eq.t" } else { "F5.eq.t" }.to_string()
    } else if v0.starts_with('n') && v1.starts_with('n') {
        format!("F{}.{}.n8", late, *rng.pick(&["lt", "gt", "le", "ge"]))
    } else {
        format!("F{}.eq.{}", late, if rng.chance(1, 2) { v0 } else { v1 })
    };
    let mut init = vec![format!("F{}={}", late, v0)];
    for f in [0u64, 1, 2] {
        if rng.chance(1, 3) {
            init.push(format!("F{}={}", f, *rng.pick(&["t", "f", "n1"])));
        }
    }
    let restore = |ops: &mut Vec<String>| {
        if derived {
            ops.push("DF5".to_string());
            ops.push("DF4".to_string());
        }
    };
    let mut ops = Vec::new();
    let before = rng.chance(5, 6);
    // the store is large from the start, or grows past the limit after the first query
    let grow_later = rng.chance(1, 5);
    let store = if before {
        let pres: &[&str] = if rng.chance(1, 2) { &PRE_BEFORE } else { &PRE_MIDDLE };
        big_store(rng, pres)
    } else {
        big_store(rng, &PRE_AFTER)
    };
    if !grow_later {
        ops.extend(store.clone());
    }
    ops.push(format!("Q{}", goal));
    restore(&mut ops);
    if grow_later {
        ops.extend(store);
        ops.push(format!("Q{}", goal));
        restore(&mut ops);
    }
    for _ in 0..rng.below(3) {
        ops.push(other_query(rng));
    }
    let mut cur = v0;
    for _ in 0..rng.range(1, 3) {
        match rng.below(6) {
            0 => {
                ops.push(format!("DF{}", late));
                cur = "";
            }
            _ => {
                cur = if cur == v1 { v0 } else { v1 };
                ops.push(format!("SF{}={}", late, cur));
            }
        }
        if rng.chance(1, 4) {
            // an extra fact behind everything changes too
            ops.push(format!("Xzz.last={}", *rng.pick(&["t", "n1", "l40"])));
        }
        ops.push(format!("{}{}", if rng.chance(1, 8) { "N" } else { "Q" }, goal));
        restore(&mut ops);
    }
    let strat = ["D", "D", "B", "I"][rng.below(4) as usize];
    let cfg = format!("{}{}s{}m{}", strat, rng.range(2, 4), if rng.chance(3, 4) { 1 } else { 3 }, if rng.chance(9, 10) { 1 } else { 0 });
    format!("{} {} {} {}", cfg, init.join(","), if rules.is_empty() { "-".to_string() } else { rules.join(";") }, ops.join(","))
}

/// pairs of string literals that are equal after deleting whitespace and different before (`_` = blank)
const WS_PAIRS: [(&str, &str); 8] = [
    ("sa_b", "sab"),
    ("s_", "s"),
    ("s_a", "sa"),
    ("sb_", "sb"),
    ("sa__b", "sa_b"),
    ("s__", "s_"),
    ("sJohn_Smith", "sJohnSmith"),
    ("sa_b_c", "sab_c"),
];

/// whitespace look-alike family: two calls on one engine whose (query, facts) differ ONLY in blanks inside a string —
/// (a) the same field compared with `"a b"` and then with `"ab"` on unchanged facts, (b) the same query before and after
/// the caller changes a string value to its look-alike (the goal reads the value directly or through a rule), (c) a
/// bystander fact changes that way (control: the verdict must not move)
fn gen_whitespace(rng: &mut Rng) -> String {
    let (mut u, mut v) = *rng.pick(&WS_PAIRS);
    if rng.chance(1, 2) {
        std::mem::swap(&mut u, &mut v);
    }
    let f = *rng.pick(&[0u64, 1, 2, 3, 6, 7, 8, 9]);
    let mut init = Vec::new();
    let mut rules = Vec::new();
    let mut ops = Vec::new();
    for b in [0u64, 1, 2, 6] {
        if b != f && rng.chance(1, 4) {
            init.push(format!("F{}={}", b, *rng.pick(&["t", "n1", "sab", "sa_b", "s_"])));
        }
    }
    let qk = |rng: &mut Rng| if rng.chance(1, 6) { "N" } else { "Q" };
    match rng.below(5) {
        0 | 1 => {
            // (a) query literals; the fact holds one of the two (or something else / nothing)
            match rng.below(6) {
                0 => {}
                1 => init.push(format!("F{}={}", f, *rng.pick(&["sx", "t", "s"]))),
                _ => init.push(format!("F{}={}", f, if rng.chance(1, 2) { u } else { v })),
            }
            let op = if rng.chance(5, 6) { "eq" } else { "ne" };
            let k = qk(rng);
            ops.push(format!("{}F{}.{}.{}", k, f, op, u));
            for _ in 0..rng.below(3) {
                ops.push(other_query(rng));
            }
            ops.push(format!("{}F{}.{}.{}", k, f, op, v));
            if rng.chance(1, 3) {
                ops.push(format!("{}F{}.{}.{}", k, f, op, u));
            }
        }
        2 | 3 => {
            // (b) the fact value changes to its look-alike between two askings
            let derived = rng.chance(1, 2);
            let lit = if rng.chance(1, 2) { u } else { v };
            let goal = if derived {
                let c = format!("F{}.eq.{}", f, lit);
                let c = if rng.chance(1, 3) { format!("&,{},F4.ne.t", c) } else { c };
                rules.push(format!("{}~F5:=t", c));
                if rng.chance(1, 3) {
                    rules.push(format!("F{}.eq.sx~F4:=t", f));
                }
                rng.shuffle(&mut rules);
                "F5.eq.t".to_string()
            } else {
                format!("F{}.{}.{}", f, if rng.chance(5, 6) { "eq" } else { "ne" }, lit)
            };
            init.push(format!("F{}={}", f, u));
            let mut cur = u;
            let k = qk(rng);
            ops.push(format!("{}{}", k, goal));
            for _ in 0..rng.range(1, 3) {
                if derived {
                    ops.push("DF5".to_string());
                }
                for _ in 0..rng.below(2) {
                    ops.push(other_query(rng));
                }
                cur = if cur == u { v } else { u };
                ops.push(format!("SF{}={}", f, cur));
                ops.push(format!("{}{}", k, goal));
            }
        }
        _ => {
            // (c) only a bystander (a field no rule reads, or an extra fact) changes to its look-alike
            init.push(format!("F{}={}", f, *rng.pick(&["t", "n1", "sab"])));
            let goal = format!("F{}.eq.{}", f, *rng.pick(&["t", "n1", "sab"]));
            let extra = rng.chance(1, 2);
            let set = |x: &str| if extra { format!("Xnote.text={}", x) } else { format!("SF4={}", x) };
            ops.push(set(u));
            ops.push(format!("Q{}", goal));
            ops.push(set(v));
            ops.push(format!("Q{}", goal));
            ops.push(format!("SF{}={}", f, *rng.pick(&["f", "n2", "scd"])));
            ops.push(format!("Q{}", goal));
        }
    }
    rng.shuffle(&mut init);
    let strat = ["D", "D", "B", "I"][rng.below(4) as usize];
    let cfg = format!("{}{}s{}m{}", strat, rng.range(1, 4), if rng.chance(3, 4) { 1 } else { 3 }, if rng.chance(9, 10) { 1 } else { 0 });
    format!(
        "{} {} {} {}",
        cfg,
        if init.is_empty() { "-".to_string() } else { init.join(",") },
        if rules.is_empty() { "-".to_string() } else { rules.join(";") },
        ops.join(",")
    )
}

/// error-path family: an aggregate query that returns Err (mostly one whose header parses and whose WHERE pattern does not)
/// somewhere in the history, followed by ordinary queries — above all NEGATED goals a rule can derive, whose verdict under
/// depth-first search depends on max_solutions (1 / more), and repeated queries (memoisation must still be on)
fn gen_failed_aggregate(rng: &mut Rng) -> String {
    let len = rng.range(1, 3);
    let premise = *rng.pick(&["F6.eq.n1", "F6.eq.n1", "F7.gt.n3", "F1.eq.sab"]);
    let mut rules = vec![format!("{}~F0:=t", premise)];
    for i in 0..len {
        rules.push(format!("F{}.eq.t~F{}:=t", i, if i + 1 == len { 5 } else { i + 1 }));
    }
    if rng.chance(1, 3) {
        rules.push(format!("F{}.eq.t~F4:=t", rng.below(4)));
    }
    rng.shuffle(&mut rules);
    let mut init = Vec::new();
    if rng.chance(5, 6) {
        init.push(match premise {
            "F6.eq.n1" => "F6=n1",
            "F7.gt.n3" => "F7=n5",
            _ => "F1=sab",
        }
        .to_string());
    }
    if rng.chance(1, 4) {
        init.push(format!("F{}={}", *rng.pick(&[8u64, 9, 3]), *rng.pick(&["t", "f", "n1"])));
    }
    let goals = ["F5.eq.t", "F5.eq.t", "F0.eq.t", "F4.eq.t", "F6.gt.n0"];
    let restore = |rng: &mut Rng, ops: &mut Vec<String>| {
        // a proof commits what it derived: take it out again so that the next goal has to be derived, not looked up
        if rng.chance(4, 5) {
            for f in [0u64, 1, 2, 4, 5] {
                ops.push(format!("DF{}", f));
            }
        }
    };
    let mut ops = Vec::new();
    for _ in 0..rng.below(3) {
        ops.push(format!("{}{}", if rng.chance(1, 3) { "N" } else { "Q" }, *rng.pick(&goals)));
        restore(rng, &mut ops);
    }
    let bad = if rng.chance(5, 6) { rng.below(6) } else { rng.range(6, 7) };
    ops.push(format!("E{}", bad));
    if rng.chance(1, 5) {
        ops.push(format!("E{}", rng.below(MALFORMED.len() as u64)));
    }
    for _ in 0..rng.range(1, 4) {
        match rng.below(8) {
            0..=3 => ops.push(format!("N{}", *rng.pick(&goals))),
            4..=5 => ops.push(format!("Q{}", *rng.pick(&goals))),
            6 => ops.push(format!("A{}", *rng.pick(&goals))),
            _ => ops.push(other_query(rng)),
        }
        restore(rng, &mut ops);
    }
    let strat = ["D", "D", "D", "I", "B"][rng.below(5) as usize];
    let cfg = format!("{}{}s{}m{}", strat, rng.range(2, 5), if rng.chance(4, 5) { 1 } else { 3 }, if rng.chance(9, 10) { 1 } else { 0 });
    format!("{} {} {} {}", cfg, if init.is_empty() { "-".to_string() } else { init.join(",") }, rules.join(";"), ops.join(","))
}

/// Null family: the same query before and after a fact goes from ABSENT to present-with-Null or back (and to / from an
/// ordinary value); the goal tells the two apart — `F == null` / `F != null` directly, or through a rule whose condition is
/// `F == null`, `F != null` or the test `exists(F)`; bystanders holding Null come and go as well (control)
fn gen_null(rng: &mut Rng) -> String {
    let f = *rng.pick(&[0u64, 1, 2, 3, 6, 7, 8, 9]);
    let mut rules = Vec::new();
    let derived = rng.chance(3, 5);
    let goal = if derived {
        let c = match rng.below(6) {
            0 | 1 => format!("F{}.ex.t", f),
            2 | 3 => format!("F{}.eq.z", f),
            4 => format!("F{}.ne.z", f),
            _ => format!("&,F{}.ex.t,F{}.ne.t", f, f),
        };
        rules.push(format!("{}~F5:={}", c, *rng.pick(&["t", "t", "n1"])));
        if rng.chance(1, 3) {
            rules.push("F5.eq.t~F4:=t".to_string());
        }
        if rng.chance(1, 4) {
            rules.push(format!("F{}.eq.t~F4:=z", f));
        }
        rng.shuffle(&mut rules);
        if rng.chance(1, 5) { "F4.eq.t" } else if rng.chance(1, 6) { "F5.ne.z" } else { "F5.eq.t" }.to_string()
    } else {
        format!("F{}.{}.{}", f, *rng.pick(&["eq", "eq", "ne"]), *rng.pick(&["z", "z", "z", "t", "s"]))
    };
    // states of the field: absent / Null / a value
    let states = ["-", "z", "z", "-", "t", "s", "n0"];
    let mut cur = *rng.pick(&states[..4]);
    let mut init = Vec::new();
    if cur != "-" {
        init.push(format!("F{}={}", f, cur));
    }
    for b in [0u64, 1, 6, 9] {
        if b != f && rng.chance(1, 4) {
            init.push(format!("F{}={}", b, *rng.pick(&["z", "t", "n1", "z"])));
        }
    }
    rng.shuffle(&mut init);
    let mut ops = Vec::new();
    if rng.chance(1, 5) {
        ops.push(format!("X{}={}", *rng.pick(&["Memo.note", "0k", "z.last"]), *rng.pick(&["z", "z", "t"])));
    }
    let k = if rng.chance(1, 6) { "N" } else { "Q" };
    let ask = |ops: &mut Vec<String>| {
        ops.push(format!("{}{}", k, goal));
        if derived {
            ops.push("DF5".to_string());
            ops.push("DF4".to_string());
        }
    };
    ask(&mut ops);
    for _ in 0..rng.range(1, 4) {
        for _ in 0..rng.below(2) {
            ops.push(other_query(rng));
        }
        // mostly the absent <-> Null step
        let next = match cur {
            "-" if rng.chance(4, 5) => "z",
            "z" if rng.chance(4, 5) => "-",
            _ => *rng.pick(&states),
        };
        if next == "-" {
            ops.push(format!("DF{}", f));
        } else {
            ops.push(format!("SF{}={}", f, next));
        }
        cur = next;
        if rng.chance(1, 6) {
            // a Null bystander appears / disappears too
            if rng.chance(1, 2) {
                ops.push("XMemo.note=z".to_string());
            } else {
                ops.push(format!("SF{}=z", if f == 3 { 2 } else { 3 }));
            }
        }
        ask(&mut ops);
    }
    let strat = ["D", "D", "B", "I"][rng.below(4) as usize];
    let cfg = format!("{}{}s{}m{}", strat, rng.range(1, 4), if rng.chance(3, 4) { 1 } else { 3 }, if rng.chance(9, 10) { 1 } else { 0 });
    format!(
        "{} {} {} {}",
        cfg,
        if init.is_empty() { "-".to_string() } else { init.join(",") },
        if rules.is_empty() { "-".to_string() } else { rules.join(";") },
        ops.join(",")
    )
}

/// histories with a RETE engine attached (`R`): rules conclude the dotted fields `U.P` (F8) / `U.Q` (F9) — those Sets are
/// also inserted as logical facts into the attached IncrementalEngine and recorded in the search's proof graph — directly
/// from the input `G` (F6), chained (`U.P` -> `U.Q` -> `F`), with wrong-value rivals; the same goals are asked again after the
/// caller changed / removed the input or the derived facts and after everything was retracted in the attached engine (`T`).
/// What the engine model says: nothing of this outlives a call (the proof graph is built per search), so every call is
/// answered as without the attachment.
fn gen_rete(rng: &mut Rng) -> String {
    let pool = [
        "F6.eq.n1~F8:=t",
        "F8.eq.t~F9:=t",
        "F8.eq.t~F5:=t",
        "F9.eq.t~F5:=t",
        "&,F8.eq.t,F9.eq.t~F5:=t",
        "F6.eq.n0~F8:=f",
        "F6.eq.n1~F9:=sab",
        "F6.eq.n1~F5:=t",
        "F9.eq.sab~F5:=f",
    ];
    // breadth-first fires its candidates one after the other without rolling back, so its verdict depends on the order of
    // the candidate HashSet as soon as one candidate feeds another (`U.P` and `U.Q` share the index entry of `U`): the
    // comparison with a fresh engine needs a verdict that does not. Breadth-first histories use `U.P` only.
    let bfs_ok = rng.chance(1, 3);
    let mut rules: Vec<String> = vec![pool[0].to_string()];
    for _ in 0..rng.range(1, 4) {
        let r = rng.pick(&pool).to_string();
        if !rules.contains(&r) && !(bfs_ok && r.contains("F9")) {
            rules.push(r);
        }
    }
    if rng.chance(1, 2) {
        rng.shuffle(&mut rules);
    }
    let strats: &[&str] = if bfs_ok { &["D", "B", "B", "I"] } else { &["D", "D", "D", "I"] };
    let strat = *rng.pick(strats);
    let cfg = format!("{}{}s{}m{}", strat, rng.range(1, 4), if rng.chance(3, 4) { 1 } else { 3 }, if rng.chance(7, 8) { 1 } else { 0 });
    let goals = ["F8.eq.t", "F9.eq.t", "F5.eq.t", "F8.eq.f", "F9.eq.sab"];
    let g0 = *rng.pick(&goals);
    let mut ops: Vec<String> = Vec::new();
    if rng.chance(1, 4) {
        ops.push(format!("Q{}", g0)); // one call before the attachment
    }
    ops.push("R".to_string());
    let nq = rng.range(2, 5);
    let mut q = 0;
    while q < nq {
        match rng.below(12) {
            0..=4 => {
                let g = if rng.chance(2, 3) { g0 } else { *rng.pick(&goals) };
                ops.push(format!("{}{}", if rng.chance(1, 10) { "A" } else { "Q" }, g));
                q += 1;
            }
            5 | 6 => ops.push("T".to_string()),
            7 => ops.push(format!("SF6=n{}", rng.below(2))),
            8 => ops.push("DF6".to_string()),
            9 => ops.push(format!("DF{}", *rng.pick(&[8u64, 9, 5]))),
            10 => ops.push(format!("SF{}={}", *rng.pick(&[8u64, 9]), *rng.pick(&["t", "f"]))),
            _ => ops.push(format!("K{}{}", *rng.pick(strats), rng.range(1, 4))),
        }
    }
    let init = if rng.chance(3, 4) { "F6=n1" } else { "-" };
    format!("{} {} {} {}", cfg, init, rules.join(";"), ops.join(","))
}

/// knowledge-base edit family: the rule set of the LIVE engine changes between askings of one goal (add_rule / remove_rule /
/// set_rule_enabled / clear through engine.knowledge_base(), with and without rebuild_index afterwards); the rules token holds a
/// reserve of disabled (`*`) rules for `e<i>` and bodies for `+<i>=<j>`. Shapes: (0) not provable -> the concluding rule is added /
/// enabled -> asked again on the same facts; (1) provable -> the rule is removed / disabled / everything cleared -> asked again;
/// (2) a rule replaced under another name (same rule count, stale index); (3) random edits, queries, fact changes, set_config.
fn gen_kb_edit(rng: &mut Rng) -> String {
    let premise = *rng.pick(&["F6.eq.n1", "F6.eq.n1", "F7.gt.n3", "F1.eq.sab"]);
    let fact = match premise {
        "F6.eq.n1" => "F6=n1",
        "F7.gt.n3" => "F7=n5",
        _ => "F1=sab",
    };
    let chain = rng.chance(1, 3);
    // rule 0 concludes the goal F5 (directly, or from F0 which rule 1 derives); further rules: a rival value, a bystander
    let mut rules: Vec<String> = Vec::new();
    if chain {
        rules.push("F0.eq.t~F5:=t".to_string());
        rules.push(format!("{}~F0:=t", premise));
    } else {
        rules.push(format!("{}~F5:=t", premise));
    }
    if rng.chance(1, 3) {
        rules.push(format!("{}~F5:={}", premise, *rng.pick(&["f", "n1"])));
    }
    if rng.chance(1, 3) {
        rules.push(format!("F{}.eq.t~F4:=t", rng.below(4)));
    }
    let nr = rules.len() as u64;
    let goal = *rng.pick(&["F5.eq.t", "F5.eq.t", "F5.eq.t", "F5.ne.t", "F5.eq.f"]);
    let ask = |rng: &mut Rng, ops: &mut Vec<String>| {
        let k = match rng.below(12) {
            0 => "A",
            1 | 2 => "N",
            _ => "Q",
        };
        ops.push(format!("{}{}", k, goal));
        // a proof commits what it derived: take it out again so that only the rule set differs
        if rng.chance(5, 6) {
            ops.push("DF5".to_string());
            ops.push("DF0".to_string());
        }
    };
    let rebuild = |rng: &mut Rng, ops: &mut Vec<String>| {
        if rng.chance(1, 2) {
            ops.push("x".to_string());
        }
    };
    let mut ops: Vec<String> = Vec::new();
    let shape = rng.below(4);
    match shape {
        0 => {
            // the concluding rule is missing at first: disabled in the token, or removed before the first asking
            let how = rng.below(3);
            if how == 0 {
                rules[0] = format!("*{}", rules[0]);
            } else {
                ops.push("-0".to_string());
                rebuild(rng, &mut ops);
            }
            ask(rng, &mut ops);
            if rng.chance(1, 3) {
                ask(rng, &mut ops); // a genuine hit before the edit
            }
            ops.push(match how {
                0 => "e0".to_string(),
                1 => "+0=0".to_string(),
                _ => format!("+{}=0", nr + rng.below(2)),
            });
            rebuild(rng, &mut ops);
            ask(rng, &mut ops);
            if rng.chance(1, 2) {
                ops.push(if how == 0 { "d0".to_string() } else { format!("-{}", if how == 1 { 0 } else { nr }) });
                rebuild(rng, &mut ops);
                ask(rng, &mut ops);
            }
        }
        1 => {
            ask(rng, &mut ops);
            ops.push(match rng.below(4) {
                0 => "-0".to_string(),
                1 => "d0".to_string(),
                2 => "z".to_string(),
                _ => format!("-{}", if chain { 1 } else { 0 }),
            });
            rebuild(rng, &mut ops);
            ask(rng, &mut ops);
            if rng.chance(1, 2) {
                // … and back (whichever of the three matches the edit above takes effect; the others are rejected / no-ops)
                ops.push(rng.pick(&["e0", "+0=0", "+7=0"]).to_string());
                rebuild(rng, &mut ops);
                ask(rng, &mut ops);
            }
        }
        2 => {
            // replaced under another name: same number of rules, the index still names the old rule
            ask(rng, &mut ops);
            ops.push("-0".to_string());
            if rng.chance(1, 3) {
                ask(rng, &mut ops);
            }
            ops.push(format!("+{}=0", nr + 1));
            rebuild(rng, &mut ops);
            ask(rng, &mut ops);
            if rng.chance(1, 2) {
                ops.push("x".to_string());
                ask(rng, &mut ops);
            }
        }
        _ => {
            for r in rules.iter_mut() {
                if rng.chance(1, 3) {
                    *r = format!("*{}", r);
                }
            }
            ask(rng, &mut ops);
            for _ in 0..rng.range(3, 7) {
                match rng.below(12) {
                    0 | 1 => ops.push(format!("+{}={}", rng.below(nr + 2), rng.below(nr))),
                    2 | 3 => ops.push(format!("-{}", rng.below(nr + 1))),
                    4 => ops.push(format!("e{}", rng.below(nr + 1))),
                    5 => ops.push(format!("d{}", rng.below(nr + 1))),
                    6 if rng.chance(1, 3) => ops.push("z".to_string()),
                    6 | 7 => ops.push("x".to_string()),
                    8 => ops.push(if rng.chance(1, 2) { format!("S{}", fact) } else { format!("D{}", &fact[..2]) }),
                    9 if rng.chance(1, 2) => ops.push(format!("K{}{}", *rng.pick(&["D", "B", "I"]), rng.range(1, 4))),
                    _ => ask(rng, &mut ops),
                }
            }
            ask(rng, &mut ops);
        }
    }
    // no breadth-first here: with sibling rules that feed each other the BFS verdict depends on the HashSet order of the candidates, so the
        // long-lived and the fresh engine may legitimately differ (a false `stale`, seen once in the thorough tier); same draw count as before
        let strat = ["D", "D", "D", "D", "I"][rng.below(5) as usize];
    let cfg = format!("{}{}s{}m{}", strat, rng.range(2, 4), if rng.chance(3, 4) { 1 } else { 3 }, if rng.chance(9, 10) { 1 } else { 0 });
    let init = if rng.chance(5, 6) { fact.to_string() } else { "-".to_string() };
    format!("{} {} {} {}", cfg, init, rules.join(";"), ops.join(","))
}

fn gen(rng: &mut Rng, n: usize, _tier: &str) -> Vec<String> {
    let mut out = Vec::new();
    for _ in 0..n {
        let (cfg, init, rules, ops) = random_history(rng);
        out.push(format!("{} {} {} {}", cfg, init, rules.join(";"), ops.join(",")));
    }
    // reconfiguration family: the same query before and after a set_config that changes only the strategy
    // (breadth-first does not prove premises recursively, so it legitimately disagrees with depth-first on a
    // chain of rules; a cache that survives the change returns the other strategy's verdict)
    for _ in 0..n / 10 {
        let d = rng.range(2, 4);
        let s1 = *rng.pick(&["B", "D", "I"]);
        let s2 = *rng.pick(&["B", "D", "I"]);
        let len = rng.range(1, 3);
        let mut rules = vec!["F6.eq.n1~F0:=t".to_string()];
        for i in 0..len {
            rules.push(format!("F{}.eq.t~F{}:=t", i, if i + 1 == len { 5 } else { i + 1 }));
        }
        rng.shuffle(&mut rules);
        let mut ops = vec!["QF5.eq.t".to_string()];
        if rng.chance(1, 2) {
            // put the facts back as they were, so that only the configuration differs
            for i in 0..len {
                ops.push(format!("DF{}", i));
            }
            ops.push("DF5".to_string());
        }
        ops.push(format!("K{}{}", s2, d));
        ops.push("QF5.eq.t".to_string());
        out.push(format!("{}{}s1m1 F6=n1 {} {}", s1, d, rules.join(";"), ops.join(",")));
    }
    // negated goals: `g` and `NOT g` on identical facts, both orders
    for _ in 0..n / 10 {
        out.push(gen_negation(rng));
    }
    // values permuted among the same names between two askings of one query
    for _ in 0..n / 10 {
        out.push(gen_permutation(rng));
    }
    // large working memories (engine key text far beyond 1024 bytes)
    for _ in 0..n / 12 {
        // focused: only a late-sorting relevant fact changes
        out.push(gen_late_change(rng));
    }
    for _ in 0..n / 12 {
        // the random histories on top of a large store whose extras sort before / between / after the fields they use;
        // sometimes the store grows past the limit in the middle of the history
        let (cfg, init, rules, mut ops) = random_history(rng);
        let pres: &[&str] = match rng.below(4) {
            0 | 1 => &PRE_BEFORE,
            2 => &PRE_MIDDLE,
            _ => &PRE_AFTER,
        };
        let store = big_store(rng, pres);
        let at = if rng.chance(3, 4) { 0 } else { rng.below(ops.len() as u64) as usize };
        for (i, p) in store.into_iter().enumerate() {
            ops.insert(at + i, p);
        }
        out.push(format!("{} {} {} {}", cfg, init, rules.join(";"), ops.join(",")));
    }
    // strings that differ only in blanks: in two query literals, in a fact value before / after a change
    for _ in 0..n / 10 {
        out.push(gen_whitespace(rng));
    }
    // an aggregate query that fails (malformed WHERE pattern), then negated derivable goals and repeated queries
    for _ in 0..n / 10 {
        out.push(gen_failed_aggregate(rng));
    }
    // absent vs present-with-Null between two askings of a query that tells them apart
    for _ in 0..n / 10 {
        out.push(gen_null(rng));
    }
    // a RETE engine attached to the calls, retractions there between them
    for _ in 0..n / 10 {
        out.push(gen_rete(rng));
    }
    // the rule set of the live engine edited between askings, with and without rebuild_index
    for _ in 0..n / 8 {
        out.push(gen_kb_edit(rng));
    }
    let mut out: Vec<String> = out.into_iter().map(|c| vary_mutators(rng, &c)).collect();
    // un-indexed rules on ONE object, sibling fields asked in every order (appended after the pass above: the random stream of
    // the families before it is unchanged)
    for c in gen_learned(rng, (n / 12).max(40)) {
        out.push(vary_mutators(rng, &c));
    }
    // two (query, facts) states of opposite verdict whose ENGINE key texts collide under a well-known 32-bit digest
    out.extend(gen_digest(rng));
    out
}

/// a streaming 32-bit digest: initial state, one byte, final fold
struct Digest {
    init: u64,
    step: fn(u64, u8) -> u64,
    fin: fn(u64) -> u32,
}

const M32: u64 = 0xffff_ffff;
const DIGESTS: [Digest; 10] = [
    // FNV-1a 32
    Digest { init: 0x811c_9dc5, step: |h, b| ((h ^ b as u64).wrapping_mul(0x0100_0193)) & M32, fin: |h| h as u32 },
    // FNV-1 32
    Digest { init: 0x811c_9dc5, step: |h, b| (h.wrapping_mul(0x0100_0193) & M32) ^ b as u64, fin: |h| h as u32 },
    // FNV-1a 64, low half
    Digest { init: 0xcbf2_9ce4_8422_2325, step: |h, b| (h ^ b as u64).wrapping_mul(0x0000_0100_0000_01b3), fin: |h| h as u32 },
    // FNV-1a 64, xor-folded
    Digest { init: 0xcbf2_9ce4_8422_2325, step: |h, b| (h ^ b as u64).wrapping_mul(0x0000_0100_0000_01b3), fin: |h| ((h >> 32) ^ h) as u32 },
    // djb2 (h * 33 + b) and its xor variant
    Digest { init: 5381, step: |h, b| (h.wrapping_mul(33).wrapping_add(b as u64)) & M32, fin: |h| h as u32 },
    Digest { init: 5381, step: |h, b| (h.wrapping_mul(33) & M32) ^ b as u64, fin: |h| h as u32 },
    // Java's String::hashCode
    Digest { init: 0, step: |h, b| (h.wrapping_mul(31).wrapping_add(b as u64)) & M32, fin: |h| h as u32 },
    // sdbm
    Digest { init: 0, step: |h, b| ((b as u64).wrapping_add(h << 6).wrapping_add(h << 16).wrapping_sub(h)) & M32, fin: |h| h as u32 },
    // CRC-32 (IEEE, reflected)
    Digest {
        init: 0xffff_ffff,
        step: |h, b| {
            let mut c = (h ^ b as u64) & M32;
            for _ in 0..8 {
                c = if c & 1 == 1 { 0xEDB8_8320 ^ (c >> 1) } else { c >> 1 };
            }
            c
        },
        fin: |h| !(h as u32),
    },
    // Adler-32
    Digest {
        init: 1,
        step: |h, b| {
            let a = ((h & 0xffff) + b as u64) % 65521;
            let s = ((h >> 16) + a) % 65521;
            (s << 16) | a
        },
        fin: |h| h as u32,
    },
];

/// V15 (seeded C11-14) — the memo cache keyed by a DIGEST of the key text instead of the text: two states of one engine whose
/// verdicts differ and whose key texts (`memo_key`: query, max_solutions, kb.version(), Debug of the facts sorted by name)
/// have the same 32-bit digest. The free part is an Integer fact (`Zs`, sorted behind every FIELDS name — a session id); a
/// birthday search over < 2^19 values per side finds a colliding pair for each digest of `DIGESTS`. A two-query history:
/// state 1 asked (verdict stored), state 2 asked — a cache that compares digests answers it with the verdict of state 1.
fn gen_digest(rng: &mut Rng) -> Vec<String> {
    use std::collections::HashMap;
    let mut out = Vec::new();
    for (di, d) in DIGESTS.iter().enumerate() {
        for round in 0..2 {
            // (rule, field name of the premise, Debug of the value that proves, of the value that does not, their case tokens)
            let (rule, pname, yes, no, ty, tn) = *rng.pick(&[
                ("F7.gt.n3~F5:=t", "Y", "Number(5.0)", "Number(2.0)", "F7=n5", "F7=n2"),
                ("F6.eq.n1~F5:=t", "X", "Number(1.0)", "Number(0.0)", "F6=n1", "F6=n0"),
                ("F6.eq.i1~F5:=t", "X", "Integer(1)", "Integer(7)", "F6=i1", "F6=i7"),
            ]);
            let ms = if rng.chance(3, 4) { 1 } else { 3 };
            let bystander = rng.chance(1, 3);
            let version = if bystander { 2 } else { 1 };
            let yes_first = round == 0;
            let (v1, v2, t1, t2) = if yes_first { (yes, no, ty, tn) } else { (no, yes, tn, ty) };
            let fold = |text: &str, h0: u64| text.bytes().fold(h0, |h, b| (d.step)(h, b));
            let pre = |v: &str| fold(&format!("G == true\u{0}{}\u{0}{}\u{0}[(\"{}\", {}), (\"Zs\", Integer(", ms, version, pname, v), d.init);
            let (h1, h2) = (pre(v1), pre(v2));
            let base = rng.below(1 << 30);
            let mut tab: HashMap<u32, u64> = HashMap::new();
            let cap = 1u64 << 19;
            // candidate ids: a scrambled sequence of non-negative i64 (varying lengths: linear digests need that)
            let id = |k: u64| -> u64 {
                let mut z = k.wrapping_mul(0x9E37_79B9_7F4A_7C15);
                z = (z ^ (z >> 30)).wrapping_mul(0xBF58_476D_1CE4_E5B9);
                z = (z ^ (z >> 27)).wrapping_mul(0x94D0_49BB_1331_11EB);
                (z ^ (z >> 31)) >> (1 + (k % 40))
            };
            for k in base..base + cap {
                let a = id(k);
                tab.entry((d.fin)(fold(&format!("{}))]", a), h1))).or_insert(a);
            }
            let mut pair = None;
            for k in base + cap..base + 2 * cap {
                let b = id(k);
                if let Some(a) = tab.get(&(d.fin)(fold(&format!("{}))]", b), h2))) {
                    pair = Some((*a, b));
                    break;
                }
            }
            let Some((a, b)) = pair else { continue };
            let _ = di;
            let rules = if bystander { format!("{};F0.eq.t~F4:=t", rule) } else { rule.to_string() };
            let strat = *rng.pick(&["D", "D", "B", "I"]);
            out.push(format!(
                "{}{}s{}m1 {} {} XZs=i{},QF5.eq.t,DF5,S{},XZs=i{},QF5.eq.t",
                strat,
                rng.range(2, 4),
                ms,
                t1,
                rules,
                a,
                t2,
                b
            ));
        }
    }
    out
}

/// V15 — the conclusion index is older than the rule set: 2..4 rules concluding fields of ONE object (`U.P` / `U.Q`, or `E` /
/// `E._return`) reach the knowledge base of the live engine WITHOUT a rebuild_index (enabled late, added as copies of disabled
/// templates, or re-added under new names after a rebuild without them), in an order unrelated to their numbers; then 2..4
/// queries on those fields, the derived facts taken out again after each, in EVERY order (one case per order; six drawn when
/// there are 24). `find_candidates` proposes, for a dotted goal, every indexed rule on the goal's OBJECT, and the linear
/// fallback over the live rules runs only when the index proposes nothing: whatever a query leaves behind in the index (a
/// "learned" rule, a cached candidate set) changes what a later query on a sibling field reaches. Compared query by query with
/// the fresh engine (same stale index, asked nothing). Bystanders: an indexed rule on another object / on the same object,
/// a chain between the siblings.
fn gen_learned(rng: &mut Rng, bases: usize) -> Vec<String> {
    let mut out = Vec::new();
    for b in 0..bases {
        let (fa, fb) = if b % 3 == 2 { (4usize, 10usize) } else { (8, 9) };
        let premises = [("F6.eq.n1", "F6=n1"), ("F7.gt.n3", "F7=n5"), ("F1.eq.sab", "F1=sab")];
        let (prem, fact) = *rng.pick(&premises);
        let vals = ["t", "t", "f", "n1", "sab"];
        let nr = rng.range(2, 4) as usize;
        // (field, value) concluded by late rule i: the first two cover both fields
        let mut heads: Vec<(usize, &str)> = Vec::new();
        for i in 0..nr {
            let f = match i {
                0 => fa,
                1 => fb,
                _ => *rng.pick(&[fa, fb]),
            };
            let mut v = *rng.pick(&vals);
            while heads.iter().any(|h| *h == (f, v)) {
                v = *rng.pick(&vals);
            }
            heads.push((f, v));
        }
        let chain = rng.chance(1, 6);
        let mut rules: Vec<String> = Vec::new();
        for (i, (f, v)) in heads.iter().enumerate() {
            if chain && i == 1 {
                rules.push(format!("F{}.eq.{}~F{}:={}", heads[0].0, heads[0].1, f, v));
            } else if rng.chance(1, 8) {
                // one rule concluding both siblings
                let o = if *f == fa { fb } else { fa };
                rules.push(format!("{}~F{}:={}+F{}:={}", prem, f, v, o, v));
            } else {
                rules.push(format!("{}~F{}:={}", prem, f, v));
            }
        }
        // how the late rules arrive
        let mode = rng.below(3);
        let mut arrive: Vec<usize> = (0..nr).collect();
        rng.shuffle(&mut arrive);
        let mut ops: Vec<String> = Vec::new();
        let mut tokens: Vec<String> = rules.iter().map(|r| if mode == 2 { r.clone() } else { format!("*{}", r) }).collect();
        // bystander known to the index from the start: on another object, or (1 in 5) on the same object
        let by = rng.below(5);
        if by < 2 {
            tokens.push(format!("{}~F5:=t", prem));
        } else if by == 2 {
            tokens.push(format!("F0.eq.t~F{}:=n7", fb));
        }
        let nt = tokens.len();
        match mode {
            0 => {
                for i in &arrive {
                    ops.push(format!("e{}", i));
                }
            }
            1 => {
                for (k, i) in arrive.iter().enumerate() {
                    ops.push(format!("+{}={}", nt + (nr - 1 - k), i));
                }
            }
            _ => {
                for i in 0..nr {
                    ops.push(format!("-{}", i));
                }
                ops.push("x".to_string());
                for (k, i) in arrive.iter().enumerate() {
                    ops.push(format!("+{}={}", nt + (nr - 1 - k), i));
                }
            }
        }
        // the queries: one per late rule (its own conclusion), sometimes one more that nothing derives
        let mut qs: Vec<String> = heads.iter().map(|(f, v)| format!("F{}.eq.{}", f, v)).collect();
        if qs.len() < 4 && rng.chance(1, 4) {
            qs.push(format!("F{}.eq.n9", *rng.pick(&[fa, fb])));
        }
        if by < 2 && qs.len() < 4 && rng.chance(1, 2) {
            qs.push("F5.eq.t".to_string());
        }
        let mut orders: Vec<Vec<usize>> = Vec::new();
        let mut idx: Vec<usize> = (0..qs.len()).collect();
        permutations(&mut idx, 0, &mut orders);
        if orders.len() > 6 {
            rng.shuffle(&mut orders);
            orders.truncate(6);
        }
        // no breadth-first here: with sibling rules that feed each other the BFS verdict depends on the HashSet order of the candidates, so the
        // long-lived and the fresh engine may legitimately differ (a false `stale`, seen once in the thorough tier); same draw count as before
        let strat = ["D", "D", "D", "D", "I"][rng.below(5) as usize];
        let cfg = format!("{}{}s{}m{}", strat, rng.range(2, 4), if rng.chance(3, 4) { 1 } else { 3 }, if rng.chance(4, 5) { 1 } else { 0 });
        let late_rebuild = rng.chance(1, 5);
        for ord in orders {
            let mut o = ops.clone();
            for (j, qi) in ord.iter().enumerate() {
                let k = match rng.below(14) {
                    0 => "A",
                    1 => "N",
                    _ => "Q",
                };
                o.push(format!("{}{}", k, qs[*qi]));
                // a proof commits what it derived: take it out again, so that every query stands on the same facts
                if j + 1 < ord.len() {
                    o.push(format!("DF{}", fa));
                    o.push(format!("DF{}", fb));
                    if by < 2 {
                        o.push("DF5".to_string());
                    }
                }
            }
            if late_rebuild {
                o.push(format!("DF{}", fa));
                o.push(format!("DF{}", fb));
                o.push("x".to_string());
                o.push(format!("Q{}", qs[ord[0]]));
            }
            out.push(format!("{} {} {} {}", cfg, fact, tokens.join(";"), o.join(",")));
        }
    }
    out
}

fn permutations(idx: &mut Vec<usize>, k: usize, out: &mut Vec<Vec<usize>>) {
    if k + 1 >= idx.len() {
        out.push(idx.clone());
        return;
    }
    for i in k..idx.len() {
        idx.swap(k, i);
        permutations(idx, k + 1, out);
        idx.swap(k, i);
    }
}

/// the route of every caller-side change: half of the `S` / `D` / `X` ops keep `Facts::set` / `remove`, the others draw one of
/// the other public mutators (`@<m>`); now and then the next query gets a NEW Facts object with equal contents (`W`, `Wy`).
/// The contents after every op — all that the models and the flags read — are unchanged by this pass.
fn vary_mutators(rng: &mut Rng, case: &str) -> String {
    let t: Vec<&str> = case.split_whitespace().collect();
    if t.len() != 4 {
        return case.to_string();
    }
    let mut ops = Vec::new();
    for op in t[3].split(',') {
        match op.chars().next() {
            Some('S') | Some('X') if rng.chance(1, 2) => ops.push(format!("{}@{}", op, *rng.pick(&PUT_MUTATORS[1..]))),
            Some('D') if rng.chance(1, 2) => ops.push(format!("{}@{}", op, *rng.pick(&DEL_MUTATORS[1..]))),
            Some('Q') | Some('N') | Some('A') if rng.chance(1, 12) => {
                ops.push(if rng.chance(1, 2) { "W" } else { "Wy" }.to_string());
                ops.push(op.to_string());
            }
            _ => ops.push(op.to_string()),
        }
    }
    format!("{} {} {} {}", t[0], t[1], t[2], ops.join(","))
}

/// smaller variants of one bulk-load / long-value op
fn shrink_op(op: &str) -> Vec<String> {
    let mut out = Vec::new();
    if let Some(rest) = op.strip_prefix('P') {
        if let Some((pre, nv)) = rest.split_once('*') {
            if let Some((n, v)) = nv.split_once('=') {
                if let Ok(n) = n.parse::<usize>() {
                    for m in [n / 2, n * 3 / 4, n.saturating_sub(4), n.saturating_sub(1)] {
                        if m >= 1 && m < n {
                            out.push(format!("P{}*{}={}", pre, m, v));
                        }
                    }
                }
                if let Some(Ok(l)) = v.strip_prefix('l').map(|x| x.parse::<usize>()) {
                    for m in [l / 2, l * 3 / 4, l.saturating_sub(16), l.saturating_sub(1)] {
                        if m >= 1 && m < l {
                            out.push(format!("P{}*{}=l{}", pre, n, m));
                        }
                    }
                }
            }
        }
    }
    out
}

fn shrink(case: &str) -> Vec<String> {
    let t: Vec<&str> = case.split_whitespace().collect();
    if t.len() != 4 {
        return vec![];
    }
    let ops: Vec<String> = t[3].split(',').map(|s| s.to_string()).collect();
    let rules: Vec<String> = t[2].split(';').map(|s| s.to_string()).collect();
    let mut out = Vec::new();
    for v in shrink_list(&ops) {
        if !v.is_empty() {
            out.push(format!("{} {} {} {}", t[0], t[1], t[2], v.join(",")));
        }
    }
    if t[2] != "-" {
        out.push(format!("{} {} - {}", t[0], t[1], t[3]));
        for v in shrink_list(&rules) {
            if !v.is_empty() {
                out.push(format!("{} {} {} {}", t[0], t[1], v.join(";"), t[3]));
            }
        }
    }
    if t[1] != "-" {
        let init: Vec<String> = t[1].split(',').map(|s| s.to_string()).collect();
        out.push(format!("{} - {} {}", t[0], t[2], t[3]));
        for v in shrink_list(&init) {
            if !v.is_empty() {
                out.push(format!("{} {} {} {}", t[0], v.join(","), t[2], t[3]));
            }
        }
    }
    for (i, op) in ops.iter().enumerate() {
        if let Some((o, _)) = op.split_once('@') {
            let mut v = ops.clone();
            v[i] = o.to_string();
            out.push(format!("{} {} {} {}", t[0], t[1], t[2], v.join(",")));
        }
    }
    for (i, op) in ops.iter().enumerate() {
        for smaller in shrink_op(op) {
            let mut v = ops.clone();
            v[i] = smaller;
            out.push(format!("{} {} {} {}", t[0], t[1], t[2], v.join(",")));
        }
    }
    out
}

fn main() {
    main_with(Prop { gen, exec, shrink });
}
