//! C16 — indexes and memoisation vs. the plain computation. One binary, component tag first:
//!
//! value stream `vs` (comma separated, prefix form):  i<int> | f<16 hex bits>_<hex of Debug text> | s<hex utf8>
//!        | bt | bf | n | a<k>,<v1>,…,<vk>
//! facts := `-` | field=vs/field=vs/…          (fields sorted, lower-case identifiers)
//!
//! A  I:<facts> | C:<field> | D:<field> | F:<field>:<vs> | T<n>:<field>:<vs> (n × filter_tracked) | U (auto_tune) | X (clear)
//!    obs: per F/T  `<got>/<lin>`  (positions returned by the memory / by an `==` scan of get_all()), then n=<len> ix=<fields>
//! B  <joinfield>  A:<idx>:<facts> | R:<idx>:<facts> | L:v:<vs> (key = Debug text of the value) | L:t:<hex raw key>
//!    obs: per L  `<got>/<ref>`  (lookup result / the harness' own list of added-and-not-removed indices), then size=<n>
//! M  N:<node> | S:<facts> | E:<node#>:<facts#> | K (clear)        node := al,<field>,eq|ne,<hex literal>,<vs> | and,n,n | or,n,n | not,n
//!        | co,<field>,<hex literal>,<vs>  (alpha `contains`)  | cnt,<field>,gt|lt|ge|le|eq|ne|xx|any,<int>  (UlMultiField count; `any` = no operator)
//!        | mf,<field>,empty|nonempty|first|last|collect        (a literal that names a field of the fact set is a variable reference)
//!    obs: d=<bits> m=<bits> h=<hits after each E> miss=<n> size=<n>     (d: evaluate_typed, m: MemoizedEvaluator::evaluate)
//! C  +<name>:<e|d>[!attr.attr…]:<acts> | -<name> | ?<hex goal> | X        acts := `-` | act;act…   act := S~f | M~obj~meth | R~obj | W~key | L
//!    attr (rule attributes the conclusion index must IGNORE — only `enabled`, the name and the actions matter):
//!         F | f  date_effective in the far future / in the past        P | p  date_expires in the past / in the far future
//!         Z      date_effective with a UTC offset (future)             S<i32> salience      n no_loop      l lock_on_active
//!         g | G  agenda group "grp" / ""      a activation group "act"      D description
//!    obs: per ?  `<got>/<scan>` (sorted find_candidates / sorted scan of the live rules for an enabled Set on the field),
//!         then rules=<n> fields=<n> empty=<0|1>
//! E  (BackwardEngine over a KnowledgeBase)  +<rule> | -<name> | e:<name>:<0|1> | B (rebuild_index) | W (re-create with_config)
//!    obs: per op `<total_rules>,<indexed_fields>` of index_stats()
//! K  (CompactAlphaMemory)  A:<facts> | R:<facts> | C:<facts>
//!    obs: one bit per R (returned flag) and per C (contains), then len=<n> refs=<n> (len / total_refs; is_empty checked against len)
//! N  (NodeSharingRegistry)  G:<rule>:<pat> (register) | U:<rule> (unregister_rule) | Q:<pat> (get)     pat := <hex field>,<hex operator>,<hex value>
//!    obs: per G / Q  `<r1.r2…>/<ref_count>` (rule_indices of the shared node) or `none`, then stats=<total_nodes>,<unique_patterns>,<shared_instances>
//! V  <vs> <vs> …            (values only)
//!    obs: ik=<per value: hex of the REAL alpha index key, read off `format!("{:?}", memory)` of a one-fact indexed memory; `~` = no key>
//! Every A / B / M / K / V observation ends with  kt=<hex of the real `format!("{:?}", v)` of every value of the case, in case order>
//! and every A observation carries st=<total_queries>,<indexed_lookups>,<linear_scans> (read off `stats().to_string()`); M carries
//! nk=<hex of the real `format!("{:?}", node)` of every node>.
use rre_harness::*;
use rust_rule_engine::backward::backward_engine::{BackwardConfig, BackwardEngine};
use rust_rule_engine::backward::conclusion_index::ConclusionIndex;
use rust_rule_engine::engine::knowledge_base::KnowledgeBase;
use rust_rule_engine::engine::rule::{Condition, ConditionGroup, Rule};
use rust_rule_engine::rete::AlphaNode;
use rust_rule_engine::rete::alpha_memory_index::AlphaMemoryIndex;
use rust_rule_engine::rete::facts::{FactValue, TypedFacts};
use rust_rule_engine::rete::memoization::MemoizedEvaluator;
use rust_rule_engine::rete::network::ReteUlNode;
use rust_rule_engine::rete::optimization::{AlphaPattern, BetaMemoryIndex, CompactAlphaMemory, NodeSharingRegistry, SharedAlphaNode};
use rust_rule_engine::types::{ActionType, Operator, Value};
use std::collections::HashMap;

// ------------------------------------------------------------------ values

fn enc_val(v: &FactValue, out: &mut Vec<String>) {
    match v {
        FactValue::Integer(i) => out.push(format!("i{}", i)),
        FactValue::Float(f) => out.push(format!("f{:016x}_{}", f.to_bits(), hex(&format!("{:?}", f)))),
        FactValue::String(s) => out.push(format!("s{}", hex(s))),
        FactValue::Boolean(b) => out.push(if *b { "bt".into() } else { "bf".into() }),
        FactValue::Null => out.push("n".into()),
        FactValue::Array(xs) => {
            out.push(format!("a{}", xs.len()));
            for x in xs {
                enc_val(x, out);
            }
        }
    }
}
fn val_str(v: &FactValue) -> String {
    let mut o = Vec::new();
    enc_val(v, &mut o);
    o.join(",")
}
fn dec_val(toks: &[&str], pos: &mut usize) -> Option<FactValue> {
    let t = *toks.get(*pos)?;
    *pos += 1;
    let (h, rest) = t.split_at(1);
    match h {
        "i" => Some(FactValue::Integer(rest.parse().ok()?)),
        "f" => {
            let bits = u64::from_str_radix(rest.split('_').next()?, 16).ok()?;
            Some(FactValue::Float(f64::from_bits(bits)))
        }
        "s" => Some(FactValue::String(unhex(rest)?)),
        "b" => Some(FactValue::Boolean(rest == "t")),
        "n" => Some(FactValue::Null),
        "a" => {
            let k: usize = rest.parse().ok()?;
            let mut xs = Vec::new();
            for _ in 0..k {
                xs.push(dec_val(toks, pos)?);
            }
            Some(FactValue::Array(xs))
        }
        _ => None,
    }
}
fn parse_val(s: &str) -> Option<FactValue> {
    let toks: Vec<&str> = s.split(',').collect();
    let mut p = 0;
    let v = dec_val(&toks, &mut p)?;
    if p == toks.len() { Some(v) } else { None }
}
fn parse_facts(s: &str) -> Option<TypedFacts> {
    let mut f = TypedFacts::new();
    if s == "-" {
        return Some(f);
    }
    for kv in s.split('/') {
        let (k, v) = kv.split_once('=')?;
        f.set(k.to_string(), parse_val(v)?);
    }
    Some(f)
}
fn facts_str(kvs: &[(String, FactValue)]) -> String {
    if kvs.is_empty() {
        return "-".into();
    }
    let mut kvs: Vec<_> = kvs.to_vec();
    kvs.sort_by(|a, b| a.0.cmp(&b.0));
    kvs.dedup_by(|a, b| a.0 == b.0);
    kvs.iter().map(|(k, v)| format!("{}={}", k, val_str(v))).collect::<Vec<_>>().join("/")
}


/// the values of a facts text in the order they are written
fn facts_values(s: &str) -> Option<Vec<FactValue>> {
    let mut out = Vec::new();
    if s == "-" {
        return Some(out);
    }
    for kv in s.split('/') {
        let (_, v) = kv.split_once('=')?;
        out.push(parse_val(v)?);
    }
    Some(out)
}

/// every value of a case, in case order (what the `kt=` trailer renders)
fn case_values(t: &[&str]) -> Option<Vec<FactValue>> {
    let mut out = Vec::new();
    let comp = *t.first()?;
    let start = if comp == "B" { 2 } else { 1 };
    for op in t.iter().skip(start) {
        let parts: Vec<&str> = op.splitn(3, ':').collect();
        match comp {
            "A" => match parts[0] {
                "I" => out.extend(facts_values(parts.get(1)?)?),
                "F" => out.push(parse_val(parts.get(2)?)?),
                x if x.starts_with('T') => out.push(parse_val(parts.get(2)?)?),
                _ => {}
            },
            "B" => match parts[0] {
                "A" | "R" => out.extend(facts_values(parts.get(2)?)?),
                "L" if parts.get(1) == Some(&"v") => out.push(parse_val(parts.get(2)?)?),
                _ => {}
            },
            "M" => {
                if let Some(f) = op.strip_prefix("S:") {
                    out.extend(facts_values(f)?);
                }
            }
            "K" => out.extend(facts_values(op.splitn(2, ':').nth(1)?)?),
            "V" => out.push(parse_val(op)?),
            _ => {}
        }
    }
    Some(out)
}

fn key_texts(t: &[&str]) -> String {
    match case_values(t) {
        None => "kt=?".to_string(),
        Some(vs) if vs.is_empty() => "kt=-".to_string(),
        Some(vs) => format!("kt={}", vs.iter().map(|v| hex(&format!("{:?}", v))).collect::<Vec<_>>().join(",")),
    }
}

/// undo `<str as Debug>`: `s` starts right after the opening quote; returns the content and the rest after the closing quote
fn unescape_debug(s: &str) -> Option<(String, &str)> {
    let mut out = String::new();
    let mut it = s.char_indices();
    while let Some((i, c)) = it.next() {
        match c {
            '"' => return Some((out, &s[i + 1..])),
            '\\' => match it.next()?.1 {
                '0' => out.push('\0'),
                't' => out.push('\t'),
                'r' => out.push('\r'),
                'n' => out.push('\n'),
                '\\' => out.push('\\'),
                '"' => out.push('"'),
                '\'' => out.push('\''),
                'u' => {
                    if it.next()?.1 != '{' {
                        return None;
                    }
                    let mut n: u32 = 0;
                    loop {
                        let d = it.next()?.1;
                        if d == '}' {
                            break;
                        }
                        n = n.checked_mul(16)?.checked_add(d.to_digit(16)?)?;
                    }
                    out.push(char::from_u32(n)?);
                }
                _ => return None,
            },
            c => out.push(c),
        }
    }
    None
}

/// the key under which the real `AlphaMemoryIndex` files `v`: a one-fact memory with an index on `k`, its public `Debug`
/// shows `indexes: {"k": {<key as a Debug string>: [0]}}` (or `{"k": {}}` when the value has no key). Inside the facts part
/// every `"` of a string value is escaped, so the pattern with bare quotes can only be the field itself.
fn real_index_key(v: &FactValue) -> Result<Option<String>, String> {
    let mut m = AlphaMemoryIndex::new();
    m.create_index("k".to_string());
    let mut f = TypedFacts::new();
    f.set("k".to_string(), v.clone());
    m.insert(f);
    let d = format!("{:?}", m);
    let pat = "indexes: {\"k\": {";
    let p = d.find(pat).ok_or("no-indexes-field")?;
    let rest = &d[p + pat.len()..];
    if rest.starts_with("}}") {
        return Ok(None);
    }
    let rest = rest.strip_prefix('"').ok_or("no-key-quote")?;
    let (key, after) = unescape_debug(rest).ok_or("bad-key-escape")?;
    if !after.starts_with(": [0]}}") {
        return Err("bad-key-tail".into());
    }
    // the same key must answer a filter through the index
    if m.filter("k", v).len() != 1 {
        return Err("keyed-but-not-found".into());
    }
    Ok(Some(key))
}

fn exec_values(toks: &[&str]) -> String {
    let mut iks = Vec::new();
    for t in toks {
        let Some(v) = parse_val(t) else { return "bad-case".into() };
        iks.push(match real_index_key(&v) {
            Ok(Some(k)) => hex(&k),
            Ok(None) => "~".to_string(),
            Err(e) => format!("!{}", e),
        });
    }
    format!("ik={}", if iks.is_empty() { "-".to_string() } else { iks.join(",") })
}

// ------------------------------------------------------------------ N: NodeSharingRegistry

fn parse_pat(s: &str) -> Option<(String, String, String)> {
    let p: Vec<&str> = s.split(',').collect();
    if p.len() != 3 {
        return None;
    }
    Some((unhex(p[0])?, unhex(p[1])?, unhex(p[2])?))
}

fn exec_registry(toks: &[&str]) -> String {
    let mut reg = NodeSharingRegistry::new();
    let mut out = Vec::new();
    let show = |n: Option<&SharedAlphaNode>, pat: &(String, String, String)| -> String {
        match n {
            None => "none".to_string(),
            Some(n) if n.node.field != pat.0 || n.node.operator != pat.1 || n.node.value != pat.2 => "wrong-node".to_string(),
            Some(n) => format!("{}/{}", n.rule_indices.iter().map(|i| i.to_string()).collect::<Vec<_>>().join("."), n.ref_count),
        }
    };
    for op in toks {
        let parts: Vec<&str> = op.splitn(3, ':').collect();
        match (parts[0], parts.len()) {
            ("G", 3) => {
                let (Some(r), Some(pat)) = (parts[1].parse::<usize>().ok(), parse_pat(parts[2])) else { return "bad-case".into() };
                let node = AlphaNode { field: pat.0.clone(), operator: pat.1.clone(), value: pat.2.clone() };
                let got = show(Some(reg.register(&node, r)), &pat);
                out.push(got);
            }
            ("U", 2) => {
                let Some(r) = parts[1].parse::<usize>().ok() else { return "bad-case".into() };
                reg.unregister_rule(r);
            }
            ("Q", 2) => {
                let Some(pat) = parse_pat(parts[1]) else { return "bad-case".into() };
                let key = AlphaPattern { field: pat.0.clone(), operator: pat.1.clone(), value: pat.2.clone() };
                out.push(show(reg.get(&key), &pat));
            }
            _ => return "bad-case".into(),
        }
    }
    let st = reg.stats();
    out.push(format!("stats={},{},{}", st.total_nodes, st.unique_patterns, st.shared_instances));
    out.join(" ")
}

// ------------------------------------------------------------------ K: CompactAlphaMemory

fn exec_compact(toks: &[&str]) -> String {
    let mut mem = CompactAlphaMemory::new();
    let mut out = Vec::new();
    for op in toks {
        let Some((h, f)) = op.split_once(':') else { return "bad-case".into() };
        let Some(f) = parse_facts(f) else { return "bad-case".into() };
        match h {
            "A" => mem.add(&f),
            "R" => out.push(mem.remove(&f)),
            "C" => out.push(mem.contains(&f)),
            _ => return "bad-case".into(),
        }
        if mem.is_empty() != (mem.len() == 0) {
            return "bad-is-empty".into();
        }
    }
    format!("r={} len={} refs={}", bits(&out), mem.len(), mem.total_refs())
}

fn pool() -> Vec<FactValue> {
    use FactValue::*;
    let s = |x: &str| String(x.to_string());
    let nan2 = f64::from_bits(0xfff8_0000_0000_0001);
    vec![
        Integer(0), Integer(1), Integer(5), Integer(-1),
        Float(0.0), Float(-0.0), Float(f64::NAN), Float(nan2), Float(1.0), Float(5.0), Float(2.5), Float(f64::INFINITY),
        s("5"), s("0"), s("5.0"), s("0.0"), s("-0.0"), s("NaN"), s("true"), s("null"), s("a"), s(""), s("1"),
        s("[Integer(5)]"), s("a\"b"), s("a\\b"), s("Integer(5)"),
        Boolean(true), Boolean(false), Null,
        Array(vec![]), Array(vec![Integer(5)]), Array(vec![s("5")]), Array(vec![Float(0.0)]), Array(vec![Float(-0.0)]),
        Array(vec![Float(f64::NAN)]), Array(vec![Integer(5), s("a")]), Array(vec![Array(vec![Integer(5)])]),
        Array(vec![Array(vec![Float(-0.0)])]), Array(vec![Array(vec![Float(0.0)])]), Array(vec![Null]), Array(vec![Boolean(true)]),
        Array(vec![Integer(5), Integer(5)]),
        // strings whose Debug text needs escapes / contains the array and string delimiters; deeper nesting
        s("a, b"), s("\"), String(\""), s("a\nb\t\0'"), s("e\u{301}\u{200b}\u{e9}"), s("\u{1f600}\u{feff}\u{e000}"), s("\\u{301}"),
        Array(vec![s("a, b")]), Array(vec![s("a"), s("b")]), Array(vec![s("a\"), String(\"b")]),
        Array(vec![Array(vec![Array(vec![Float(-0.0), s("])")])]), Array(vec![])]),
        Array(vec![Array(vec![Array(vec![Float(0.0), s("])")])]), Array(vec![])]),
    ]
}

/// strings that exercise every branch of `<str as Debug>`: fixed escapes, `'` (kept), control characters, DEL, non-ASCII printable,
/// grapheme extenders, format / private-use / unassigned / separator characters, astral characters, and text that looks like
/// the renderer's own output
fn xstrings() -> Vec<std::string::String> {
    [
        "", "a", "a\"b", "a\\b", "a'b", "\n", "\t\r", "\0", "\u{7f}", "\u{1}\u{1b}", "\u{e9}", "\u{df}\u{4e2d}\u{3a9}", "\u{1f600}",
        "a\u{301}", "\u{301}", "\u{200b}", "\u{feff}x", "\u{e000}", "\u{85}", "\u{ad}", "\u{2028}", "\u{e0001}", "\u{10ffff}",
        "\u{a0}", "\u{3000}", "a, b", "\"), String(\"", "])", "\\u{301}", "\\n", "\\\"", "String(\"x\")", "Array([])", "Integer(1)",
        "1", ", ", "[", "\u{1d11e}", "\u{ac00}\u{3042}\u{416}", "\u{200d}", "\u{20dd}", "\u{fe0f}", "\\", "\"", "\\\\", "u{41}", "{", "}",
        "\u{fc}\u{2200}", "Float(NaN)", "Null", "\\0", "\\u{0}", "~ ",
    ]
    .iter()
    .map(|x| x.to_string())
    .collect()
}

/// the characters random strings are drawn from (ASCII incl. controls and delimiters + the non-ASCII code points above)
fn xchars() -> Vec<char> {
    "ab1 ,\"\\'()[]{}u\n\t\r\0\u{1}\u{1b}\u{7f}~\u{e9}\u{df}\u{fc}\u{3a9}\u{416}\u{4e2d}\u{3042}\u{ac00}\u{2200}\u{1f600}\u{1d11e}\u{301}\u{200b}\u{200d}\u{20dd}\u{fe0f}\u{feff}\u{e000}\u{85}\u{ad}\u{a0}\u{2028}\u{3000}\u{e0001}\u{10ffff}"
        .chars()
        .collect()
}

fn rand_string(rng: &mut Rng) -> std::string::String {
    let xs = xstrings();
    if rng.chance(1, 3) {
        return rng.pick(&xs).clone();
    }
    let cs = xchars();
    (0..rng.below(7)).map(|_| *rng.pick(&cs)).collect()
}

/// a random value, arrays nested up to `depth`
fn rand_val(rng: &mut Rng, depth: u32) -> FactValue {
    use FactValue::*;
    let nan2 = f64::from_bits(0xfff8_0000_0000_0001);
    match rng.below(if depth == 0 { 8 } else { 12 }) {
        0..=3 => String(rand_string(rng)),
        4 => Integer(*rng.pick(&[0i64, 1, -1, 5, -5, 10, 255, i64::MAX, i64::MIN])),
        5 => Float(*rng.pick(&[0.0, -0.0, f64::NAN, nan2, 1.0, 5.0, 2.5, -2.5, 0.1, 1e16, 1e-7, f64::INFINITY, f64::NEG_INFINITY, f64::MIN_POSITIVE, 5e-324])),
        6 => Boolean(rng.chance(1, 2)),
        7 => Null,
        _ => Array((0..rng.below(4)).map(|_| rand_val(rng, depth - 1)).collect()),
    }
}

/// V cases: every exotic string alone and inside an array; splitting / joining confusers; random values nested 0..3 deep
fn gen_values(rng: &mut Rng, n: usize) -> Vec<std::string::String> {
    use FactValue::*;
    let xs = xstrings();
    let mut out = Vec::new();
    for x in &xs {
        out.push(format!("V {} {}", val_str(&String(x.clone())), val_str(&Array(vec![String(x.clone())]))));
    }
    for (i, a) in xs.iter().enumerate() {
        let b = &xs[(i * 7 + 3) % xs.len()];
        // two elements vs. one element that spells the separator / the closing and opening of a string
        out.push(format!(
            "V {} {} {} {}",
            val_str(&Array(vec![String(a.clone()), String(b.clone())])),
            val_str(&Array(vec![String(format!("{}, {}", a, b))])),
            val_str(&Array(vec![String(format!("{}\"), String(\"{}", a, b))])),
            val_str(&Array(vec![Array(vec![String(a.clone())]), String(b.clone())])),
        ));
    }
    for _ in 0..n {
        let k = rng.range(1, 5);
        let mut vs: Vec<FactValue> = Vec::new();
        for _ in 0..k {
            let v = if !vs.is_empty() && rng.chance(1, 3) {
                // a near copy: wrap, unwrap or re-type
                let w = rng.pick(&vs).clone();
                match rng.below(3) {
                    0 => Array(vec![w]),
                    1 => String(format!("{:?}", w)),
                    _ => w,
                }
            } else {
                { let d = rng.below(4) as u32; rand_val(rng, d) }
            };
            vs.push(v);
        }
        out.push(format!("V {}", vs.iter().map(val_str).collect::<Vec<_>>().join(" ")));
    }
    out
}


fn pat_tok(p: &(&str, &str, &str)) -> std::string::String {
    format!("{},{},{}", hex(p.0), hex(p.1), hex(p.2))
}

/// patterns that are easy to confuse when compared or hashed carelessly (same concatenation, trailing blank, empty parts)
fn patterns() -> Vec<(&'static str, &'static str, &'static str)> {
    vec![
        ("x", "==", "5"), ("x", "==", "5 "), ("x", "==", "5.0"), ("x", "!=", "5"), ("x ", "==", "5"), ("y", "==", "5"),
        ("x", "==", ""), ("x=", "=", "5"), ("", "x==", "5"), ("x", "=", "=5"), ("x", "contains", "a\"b"),
    ]
}

fn gen_registry(rng: &mut Rng) -> std::string::String {
    let all = patterns();
    // a few patterns per case so that sharing happens
    let k = rng.range(1, 4) as usize;
    let pats: Vec<(&str, &str, &str)> = (0..k).map(|_| *rng.pick(&all)).collect();
    let len = rng.range(3, 12);
    let mut ops = Vec::new();
    for _ in 0..len {
        ops.push(match rng.below(100) {
            0..=49 => format!("G:{}:{}", rng.below(4), pat_tok(rng.pick(&pats))),
            50..=69 => format!("U:{}", rng.below(4)),
            _ => format!("Q:{}", pat_tok(if rng.chance(4, 5) { rng.pick(&pats) } else { rng.pick(&all) })),
        });
    }
    format!("N {}", ops.join(" "))
}

/// K cases: add / remove / contains over a handful of fact sets that are easy to confuse
fn gen_compact(rng: &mut Rng, pool: &[FactValue]) -> std::string::String {
    let groups = alike_groups();
    let (g, _) = rng.pick(&groups).clone();
    let mut sets: Vec<Vec<(std::string::String, FactValue)>> = Vec::new();
    for v in &g {
        sets.push(vec![("x".to_string(), v.clone())]);
    }
    let extra = if rng.chance(1, 2) { rng.pick(pool).clone() } else { rand_val(rng, 2) };
    sets.push(vec![("y".to_string(), g[0].clone())]);
    sets.push(vec![("x".to_string(), g[0].clone()), ("y".to_string(), extra.clone())]);
    sets.push(vec![("x".to_string(), extra)]);
    if rng.chance(1, 3) {
        sets.push(vec![]);
    }
    let len = rng.range(3, 12);
    let mut ops = Vec::new();
    for _ in 0..len {
        let f = facts_str(&rng.pick(&sets)[..]);
        ops.push(match rng.below(100) {
            0..=44 => format!("A:{}", f),
            45..=69 => format!("R:{}", f),
            _ => format!("C:{}", f),
        });
    }
    format!("K {}", ops.join(" "))
}


// ------------------------------------------------------------------ A: alpha memory index

fn positions(mem: &AlphaMemoryIndex, rs: &[&TypedFacts]) -> Vec<usize> {
    let all = mem.get_all();
    rs.iter()
        .map(|r| all.iter().position(|f| std::ptr::eq(f, *r)).unwrap_or(usize::MAX))
        .collect()
}
fn linear(mem: &AlphaMemoryIndex, field: &str, v: &FactValue) -> Vec<usize> {
    mem.get_all().iter().enumerate().filter(|(_, f)| f.get(field) == Some(v)).map(|(i, _)| i).collect()
}

fn exec_alpha(ops: &[&str]) -> String {
    let mut mem = AlphaMemoryIndex::new();
    let mut out = Vec::new();
    for op in ops {
        let parts: Vec<&str> = op.splitn(3, ':').collect();
        match parts[0] {
            "I" => {
                let Some(f) = parts.get(1).and_then(|s| parse_facts(s)) else { return "bad-case".into() };
                let before = mem.len();
                let idx = mem.insert(f);
                if idx != before {
                    return "bad-insert-index".into();
                }
            }
            "C" => mem.create_index(parts[1].to_string()),
            "D" => mem.drop_index(parts[1]),
            "U" => mem.auto_tune(),
            "X" => mem.clear(),
            "F" => {
                let Some(v) = parts.get(2).and_then(|s| parse_val(s)) else { return "bad-case".into() };
                let got = positions(&mem, &mem.filter(parts[1], &v));
                out.push(format!("{}/{}", join_nums(&got), join_nums(&linear(&mem, parts[1], &v))));
            }
            t if t.starts_with('T') => {
                let n: usize = t[1..].parse().unwrap_or(1);
                let Some(v) = parts.get(2).and_then(|s| parse_val(s)) else { return "bad-case".into() };
                let mut last: Option<Vec<usize>> = None;
                for _ in 0..n.max(1) {
                    let r: Vec<*const TypedFacts> =
                        mem.filter_tracked(parts[1], &v).into_iter().map(|x| x as *const TypedFacts).collect();
                    let all = mem.get_all();
                    let got: Vec<usize> =
                        r.iter().map(|x| all.iter().position(|f| std::ptr::eq(f, *x)).unwrap_or(usize::MAX)).collect();
                    if let Some(l) = &last {
                        if *l != got {
                            return "unstable".into();
                        }
                    }
                    last = Some(got);
                }
                out.push(format!("{}/{}", join_nums(&last.unwrap()), join_nums(&linear(&mem, parts[1], &v))));
            }
            _ => return "bad-case".into(),
        }
    }
    let mut ix: Vec<String> = mem.indexed_fields().into_iter().cloned().collect();
    ix.sort();
    out.push(format!("n={}", mem.len()));
    out.push(format!("ix={}", if ix.is_empty() { "-".to_string() } else { ix.join(",") }));
    // get(i) is the i-th fact of get_all(), is_empty agrees with len
    if mem.is_empty() != (mem.len() == 0) || mem.get(mem.len()).is_some() {
        return "bad-len".into();
    }
    for i in 0..mem.len() {
        match mem.get(i) {
            Some(f) if std::ptr::eq(f, &mem.get_all()[i]) => {}
            _ => return "bad-get".into(),
        }
    }
    // the IndexStats counters as its Display prints them
    let st = mem.stats().to_string();
    let num = |label: &str| -> String {
        st.find(label)
            .map(|p| st[p + label.len()..].chars().take_while(|c| c.is_ascii_digit()).collect::<String>())
            .filter(|d| !d.is_empty())
            .unwrap_or_else(|| "?".to_string())
    };
    out.push(format!("st={},{},{}", num("Total queries: "), num("Indexed lookups: "), num("Linear scans: ")));
    out.join(" ")
}

// ------------------------------------------------------------------ B: beta memory index

fn exec_beta(toks: &[&str]) -> String {
    let Some(jk) = toks.first() else { return "bad-case".into() };
    let mut ix = BetaMemoryIndex::new(jk.to_string());
    let mut log: Vec<(String, usize)> = Vec::new(); // (rendered key, idx) of adds not removed since
    let mut out = Vec::new();
    for op in &toks[1..] {
        let parts: Vec<&str> = op.splitn(3, ':').collect();
        match parts[0] {
            "A" | "R" => {
                let (Some(i), Some(f)) = (parts.get(1).and_then(|s| s.parse::<usize>().ok()), parts.get(2).and_then(|s| parse_facts(s)))
                else { return "bad-case".into() };
                let key = f.get(jk).map(|v| format!("{:?}", v));
                if parts[0] == "A" {
                    ix.add(&f, i);
                    if let Some(k) = key {
                        log.push((k, i));
                    }
                } else {
                    ix.remove(&f, i);
                    if let Some(k) = key {
                        log.retain(|(k2, i2)| !(*k2 == k && *i2 == i));
                    }
                }
            }
            "L" => {
                let key = match (parts.get(1), parts.get(2)) {
                    (Some(&"v"), Some(s)) => match parse_val(s) {
                        Some(v) => format!("{:?}", v),
                        None => return "bad-case".into(),
                    },
                    (Some(&"t"), Some(s)) => match unhex(s) {
                        Some(t) => t,
                        None => return "bad-case".into(),
                    },
                    _ => return "bad-case".into(),
                };
                let got: Vec<usize> = ix.lookup(&key).to_vec();
                let rf: Vec<usize> = log.iter().filter(|(k, _)| *k == key).map(|(_, i)| *i).collect();
                out.push(format!("{}/{}", join_nums(&got), join_nums(&rf)));
            }
            _ => return "bad-case".into(),
        }
    }
    out.push(format!("size={}", ix.size()));
    out.join(" ")
}

// ------------------------------------------------------------------ M: memoised evaluation

fn dec_node(toks: &[&str], pos: &mut usize) -> Option<ReteUlNode> {
    let t = *toks.get(*pos)?;
    *pos += 1;
    match t {
        "and" => {
            let a = dec_node(toks, pos)?;
            let b = dec_node(toks, pos)?;
            Some(ReteUlNode::UlAnd(Box::new(a), Box::new(b)))
        }
        "or" => {
            let a = dec_node(toks, pos)?;
            let b = dec_node(toks, pos)?;
            Some(ReteUlNode::UlOr(Box::new(a), Box::new(b)))
        }
        "not" => Some(ReteUlNode::UlNot(Box::new(dec_node(toks, pos)?))),
        "al" => {
            let field = toks.get(*pos)?.to_string();
            let op = match *toks.get(*pos + 1)? {
                "eq" => "==",
                "ne" => "!=",
                _ => return None,
            };
            let lit = unhex(toks.get(*pos + 2)?)?;
            *pos += 3;
            let _parsed = dec_val(toks, pos)?; // what the model is told the literal parses to
            Some(ReteUlNode::UlAlpha(AlphaNode { field, operator: op.to_string(), value: lit }))
        }
        "co" => {
            let field = toks.get(*pos)?.to_string();
            let lit = unhex(toks.get(*pos + 1)?)?;
            *pos += 2;
            let _parsed = dec_val(toks, pos)?;
            Some(ReteUlNode::UlAlpha(AlphaNode { field, operator: "contains".to_string(), value: lit }))
        }
        "cnt" => {
            let field = toks.get(*pos)?.to_string();
            let op = match *toks.get(*pos + 1)? {
                "gt" => Some(">"),
                "lt" => Some("<"),
                "ge" => Some(">="),
                "le" => Some("<="),
                "eq" => Some("=="),
                "ne" => Some("!="),
                "xx" => Some("~"),
                "any" => None,
                _ => return None,
            };
            let k: i64 = toks.get(*pos + 2)?.parse().ok()?;
            *pos += 3;
            Some(ReteUlNode::UlMultiField {
                field,
                operation: "count".to_string(),
                value: None,
                operator: op.map(|o| o.to_string()),
                compare_value: op.map(|_| k.to_string()),
            })
        }
        "mf" => {
            let field = toks.get(*pos)?.to_string();
            let operation = match *toks.get(*pos + 1)? {
                "empty" => "empty",
                "nonempty" => "not_empty",
                "first" => "first",
                "last" => "last",
                "collect" => "collect",
                _ => return None,
            };
            *pos += 2;
            Some(ReteUlNode::UlMultiField { field, operation: operation.to_string(), value: None, operator: None, compare_value: None })
        }
        _ => None,
    }
}

fn bits(bs: &[bool]) -> String {
    if bs.is_empty() { "-".into() } else { bs.iter().map(|b| if *b { '1' } else { '0' }).collect() }
}

fn exec_memo(toks: &[&str]) -> String {
    let mut nodes = Vec::new();
    let mut sets = Vec::new();
    let mut ev = MemoizedEvaluator::new();
    let (mut d, mut m, mut h) = (Vec::new(), Vec::new(), Vec::new());
    for t in toks {
        if let Some(s) = t.strip_prefix("N:") {
            let ts: Vec<&str> = s.split(',').collect();
            let mut p = 0;
            match dec_node(&ts, &mut p) {
                Some(n) if p == ts.len() => nodes.push(n),
                _ => return "bad-case".into(),
            }
        } else if let Some(s) = t.strip_prefix("S:") {
            match parse_facts(s) {
                Some(f) => sets.push(f),
                None => return "bad-case".into(),
            }
        } else if let Some(s) = t.strip_prefix("E:") {
            let Some((a, b)) = s.split_once(':') else { return "bad-case".into() };
            let (Some(n), Some(f)) = (a.parse::<usize>().ok().and_then(|i| nodes.get(i)), b.parse::<usize>().ok().and_then(|i| sets.get(i)))
            else { return "bad-case".into() };
            d.push(n.evaluate_typed(f));
            m.push(ev.evaluate(n, f, |n, f| n.evaluate_typed(f)));
            h.push(ev.stats().hits);
        } else if *t == "K" {
            ev.clear();
        } else {
            return "bad-case".into();
        }
    }
    let st = ev.stats();
    if st.cache_size != ev.cache_size() {
        return "bad-cache-size".into();
    }
    let nk = if nodes.is_empty() { "-".to_string() } else { nodes.iter().map(|n| hex(&format!("{:?}", n))).collect::<Vec<_>>().join(",") };
    format!("d={} m={} h={} miss={} size={} nk={}", bits(&d), bits(&m), join_nums(&h), st.misses, st.cache_size, nk)
}

// ------------------------------------------------------------------ C / E: conclusion index

fn parse_rule(s: &str) -> Option<Rule> {
    let parts: Vec<&str> = s.splitn(3, ':').collect();
    if parts.len() != 3 {
        return None;
    }
    let mut actions = Vec::new();
    if parts[2] != "-" {
        for a in parts[2].split(';') {
            let p: Vec<&str> = a.split('~').collect();
            actions.push(match (p[0], p.len()) {
                ("S", 2) => ActionType::Set { field: p[1].to_string(), value: Value::Boolean(true) },
                ("M", 3) => ActionType::MethodCall { object: p[1].to_string(), method: p[2].to_string(), args: vec![] },
                ("R", 2) => ActionType::Retract { object: p[1].to_string() },
                ("W", 2) => ActionType::SetWorkflowData { key: p[1].to_string(), value: Value::Integer(1) },
                ("L", 1) => ActionType::Log { message: "m".to_string() },
                _ => return None,
            });
        }
    }
    let cond = ConditionGroup::Single(Condition::new("T".to_string(), Operator::Equal, Value::Boolean(true)));
    let mut r = Rule::new(parts[0].to_string(), cond, actions);
    let (flag, attrs) = match parts[1].split_once('!') {
        Some((f, a)) => (f, a),
        None => (parts[1], ""),
    };
    if flag != "e" && flag != "d" {
        return None;
    }
    for a in attrs.split('.').filter(|a| !a.is_empty()) {
        r = match a {
            "F" => r.with_date_effective_str(FAR_FUTURE).ok()?,
            "f" => r.with_date_effective_str(PAST).ok()?,
            "Z" => r.with_date_effective_str("2999-06-30T12:00:00+14:00").ok()?,
            "P" => r.with_date_expires_str(PAST).ok()?,
            "p" => r.with_date_expires_str(FAR_FUTURE).ok()?,
            "n" => r.with_no_loop(true),
            "l" => r.with_lock_on_active(true),
            "g" => r.with_agenda_group("grp".to_string()),
            "G" => r.with_agenda_group(String::new()),
            "a" => r.with_activation_group("act".to_string()),
            "D" => r.with_description("a rule with a description".to_string()),
            _ => r.with_salience(a.strip_prefix('S')?.parse::<i32>().ok()?),
        };
    }
    r.enabled = flag == "e";
    Some(r)
}

const FAR_FUTURE: &str = "2999-12-31T23:59:59Z";
const PAST: &str = "2001-01-01T00:00:00Z";

/// the attribute lists of the family "rule attributes the conclusion index must ignore"
fn attr_pool() -> Vec<&'static str> {
    vec![
        "F", "P", "F.P", "f", "p", "f.p", "F.p", "f.P", "Z", "S2147483647", "S-2147483648", "S0", "S-1", "n", "l", "n.l", "g", "G", "a", "g.a", "D",
        "F.S2147483647.n.g", "P.S-2147483648.l.a.D", "f.p.S1.n.l.g.a.D",
    ]
}

fn with_attrs(rule: &str, attrs: &str) -> String {
    let parts: Vec<&str> = rule.splitn(3, ':').collect();
    if parts.len() != 3 || attrs.is_empty() {
        return rule.to_string();
    }
    format!("{}:{}!{}:{}", parts[0], parts[1].split('!').next().unwrap_or("e"), attrs, parts[2])
}

/// the same cut `extract_field_from_goal` documents: text before the first listed operator, trimmed
fn goal_field(goal: &str) -> &str {
    for op in ["==", "!=", ">=", "<=", ">", "<", " contains ", " matches "] {
        if let Some(p) = goal.find(op) {
            return goal[..p].trim();
        }
    }
    goal.trim()
}

fn names(mut v: Vec<String>) -> String {
    v.sort();
    if v.is_empty() { "-".into() } else { v.join(",") }
}

fn exec_concl(toks: &[&str]) -> String {
    let mut ix = ConclusionIndex::new();
    let mut live: HashMap<String, Rule> = HashMap::new();
    let mut out = Vec::new();
    for t in toks {
        if let Some(s) = t.strip_prefix('+') {
            let Some(r) = parse_rule(s) else { return "bad-case".into() };
            ix.add_rule(&r);
            live.insert(r.name.clone(), r);
        } else if let Some(n) = t.strip_prefix('-') {
            ix.remove_rule(n);
            live.remove(n);
        } else if let Some(g) = t.strip_prefix('?') {
            let Some(goal) = unhex(g) else { return "bad-case".into() };
            let got: Vec<String> = ix.find_candidates(&goal).into_iter().collect();
            let field = goal_field(&goal);
            let scan: Vec<String> = live
                .values()
                .filter(|r| r.enabled && r.actions.iter().any(|a| matches!(a, ActionType::Set { field: f, .. } if f == field)))
                .map(|r| r.name.clone())
                .collect();
            out.push(format!("{}/{}", names(got), names(scan)));
        } else if *t == "X" {
            ix.clear();
            live.clear();
        } else {
            return "bad-case".into();
        }
    }
    let st = ix.stats();
    out.push(format!("rules={} fields={} empty={}", st.total_rules, st.indexed_fields, ix.is_empty() as u8));
    out.join(" ")
}

fn exec_engine(toks: &[&str]) -> String {
    // the rules given before the first non-`+` token form the initial knowledge base
    let kb = KnowledgeBase::new("kb");
    let mut i = 0;
    while i < toks.len() && toks[i].starts_with('+') {
        let Some(r) = parse_rule(&toks[i][1..]) else { return "bad-case".into() };
        let _ = kb.add_rule(r);
        i += 1;
    }
    let mut eng = BackwardEngine::new(kb);
    let stat = |e: &BackwardEngine| {
        let s = e.index_stats();
        format!("{},{}", s.total_rules, s.indexed_fields)
    };
    let mut out = vec![stat(&eng)];
    for t in &toks[i..] {
        if let Some(s) = t.strip_prefix('+') {
            let Some(r) = parse_rule(s) else { return "bad-case".into() };
            let _ = eng.knowledge_base().add_rule(r);
        } else if let Some(n) = t.strip_prefix('-') {
            let _ = eng.knowledge_base().remove_rule(n);
        } else if let Some(s) = t.strip_prefix("e:") {
            let Some((n, b)) = s.split_once(':') else { return "bad-case".into() };
            let _ = eng.knowledge_base().set_rule_enabled(n, b == "1");
        } else if *t == "B" {
            eng.rebuild_index();
        } else if *t == "W" {
            let kb2 = eng.knowledge_base().clone();
            eng = BackwardEngine::with_config(kb2, BackwardConfig::default());
        } else {
            return "bad-case".into();
        }
        out.push(stat(&eng));
    }
    out.join(" ")
}

fn exec(case: &str) -> String {
    let t: Vec<&str> = case.split_whitespace().collect();
    let with_kt = |o: String| if o.starts_with("bad-") || o == "unstable" { o } else { format!("{} {}", o, key_texts(&t)) };
    match t.first().copied() {
        Some("A") => with_kt(exec_alpha(&t[1..])),
        Some("B") => with_kt(exec_beta(&t[1..])),
        Some("M") => with_kt(exec_memo(&t[1..])),
        Some("K") => with_kt(exec_compact(&t[1..])),
        Some("V") => with_kt(exec_values(&t[1..])),
        Some("N") => exec_registry(&t[1..]),
        Some("C") => exec_concl(&t[1..]),
        Some("E") => exec_engine(&t[1..]),
        _ => "bad-case".into(),
    }
}

// ------------------------------------------------------------------ generators

fn rand_facts(rng: &mut Rng, pool: &[FactValue], fields: &[&str]) -> String {
    let mut kvs = Vec::new();
    for f in fields {
        if rng.chance(3, 4) {
            kvs.push((f.to_string(), rng.pick(pool).clone()));
        }
    }
    facts_str(&kvs)
}

/// a value likely to be related to `v`: the same one, or another pool value
fn near(rng: &mut Rng, pool: &[FactValue], used: &[FactValue]) -> FactValue {
    if !used.is_empty() && rng.chance(2, 3) { rng.pick(used).clone() } else { rng.pick(pool).clone() }
}

fn gen_alpha(rng: &mut Rng, pool: &[FactValue]) -> String {
    let fields = ["x", "y"];
    let len = rng.range(2, 10);
    let mut ops = Vec::new();
    let mut used: Vec<FactValue> = Vec::new();
    for _ in 0..len {
        let f = *rng.pick(&fields);
        match rng.below(100) {
            0..=34 => {
                let mut kvs = Vec::new();
                for fl in fields {
                    if rng.chance(3, 4) {
                        let v = near(rng, pool, &used);
                        used.push(v.clone());
                        kvs.push((fl.to_string(), v));
                    }
                }
                ops.push(format!("I:{}", facts_str(&kvs)));
            }
            35..=47 => ops.push(format!("C:{}", f)),
            48..=55 => ops.push(format!("D:{}", f)),
            56..=84 => ops.push(format!("F:{}:{}", f, val_str(&near(rng, pool, &used)))),
            85..=89 => ops.push(format!("T1:{}:{}", f, val_str(&near(rng, pool, &used)))),
            90..=94 => ops.push(format!("T51:{}:{}", f, val_str(&near(rng, pool, &used)))),
            95..=97 => ops.push("U".to_string()),
            _ => ops.push("X".to_string()),
        }
    }
    format!("A {}", ops.join(" "))
}

fn raw_keys() -> Vec<&'static str> {
    vec![
        "5", "Integer(5)", "String(\"5\")", "Float(0.0)", "Float(-0.0)", "Float(NaN)", "Float(5.0)", "Null", "null",
        "Array([])", "Array([Integer(5)])", "Boolean(true)", "true", "String(\"a\\\"b\")", "String(\"a\\\\b\")", "",
    ]
}

fn gen_beta(rng: &mut Rng, pool: &[FactValue]) -> String {
    let len = rng.range(2, 10);
    let mut ops = Vec::new();
    let mut used: Vec<FactValue> = Vec::new();
    let raws = raw_keys();
    for _ in 0..len {
        match rng.below(100) {
            0..=39 | 40..=59 => {
                let add = rng.chance(2, 3);
                let mut kvs = Vec::new();
                if rng.chance(9, 10) {
                    let v = near(rng, pool, &used);
                    used.push(v.clone());
                    kvs.push(("k".to_string(), v));
                }
                if rng.chance(1, 3) {
                    kvs.push(("z".to_string(), rng.pick(pool).clone()));
                }
                ops.push(format!("{}:{}:{}", if add { "A" } else { "R" }, rng.below(4), facts_str(&kvs)));
            }
            60..=89 => ops.push(format!("L:v:{}", val_str(&near(rng, pool, &used)))),
            _ => {
                let r: &str = *rng.pick(&raws[..]);
                ops.push(format!("L:t:{}", hex(r)))
            }
        }
    }
    format!("B k {}", ops.join(" "))
}

/// (literal text, what `parse_value_string` makes of it)
fn literals() -> Vec<(&'static str, FactValue)> {
    use FactValue::*;
    vec![
        ("5", Integer(5)), ("0", Integer(0)), ("5.0", Float(5.0)), ("0.0", Float(0.0)), ("-0.0", Float(-0.0)),
        ("NaN", Float(f64::NAN)), ("true", Boolean(true)), ("null", Null), ("a", String("a".into())),
        ("y", String("y".into())), ("[5]", Array(vec![Integer(5)])), ("[]", Array(vec![])),
    ]
}

fn gen_node(rng: &mut Rng, depth: u32, hints: &[&str]) -> String {
    let lits = literals();
    if depth == 0 || rng.chance(3, 5) {
        let hinted: Vec<(&'static str, FactValue)> = lits.iter().filter(|(t, _)| hints.contains(t)).cloned().collect();
        let (t, v) = if !hinted.is_empty() && rng.chance(3, 4) { rng.pick(&hinted).clone() } else { rng.pick(&lits).clone() };
        let f = *rng.pick(&["x", "x", "x", "y"]);
        let op = if rng.chance(3, 4) { "eq" } else { "ne" };
        format!("al,{},{},{},{}", f, op, hex(t), val_str(&v))
    } else {
        match rng.below(3) {
            0 => format!("and,{},{}", gen_node(rng, depth - 1, hints), gen_node(rng, depth - 1, hints)),
            1 => format!("or,{},{}", gen_node(rng, depth - 1, hints), gen_node(rng, depth - 1, hints)),
            _ => format!("not,{}", gen_node(rng, depth - 1, hints)),
        }
    }
}

/// groups of values whose `as_str()` text coincides although type (or sign / NaN payload) differs
fn alike_groups() -> Vec<(Vec<FactValue>, Vec<&'static str>)> {
    use FactValue::*;
    let s = |x: &str| String(x.to_string());
    vec![
        (vec![Integer(5), s("5"), Float(5.0)], vec!["5", "5.0"]),
        (vec![Integer(0), s("0"), Float(0.0), Float(-0.0)], vec!["0", "0.0", "-0.0"]),
        (vec![Float(-0.0), s("-0"), Float(0.0)], vec!["-0.0", "0.0"]),
        (vec![Boolean(true), s("true")], vec!["true"]),
        (vec![Null, s("null")], vec!["null"]),
        (vec![Float(f64::NAN), s("NaN"), Float(f64::from_bits(0xfff8_0000_0000_0001))], vec!["NaN"]),
        (vec![Array(vec![Integer(5)]), s("[Integer(5)]")], vec!["[5]"]),
        (vec![Array(vec![]), s("[]")], vec!["[]"]),
        (vec![Array(vec![s("5")]), Array(vec![Integer(5)]), s("[String(\"5\")]")], vec!["[5]"]),
        (vec![s("a"), s("y")], vec!["a", "y"]),
    ]
}

fn gen_memo(rng: &mut Rng, pool: &[FactValue]) -> String {
    let groups = alike_groups();
    let (g, hints) = rng.pick(&groups).clone();
    let nn = rng.range(1, 3) as usize;
    let mut toks = Vec::new();
    for _ in 0..nn {
        toks.push(format!("N:{}", gen_node(rng, 2, &hints)));
    }
    // fact sets: the members of one group under x (print alike, differ in type), sometimes with y as well
    let mut sets = Vec::new();
    for v in &g {
        sets.push(vec![("x".to_string(), v.clone())]);
    }
    if rng.chance(1, 2) {
        let yv = rng.pick(pool).clone();
        for v in &g {
            sets.push(vec![("x".to_string(), v.clone()), ("y".to_string(), yv.clone())]);
        }
    }
    if rng.chance(1, 3) {
        sets.push(vec![]);
        sets.push(vec![("x".to_string(), rng.pick(pool).clone())]);
    }
    for s in &sets {
        toks.push(format!("S:{}", facts_str(s)));
    }
    let steps = rng.range(2, 10);
    let mut node = rng.below(nn as u64);
    for _ in 0..steps {
        if rng.chance(1, 4) {
            node = rng.below(nn as u64);
        }
        if rng.chance(1, 20) {
            toks.push("K".to_string());
        }
        toks.push(format!("E:{}:{}", node, rng.below(sets.len() as u64)));
    }
    format!("M {}", toks.join(" "))
}

/// hot join key: 33..80 (one case in six: 81..140) entries under one key (a second key sometimes shares the index), indices added in
/// ascending / descending / shuffled order and sometimes twice, then removals in random order with a lookup
/// after each, re-adds under the old index (the entry moves to the end of the bucket) and second removals.
/// A bucket is a `Vec<usize>` in insertion order: nothing may assume it is sorted or duplicate-free, whatever its length.
fn gen_beta_hot(rng: &mut Rng, pool: &[FactValue]) -> String {
    let k1 = rng.pick(pool).clone();
    let mut k2 = rng.pick(pool).clone();
    if format!("{:?}", k2) == format!("{:?}", k1) {
        k2 = FactValue::String("other".to_string());
    }
    let two = rng.chance(1, 3);
    let n1 = if rng.chance(1, 6) { rng.range(81, 140) } else { rng.range(33, 80) } as usize;
    let n2 = if two { rng.range(1, 45) as usize } else { 0 };
    // (key#, idx) of every add, in the order of the adds
    let mut adds: Vec<(usize, usize)> = (0..n1).map(|i| (0usize, i)).collect();
    for j in 0..n2 {
        // the second key reuses part of the index range (same idx filed under two keys) or continues it
        adds.push((1, if rng.chance(1, 2) { j } else { n1 + j }));
    }
    match rng.below(4) {
        0 => {}                // ascending
        1 => adds.reverse(),   // descending
        _ => {
            for i in (1..adds.len()).rev() {
                let j = rng.below(i as u64 + 1) as usize;
                adds.swap(i, j);
            }
        }
    }
    let fact = |k: usize, rng: &mut Rng| -> String {
        let mut kvs = vec![("k".to_string(), if k == 0 { k1.clone() } else { k2.clone() })];
        if rng.chance(1, 8) {
            kvs.push(("z".to_string(), FactValue::Integer(rng.below(3) as i64)));
        }
        facts_str(&kvs)
    };
    let mut ops: Vec<String> = Vec::new();
    let mut live: Vec<(usize, usize)> = Vec::new();
    for &(k, i) in &adds {
        ops.push(format!("A:{}:{}", i, fact(k, rng)));
        live.push((k, i));
        if rng.chance(1, 25) {
            ops.push(format!("A:{}:{}", i, fact(k, rng))); // the same index twice
        }
    }
    let look = |k: usize| format!("L:v:{}", val_str(if k == 0 { &k1 } else { &k2 }));
    ops.push(look(0));
    if two {
        ops.push(look(1));
    }
    let rounds = rng.range(4, 14);
    for _ in 0..rounds {
        if live.is_empty() {
            break;
        }
        let p = rng.below(live.len() as u64) as usize;
        let (k, i) = live[p];
        ops.push(format!("R:{}:{}", i, fact(k, rng)));
        ops.push(look(k));
        match rng.below(10) {
            0..=4 => {
                // retract + re-assert under the old index, then (mostly) retract again
                ops.push(format!("A:{}:{}", i, fact(k, rng)));
                if rng.chance(1, 3) {
                    ops.push(look(k));
                }
                if rng.chance(3, 4) {
                    ops.push(format!("R:{}:{}", i, fact(k, rng)));
                    ops.push(look(k));
                    live.remove(p);
                }
            }
            5 => {
                // removal under the other key / of an index never added: nothing may change
                ops.push(format!("R:{}:{}", i, fact(1 - k, rng)));
                ops.push(format!("R:{}:{}", n1 + n2 + 7, fact(k, rng)));
                ops.push(look(k));
                live.remove(p);
            }
            _ => {
                live.remove(p);
            }
        }
    }
    if rng.chance(1, 4) {
        // drain one key completely in random order: the key must disappear from the index (size)
        let k = if two && rng.chance(1, 2) { 1 } else { 0 };
        let mut rest: Vec<usize> = live.iter().filter(|e| e.0 == k).map(|e| e.1).collect();
        for i in (1..rest.len()).rev() {
            let j = rng.below(i as u64 + 1) as usize;
            rest.swap(i, j);
        }
        for (c, i) in rest.iter().enumerate() {
            ops.push(format!("R:{}:{}", i, fact(k, rng)));
            if c % 16 == 0 {
                ops.push(look(k));
            }
        }
        ops.push(look(k));
    }
    format!("B k {}", ops.join(" "))
}

/// a random array whose pre-order sequence of "array opens" and leaves is exactly `toks` (`None` = array open,
/// `Some(v)` = leaf): the top level takes everything, inner arrays take a random number of the following items.
/// Different runs over the same `toks` give the same leaves under a different grouping.
fn regroup(rng: &mut Rng, toks: &[Option<FactValue>]) -> FactValue {
    fn item(rng: &mut Rng, toks: &[Option<FactValue>], pos: &mut usize) -> FactValue {
        let t = toks[*pos].clone();
        *pos += 1;
        match t {
            Some(v) => v,
            None => {
                let mut xs = Vec::new();
                let k = rng.below(4);
                for _ in 0..k {
                    if *pos >= toks.len() {
                        break;
                    }
                    xs.push(item(rng, toks, pos));
                }
                FactValue::Array(xs)
            }
        }
    }
    let mut pos = 0;
    let mut xs = Vec::new();
    while pos < toks.len() {
        xs.push(item(rng, toks, &mut pos));
    }
    FactValue::Array(xs)
}

/// groups of nested arrays with the same leaves in the same order under different groupings
fn nested_group(rng: &mut Rng) -> Vec<FactValue> {
    use FactValue::*;
    let a = |v: Vec<FactValue>| Array(v);
    let i = |x: i64| Integer(x);
    let fixed: Vec<Vec<FactValue>> = vec![
        vec![a(vec![a(vec![i(1)]), i(2)]), a(vec![a(vec![i(1), i(2)])]), a(vec![a(vec![i(1)]), a(vec![i(2)])]), a(vec![i(1), i(2)])],
        vec![a(vec![a(vec![]), a(vec![])]), a(vec![a(vec![a(vec![])])]), a(vec![a(vec![])]), a(vec![])],
        vec![a(vec![a(vec![]), i(2)]), a(vec![a(vec![i(2)])]), a(vec![i(2)])],
        vec![a(vec![i(1), a(vec![i(2), i(5)])]), a(vec![i(1), a(vec![i(2)]), i(5)]), a(vec![i(1), a(vec![]), i(2), i(5)])],
        vec![
            a(vec![a(vec![]), a(vec![a(vec![])])]),
            a(vec![a(vec![a(vec![a(vec![])])])]),
            a(vec![a(vec![a(vec![]), a(vec![])])]),
            a(vec![a(vec![]), a(vec![]), a(vec![])]),
            a(vec![a(vec![a(vec![])]), a(vec![])]),
        ],
        vec![a(vec![a(vec![String("a".into())]), Null]), a(vec![a(vec![String("a".into()), Null])]), a(vec![a(vec![]), String("a".into()), Null])],
    ];
    if rng.chance(1, 2) {
        return rng.pick(&fixed).clone();
    }
    // random: 2..6 items after the outer open, at least one inner open, leaves from a small set
    let leaves = [i(1), i(2), i(5), String("a".into()), Null, Boolean(true), Float(-0.0)];
    let len = rng.range(2, 6) as usize;
    let mut toks: Vec<Option<FactValue>> = (0..len).map(|_| if rng.chance(2, 5) { None } else { Some(rng.pick(&leaves).clone()) }).collect();
    toks[0] = None;
    let mut g: Vec<FactValue> = Vec::new();
    for _ in 0..8 {
        let v = regroup(rng, &toks);
        if !g.iter().any(|w| val_str(w) == val_str(&v)) {
            g.push(v);
        }
        if g.len() == 4 {
            break;
        }
    }
    g
}

/// a node whose verdict depends on how the array under `x` is grouped
fn gen_nested_node(rng: &mut Rng, depth: u32) -> String {
    if depth > 0 && rng.chance(1, 4) {
        return match rng.below(3) {
            0 => format!("and,{},{}", gen_nested_node(rng, depth - 1), gen_nested_node(rng, depth - 1)),
            1 => format!("or,{},{}", gen_nested_node(rng, depth - 1), gen_nested_node(rng, depth - 1)),
            _ => format!("not,{}", gen_nested_node(rng, depth - 1)),
        };
    }
    use FactValue::*;
    let lits: Vec<(&str, FactValue)> = vec![
        ("1", Integer(1)), ("2", Integer(2)), ("5", Integer(5)), ("a", String("a".into())), ("null", Null), ("true", Boolean(true)),
        ("[]", Array(vec![])), ("[1]", Array(vec![Integer(1)])), ("[2]", Array(vec![Integer(2)])), ("[1,2]", Array(vec![Integer(1), Integer(2)])),
        ("-0.0", Float(-0.0)),
    ];
    let y = ("y", String("y".into())); // names the field y when the fact set has one (variable reference)
    match rng.below(10) {
        0..=2 => {
            let op = if rng.chance(3, 4) { "eq" } else { "ne" };
            format!("al,x,{},{},{}", op, hex(y.0), val_str(&y.1))
        }
        3 => {
            let (t, v) = rng.pick(&lits).clone();
            format!("al,x,{},{},{}", if rng.chance(1, 2) { "eq" } else { "ne" }, hex(t), val_str(&v))
        }
        4..=5 => {
            let (t, v) = if rng.chance(1, 4) { y.clone() } else { rng.pick(&lits).clone() };
            format!("co,x,{},{}", hex(t), val_str(&v))
        }
        6..=8 => {
            let op = *rng.pick(&["eq", "eq", "ne", "gt", "lt", "ge", "le", "any", "xx"]);
            format!("cnt,x,{},{}", op, if op == "any" { 0 } else { rng.below(4) as i64 })
        }
        _ => format!("mf,x,{}", rng.pick(&["empty", "nonempty", "first", "last", "collect"])),
    }
}

/// memo stream over fact sets that differ only in the grouping of a nested array (plus flat controls)
fn gen_memo_nested(rng: &mut Rng) -> String {
    let g = nested_group(rng);
    let nn = rng.range(1, 3) as usize;
    let mut toks = Vec::new();
    for _ in 0..nn {
        toks.push(format!("N:{}", gen_nested_node(rng, 1)));
    }
    let mut sets: Vec<Vec<(String, FactValue)>> = Vec::new();
    let with_y = rng.chance(2, 3);
    let with_o = rng.chance(1, 2);
    for v in &g {
        let mut s = Vec::new();
        if with_o {
            s.push(("o".to_string(), FactValue::String("o-1".to_string())));
        }
        s.push(("x".to_string(), v.clone()));
        if with_y {
            // x against a fixed member of the group: equal for exactly one grouping
            for w in g.iter().take(2) {
                let mut s2 = s.clone();
                s2.push(("y".to_string(), w.clone()));
                sets.push(s2);
            }
        } else {
            sets.push(s);
        }
    }
    if rng.chance(1, 3) {
        sets.push(vec![("x".to_string(), FactValue::Integer(2))]);
        sets.push(vec![]);
    }
    for s in &sets {
        toks.push(format!("S:{}", facts_str(s)));
    }
    let steps = rng.range(3, 12);
    let mut node = rng.below(nn as u64);
    for _ in 0..steps {
        if rng.chance(1, 4) {
            node = rng.below(nn as u64);
        }
        if rng.chance(1, 25) {
            toks.push("K".to_string());
        }
        toks.push(format!("E:{}:{}", node, rng.below(sets.len() as u64)));
    }
    format!("M {}", toks.join(" "))
}

fn gen_rule(rng: &mut Rng) -> String {
    let names = ["R1", "R2", "R3"];
    let fields = ["A.x", "A.x", "A.y", "A.y", "B.x", "B.x", "A", "Ax.z", "A.x.q"];
    let na = rng.range(1, 3) - rng.below(2);
    let mut acts = Vec::new();
    for _ in 0..na {
        let f = *rng.pick(&fields);
        acts.push(match rng.below(10) {
            0..=5 => format!("S~{}", f),
            6 => format!("M~{}~{}", rng.pick(&["A", "B"]), rng.pick(&["x", "go"])),
            7 => format!("R~{}", f),
            8 => format!("W~{}", f),
            _ => "L".to_string(),
        });
    }
    format!(
        "{}:{}:{}",
        rng.pick(&names),
        if rng.chance(4, 5) { "e" } else { "d" },
        if acts.is_empty() { "-".to_string() } else { acts.join(";") }
    )
}

fn goals() -> Vec<&'static str> {
    vec![
        "A.x == true", "A.x", "B.x != 1", "A.y >= 2", " A.x ", "A.x contains 'q'", "C.z == 1", "Ax.z == 1", "A == 1",
        "A.y == 1", "B.x == true", "A.x != false", "B.x",
        "A.x.q < 3", "A.y<=A.x", "B.x matches 'p'", "A.go == 1", "A.x > 1 == true",
    ]
}

fn gen_concl(rng: &mut Rng) -> String {
    let len = rng.range(3, 10);
    let gs = goals();
    let mut ops = Vec::new();
    let mut set_fields: Vec<String> = Vec::new();
    for _ in 0..len {
        match rng.below(100) {
            0..=44 => {
                let r = gen_rule(rng);
                for a in r.rsplit(':').next().unwrap_or("").split(';') {
                    if let Some(f) = a.strip_prefix("S~") {
                        set_fields.push(f.to_string());
                    }
                }
                ops.push(format!("+{}", r))
            }
            45..=57 => ops.push(format!("-{}", rng.pick(&["R1", "R2", "R3"]))),
            58..=96 => {
                if !set_fields.is_empty() && rng.chance(3, 5) {
                    let f = rng.pick(&set_fields).clone();
                    let tail = *rng.pick(&[" == true", "", " != 1", ">=2", " contains 'q'"]);
                    ops.push(format!("?{}", hex(&format!("{}{}", f, tail))))
                } else {
                    let g: &str = *rng.pick(&gs[..]);
                    ops.push(format!("?{}", hex(g)))
                }
            }
            _ => ops.push("X".to_string()),
        }
    }
    format!("C {}", ops.join(" "))
}

fn gen_engine(rng: &mut Rng) -> String {
    let mut ops = Vec::new();
    for _ in 0..rng.below(4) {
        ops.push(format!("+{}", gen_rule(rng)));
    }
    ops.push(if rng.chance(1, 2) { "B".to_string() } else { "W".to_string() });
    for _ in 0..rng.range(1, 8) {
        ops.push(match rng.below(100) {
            0..=34 => format!("+{}", gen_rule(rng)),
            35..=46 => format!("-{}", rng.pick(&["R1", "R2", "R3"])),
            47..=59 => format!("e:{}:{}", rng.pick(&["R1", "R2", "R3"]), rng.below(2)),
            60..=91 => "B".to_string(),
            _ => "W".to_string(),
        });
    }
    format!("E {}", ops.join(" "))
}

/// FAMILY "rule attributes the conclusion index must ignore": the histories of `gen_concl` / `gen_engine` with rules that carry
/// dates (outside / inside their window), salience extremes, no_loop, lock_on_active, agenda / activation groups, description
fn gen_rule_attr(rng: &mut Rng) -> String {
    let r = gen_rule(rng);
    if rng.chance(1, 4) {
        r
    } else if rng.chance(1, 2) {
        let pool = attr_pool();
        with_attrs(&r, *rng.pick(&pool[..]))
    } else {
        // a random combination of 1..4 attributes
        let atoms = ["F", "f", "Z", "P", "p", "n", "l", "g", "G", "a", "D", "S2147483647", "S-2147483648", "S0", "S-1", "S10"];
        let k = rng.range(1, 4) as usize;
        let mut picked: Vec<&str> = Vec::new();
        for _ in 0..k {
            let a = *rng.pick(&atoms);
            if !picked.contains(&a) {
                picked.push(a);
            }
        }
        with_attrs(&r, &picked.join("."))
    }
}

fn attr_family(rng: &mut Rng, n: usize, out: &mut Vec<String>) {
    let (gx, gb) = (hex("A.x == true"), hex("B.x"));
    // every attribute list on an enabled / a disabled rule, alone and beside a plain rule, added first / second / re-added
    for a in attr_pool() {
        for en in ["e", "d"] {
            out.push(format!("C +R1:{}!{}:S~A.x ?{} ?{}", en, a, gx, gb));
            out.push(format!("C +R2:e:S~A.x;S~B.x +R1:{}!{}:S~A.x;M~B~x ?{} ?{} -R2 ?{}", en, a, gx, gb, gx));
            out.push(format!("C +R1:e:S~A.x +R1:{}!{}:S~B.x ?{} ?{} -R1 ?{}", en, a, gx, gb, gb));
            out.push(format!("E +R1:{}!{}:S~A.x W +R2:e!{}:S~B.x B e:R1:0 B e:R1:1 B -R2 W", en, a, a));
            out.push(format!("E B +R1:{}!{}:S~A.x;S~A.y B -R1 B", en, a));
        }
    }
    // random histories
    let gs = goals();
    for k in 0..n {
        if k % 3 == 2 {
            let mut ops = Vec::new();
            for _ in 0..rng.below(4) {
                ops.push(format!("+{}", gen_rule_attr(rng)));
            }
            ops.push(if rng.chance(1, 2) { "B".to_string() } else { "W".to_string() });
            for _ in 0..rng.range(1, 8) {
                ops.push(match rng.below(100) {
                    0..=39 => format!("+{}", gen_rule_attr(rng)),
                    40..=49 => format!("-{}", rng.pick(&["R1", "R2", "R3"])),
                    50..=61 => format!("e:{}:{}", rng.pick(&["R1", "R2", "R3"]), rng.below(2)),
                    62..=91 => "B".to_string(),
                    _ => "W".to_string(),
                });
            }
            out.push(format!("E {}", ops.join(" ")));
        } else {
            let mut ops = Vec::new();
            let mut set_fields: Vec<String> = Vec::new();
            for _ in 0..rng.range(3, 10) {
                match rng.below(100) {
                    0..=47 => {
                        let r = gen_rule_attr(rng);
                        for a in r.rsplit(':').next().unwrap_or("").split(';') {
                            if let Some(f) = a.strip_prefix("S~") {
                                set_fields.push(f.to_string());
                            }
                        }
                        ops.push(format!("+{}", r))
                    }
                    48..=57 => ops.push(format!("-{}", rng.pick(&["R1", "R2", "R3"]))),
                    58..=97 => {
                        if !set_fields.is_empty() && rng.chance(3, 5) {
                            let f = rng.pick(&set_fields).clone();
                            let tail = *rng.pick(&[" == true", "", " != 1", ">=2", " contains 'q'"]);
                            ops.push(format!("?{}", hex(&format!("{}{}", f, tail))))
                        } else {
                            let g: &str = *rng.pick(&gs[..]);
                            ops.push(format!("?{}", hex(g)))
                        }
                    }
                    _ => ops.push("X".to_string()),
                }
            }
            out.push(format!("C {}", ops.join(" ")));
        }
    }
}

/// systematic part of the nested-array family: for a few node shapes, every ordered pair (first, second) of
/// groupings of the same leaves, evaluated first / second / first on one evaluator
fn nested_systematic() -> Vec<String> {
    use FactValue::*;
    let a = |v: Vec<FactValue>| Array(v);
    let i = |x: i64| Integer(x);
    let groups: Vec<Vec<FactValue>> = vec![
        vec![a(vec![a(vec![i(1)]), i(2)]), a(vec![a(vec![i(1), i(2)])]), a(vec![a(vec![i(1)]), a(vec![i(2)])])],
        vec![a(vec![a(vec![]), a(vec![])]), a(vec![a(vec![a(vec![])])])],
        vec![a(vec![a(vec![]), i(2)]), a(vec![a(vec![i(2)])])],
        vec![a(vec![i(1), a(vec![i(2), i(5)])]), a(vec![i(1), a(vec![i(2)]), i(5)])],
    ];
    let ystr = val_str(&String("y".into()));
    let nodes: Vec<std::string::String> = vec![
        "cnt,x,eq,2".into(),
        "cnt,x,ge,2".into(),
        "not,cnt,x,eq,1".into(),
        format!("co,x,{},{}", hex("2"), val_str(&i(2))),
        format!("co,x,{},{}", hex("[]"), val_str(&a(vec![]))),
        format!("al,x,eq,{},{}", hex("y"), ystr),
        format!("co,x,{},{}", hex("y"), ystr),
    ];
    let mut out = Vec::new();
    for g in &groups {
        for (p, v) in g.iter().enumerate() {
            for (q, w) in g.iter().enumerate() {
                if p == q {
                    continue;
                }
                for nd in &nodes {
                    let y = match &g[0] {
                        Array(xs) if nd.contains(&hex("y")) && nd.starts_with("co") => xs[0].clone(),
                        other => other.clone(),
                    };
                    out.push(format!(
                        "M N:{} S:{} S:{} E:0:0 E:0:1 E:0:0",
                        nd,
                        facts_str(&[("x".to_string(), v.clone()), ("y".to_string(), y.clone())]),
                        facts_str(&[("x".to_string(), w.clone()), ("y".to_string(), y)])
                    ));
                }
            }
        }
    }
    out
}

/// every sequence of length 0..=k over `alphabet`
fn all_seqs(alphabet: &[String], k: usize) -> Vec<Vec<String>> {
    let mut all: Vec<Vec<String>> = vec![vec![]];
    let mut frontier: Vec<Vec<String>> = vec![vec![]];
    for _ in 0..k {
        let mut next = Vec::new();
        for s in &frontier {
            for a in alphabet {
                let mut s2 = s.clone();
                s2.push(a.clone());
                next.push(s2);
            }
        }
        all.extend(next.iter().cloned());
        frontier = next;
    }
    all
}

fn gen(rng: &mut Rng, n: usize, tier: &str) -> Vec<String> {
    let pool = pool();
    let mut out = Vec::new();
    // systematic part: every ordered pair of pool values, stored value vs. queried value, under every index layout
    let stride = if tier == "thorough" { 1 } else { 1 };
    for (i, a) in pool.iter().enumerate() {
        for (j, b) in pool.iter().enumerate() {
            if (i + j) % stride != 0 {
                continue;
            }
            let (sa, sb) = (val_str(a), val_str(b));
            out.push(format!("A C:x I:x={} F:x:{}", sa, sb));
            out.push(format!("A I:x={} C:x F:x:{} T1:x:{}", sa, sb, sb));
            if tier == "thorough" || (i * 7 + j) % 3 == 0 {
                out.push(format!("A I:x={} F:x:{} C:x D:x C:x I:x={} F:x:{}", sa, sb, sb, sa));
                out.push(format!("B k A:0:k={} A:1:k={} L:v:{} R:0:k={} L:v:{} L:v:{}", sa, sb, sb, sb, sa, sb));
                out.push(format!(
                    "M N:al,x,eq,{},{} S:x={} S:x={} E:0:0 E:0:1 E:0:0",
                    hex("5"), val_str(&FactValue::Integer(5)), sa, sb
                ));
                out.push(format!("K A:x={} C:x={} A:x={} R:x={} C:x={} R:x={} C:x={} R:x={}", sa, sb, sa, sb, sa, sa, sa, sa));
            }
        }
    }
    // exhaustive short histories over small alphabets, each followed by the same probes
    let (ka, kb, kc) = if tier == "thorough" { (5usize, 4usize, 4usize) } else { (4, 3, 3) };
    let (pz, nz, nan) = (val_str(&FactValue::Float(0.0)), val_str(&FactValue::Float(-0.0)), val_str(&FactValue::Float(f64::NAN)));
    let alpha_ops = vec![
        format!("I:x={}", pz), format!("I:x={}", nz), format!("I:x={}", nan), "C:x".to_string(), "D:x".to_string(),
        format!("I:x=i5/y={}", pz), "C:y".to_string(),
    ];
    let alpha_probe = format!("F:x:{} F:x:{} F:y:{} T1:x:{} F:x:i5", nz, nan, nz, pz);
    for seq in all_seqs(&alpha_ops, ka) {
        out.push(format!("A {} {}", seq.join(" "), alpha_probe).replace("  ", " "));
    }
    let beta_ops: Vec<String> =
        ["A:0:k=i5", "A:1:k=i5", "A:0:k=s35", "R:0:k=i5", "R:1:k=i5", "R:0:k=s35"].iter().map(|s| s.to_string()).collect();
    for seq in all_seqs(&beta_ops, kb) {
        out.push(format!("B k {} L:v:i5 L:v:s35", seq.join(" ")).replace("  ", " "));
    }
    let concl_ops: Vec<String> =
        ["+R1:e:S~A.x", "+R1:e:S~B.x", "+R1:d:S~A.x", "+R2:e:S~A.x;S~B.x", "-R1", "-R2"].iter().map(|s| s.to_string()).collect();
    for seq in all_seqs(&concl_ops, kc) {
        out.push(format!("C {} ?{} ?{}", seq.join(" "), hex("A.x == true"), hex("B.x")).replace("  ", " "));
    }
    let eng_ops: Vec<String> = ["+R1:e:S~A.x", "+R2:e:S~A.x;S~B.x", "-R1", "e:R2:0", "e:R2:1", "B"].iter().map(|s| s.to_string()).collect();
    for seq in all_seqs(&eng_ops, kc) {
        out.push(format!("E +R3:e:S~A.y W {} B", seq.join(" ")).replace("  ", " "));
    }
    // two indexes at once
    for (i, a) in pool.iter().enumerate() {
        let b = &pool[(i * 5 + 3) % pool.len()];
        let (sa, sb) = (val_str(a), val_str(b));
        out.push(format!("A C:x C:y I:x={}/y={} I:x={}/y={} F:x:{} F:y:{} F:x:{} F:y:{}", sa, sb, sb, sa, sa, sb, sb, sa));
    }
    // the key text itself: exotic strings, confusers, random values nested 0..3 deep; compact memory histories
    out.extend(gen_values(rng, n / 6));
    for _ in 0..n / 10 {
        out.push(gen_compact(rng, &pool));
    }
    // node sharing registry: every history of length <= 3 over two look-alike patterns x two rules, then random ones
    {
        let (p, q) = (pat_tok(&("x", "==", "5")), pat_tok(&("x=", "=", "5")));
        let alphabet: Vec<String> = vec![
            format!("G:0:{}", p), format!("G:1:{}", p), format!("G:0:{}", q), "U:0".to_string(), "U:1".to_string(),
        ];
        for seq in all_seqs(&alphabet, 3) {
            out.push(format!("N {} Q:{} Q:{}", seq.join(" "), p, q).replace("  ", " "));
        }
        for _ in 0..n / 15 {
            out.push(gen_registry(rng));
        }
    }
    // random part
    for k in 0..n {
        out.push(match k % 10 {
            0..=2 => gen_alpha(rng, &pool),
            3..=4 => gen_beta(rng, &pool),
            5..=6 => if rng.chance(1, 3) { gen_memo_nested(rng) } else { gen_memo(rng, &pool) },
            7..=8 => gen_concl(rng),
            _ => gen_engine(rng),
        });
    }
    // hot join keys (buckets of 33..80 entries, out-of-order removals, re-adds)
    for _ in 0..(n / 50).max(20) {
        out.push(gen_beta_hot(rng, &pool));
    }
    // every ordered pair of every fixed nested-array group under count / contains / == other field
    out.extend(nested_systematic());
    // rule attributes the conclusion index must ignore (after everything else: the cases above do not depend on it)
    attr_family(rng, n / 5, &mut out);
    out
}

fn shrink(case: &str) -> Vec<String> {
    let t: Vec<String> = case.split_whitespace().map(|s| s.to_string()).collect();
    if t.len() < 2 {
        return vec![];
    }
    let (head, ops): (Vec<String>, Vec<String>) = if t[0] == "B" && t.len() >= 2 {
        (t[..2].to_vec(), t[2..].to_vec())
    } else {
        (t[..1].to_vec(), t[1..].to_vec())
    };
    let mut out = Vec::new();
    for cand in shrink_list(&ops) {
        if t[0] == "M" {
            // keep declarations consistent: only drop E / K steps
            let decl = ops.iter().filter(|o| o.starts_with("N:") || o.starts_with("S:")).count();
            let kept = cand.iter().filter(|o| o.starts_with("N:") || o.starts_with("S:")).count();
            if decl != kept {
                continue;
            }
        }
        let mut c = head.clone();
        c.extend(cand);
        out.push(c.join(" "));
    }
    if t[0] == "C" || t[0] == "E" {
        // rule attributes: dropped altogether, then one at a time
        for (i, o) in ops.iter().enumerate() {
            let Some(rule) = o.strip_prefix('+') else { continue };
            let parts: Vec<&str> = rule.splitn(3, ':').collect();
            if parts.len() != 3 {
                continue;
            }
            let Some((flag, attrs)) = parts[1].split_once('!') else { continue };
            let al: Vec<&str> = attrs.split('.').collect();
            let mut variants = vec![String::new()];
            if al.len() > 1 {
                for k in 0..al.len() {
                    let mut v = al.clone();
                    v.remove(k);
                    variants.push(v.join("."));
                }
            }
            for v in variants {
                let mut o2 = ops.clone();
                o2[i] = if v.is_empty() { format!("+{}:{}:{}", parts[0], flag, parts[2]) } else { format!("+{}:{}!{}:{}", parts[0], flag, v, parts[2]) };
                let mut c = head.clone();
                c.extend(o2);
                out.push(c.join(" "));
            }
        }
    }
    out
}

fn main() {
    main_with(Prop { gen, exec, shrink });
}
