//! C12 — windows hold exactly the events of their span; aggregates follow.
//! Four components, one case kind each (first token):
//!   TW <S|T|N> <d> <start> <cap> <op,..>      TimeWindow::new + add_event (`a`) / record (`r`)
//!                                             an op `c` = clear() (the window is REUSED afterwards; event ids count the events offered,
//!                                             clears do not count); the same token in AN op lists = StreamAlphaNode::clear()
//!   WM <S|T|N> <d> <cap> <maxw> <ev,..>       WindowManager::process_event
//!   WS T <d> <cap> <ev,..>                    WindowedStream::new (tumbling)
//!   WS <S|N> <d> <cap> <ev,..>                WindowedStream::new (sliding / session config; N: timeout = duration = d)
//!   AN <-|S|T> <d> <cap> <now@ev[x][y],..>    StreamAlphaNode::process_event under the injected clock
//!   AN E <timeout> <cap> <now@ev[x][y],..>    the same with a session window (its unused `duration` is 3*timeout+7)
//!   AG <ev,..>                                the other aggregates of Aggregator::aggregate over one window holding all the events:
//!                                             obs := first/last/count_distinct/key=count,..(by key, `_` = empty)/p0,p25,p50,p75,p100/std(+|-)
//!   XV <r|a> <ev,..>                         min / max / sum of ONE window (filled by `record` / `add_event`) whose numeric fields range over
//!                                             all of f64: val additionally p (+inf) | q (-inf) | z (NaN) | M (f64::MAX) | L (f64::MIN);
//!                                             obs := T:min,max,sum/A:min,max/O:min,max  (TimeWindow / Aggregator / operators::{Min,Max});
//!                                             results print as `-` (None), an integer, p, q, z (any NaN), M, L; `n` = not observed
//!                                             (operators::Min/Max when a NaN is present: they compare with `partial_cmp().unwrap()`); the sum
//!                                             is always observed: the model adds in the order of the deque
//!   KW <T|S|N> <d> <cap> <key,..> <ev,..>     the stream operators of operators.rs on the events (event i has key `key[i]`, read by the key
//!                                             selector `get_string("k").unwrap_or("0")`: key n>0 = Value::String(n), 0 = no field, 9 = Value::Integer(9)
//!                                             — not a string, reads as key 0). The aggregator handed to every `aggregate` is a CustomAggregator
//!                                             that reports the ids it was given and the answers of the real Count/Sum/Average/Min/Max on them
//!                                             (win := ids~count,sum,avg,min,max); the reducer appends ids (red := id.id.id, `-` = None).
//!                                             obs := KA!KR!WA!WR!WF!KS!KK!KF!GS!DS   (or `panic`)
//!                                               KA key_by.window.aggregate  k=win+win;..     KR key_by.window.reduce  k=red+red;..
//!                                               WA window.aggregate  win+win                  WR window.reduce  red+red      WF window.flatten ids
//!                                               KS key_by: k=count:aggregate:reduce;..        KK key_by.keys()               KF key_by.flatten ids
//!                                               GS group_by: k=count:aggregate:first:last;..  DS stream: count:len:aggregate:reduce
//!                                             entries by ascending key; tumbling windows (HashMap order) sorted as strings, flatten ids sorted
//!   ST <k,..> <ev,..>                         StdDev (f64 bits or `-`) and the percentiles k/10 (any integer k: negative, above 1000) of one window
//!   MS <S|T|N> <d> <cap> <maxw> <k> <ev,..>   WindowManager after the events: active windows ! total_event_count / latest_window start /
//!                                             get_statistics (windows,events,oldest,newest,mean bits) / StreamAnalytics::moving_average(.., k) bits /
//!                                             aggregate_across_windows(|w| w.sum(v)), aggregate_across_windows(|w| w.count() as f64)
//!   AS <-|S|T> <d> <cap> <now@ev[x][y],..>    StreamAlphaNode after the ops (as AN): ids/event_count/window_stats oldest,newest,duration_ms/event_count after clear
//!   TS <S|T|N> <d> <start> <cap> <a> <b> <op,..>  TimeWindow after the ops: ids/latest_timestamp/events_in_range(a,b)/duration_ms/count after clear
//!   SA <t2> <idx,..> <ev,..>                  StreamAnalytics over hand-built windows (event i sits in window idx[i]; windows 0..max idx in order):
//!                                             detect_anomalies(windows, v, t2 / 2.0) ids / calculate_trend(windows, v) as I | D | S
//!   EV <val,..>                               get_numeric:get_string:get_boolean of a field holding val := n<int> | i<int> | t<int> | b0 | b1 | u (Null) |
//!                                             m (missing) | p | q | z | M | L
//! <d> := <ms> (Duration::from_millis) | u<micros> (Duration::from_micros: durations that are not whole milliseconds)
//! ev := <ts>:<val>   val := n<int> (Value::Number) | i<int> (Value::Integer) | s (String "7") | t<int> (String of the integer) | m (missing)
//! event id = position in the case's list.  x = foreign stream name, y = foreign event type.
//! obs (`;` between steps, `+` between windows, `/` between fields, `-` = empty / None, `_` = no window):
//!   TW step  := ret/start/stop/ids/T~A~E~O     T,A,O := count,sum,avg,min,max   E := count,sum,avg
//!   WM step  := window+window…                 window := start/stop/ids/T
//!   WS T     := window+window…;sorted counts() (windows sorted by start: they come out of a HashMap)
//!   WS S|N   := window+window…;counts()        (both in the order the code returns them), or `hang`:
//!               the constructor runs in a child process of this binary and is killed after WS_DEADLINE_MS
//!   AN step  := ret/ids
//! sum/min/max are printed as integers (all generated numeric fields are integer valued, so the
//! f64 results are exact), avg as the f64 bit pattern; a non-integral value prints as f<bits>.
use rre_harness::*;
use rust_rule_engine::rete::stream_alpha_node::{verif_clock, StreamAlphaNode, WindowSpec};
use rust_rule_engine::streaming::aggregator::{AggregationResult, AggregationType, Aggregator, StreamAnalytics, TrendDirection};
use rust_rule_engine::streaming::event::StreamEvent;
use rust_rule_engine::streaming::operators::{
    AggregateResult, Aggregation, Average, Count, CustomAggregator, DataStream, Max, Min, Sum, WindowConfig, WindowedStream,
};
use rust_rule_engine::streaming::window::{TimeWindow, WindowManager, WindowType};
use rust_rule_engine::types::Value;
use std::collections::HashMap;
use std::time::Duration;

const FIELD: &str = "v";
const STREAM: &str = "s";
const ETYPE: &str = "T";

#[derive(Clone, Debug)]
struct Ev {
    ts: u64,
    val: String, // n<int> | i<int> | s | m
    foreign_stream: bool,
    foreign_type: bool,
}

fn parse_ev(tok: &str) -> Option<Ev> {
    let mut t = tok;
    let (mut fx, mut fy) = (false, false);
    loop {
        if let Some(r) = t.strip_suffix('x') {
            fx = true;
            t = r;
        } else if let Some(r) = t.strip_suffix('y') {
            fy = true;
            t = r;
        } else {
            break;
        }
    }
    let (ts, val) = t.split_once(':')?;
    let ts: u64 = ts.parse().ok()?;
    match val.as_bytes().first()? {
        b'n' | b'i' => {
            val[1..].parse::<i64>().ok()?;
        }
        b't' => {
            val[1..].parse::<i64>().ok()?;
        }
        b's' | b'm' | b'p' | b'q' | b'z' | b'M' | b'L' if val.len() == 1 => {}
        _ => return None,
    }
    Some(Ev { ts, val: val.to_string(), foreign_stream: fx, foreign_type: fy })
}

fn mk_event(id: usize, e: &Ev) -> StreamEvent {
    let mut data = HashMap::new();
    match e.val.as_bytes()[0] {
        b'n' => {
            data.insert(FIELD.to_string(), Value::Number(e.val[1..].parse::<i64>().unwrap() as f64));
        }
        b'i' => {
            data.insert(FIELD.to_string(), Value::Integer(e.val[1..].parse::<i64>().unwrap()));
        }
        b's' => {
            data.insert(FIELD.to_string(), Value::String("7".to_string()));
        }
        b'p' => {
            data.insert(FIELD.to_string(), Value::Number(f64::INFINITY));
        }
        b'q' => {
            data.insert(FIELD.to_string(), Value::Number(f64::NEG_INFINITY));
        }
        b'z' => {
            data.insert(FIELD.to_string(), Value::Number(f64::NAN));
        }
        b'M' => {
            data.insert(FIELD.to_string(), Value::Number(f64::MAX));
        }
        b'L' => {
            data.insert(FIELD.to_string(), Value::Number(f64::MIN));
        }
        b't' => {
            data.insert(FIELD.to_string(), Value::String(e.val[1..].parse::<i64>().unwrap().to_string()));
        }
        _ => {
            data.insert("other".to_string(), Value::Number(3.0));
        }
    }
    let mut ev = StreamEvent::with_timestamp(
        if e.foreign_type { "U" } else { ETYPE },
        data,
        if e.foreign_stream { "other" } else { STREAM },
        e.ts,
    );
    ev.id = id.to_string();
    ev
}

fn wtype(s: &str) -> Option<WindowType> {
    match s {
        "S" => Some(WindowType::Sliding),
        "T" => Some(WindowType::Tumbling),
        "N" => Some(WindowType::Session { timeout: Duration::from_millis(5) }),
        _ => None,
    }
}

/// `<ms>` or `u<micros>`
fn parse_dur(s: &str) -> Option<Duration> {
    match s.strip_prefix('u') {
        Some(us) => us.parse::<u64>().ok().map(Duration::from_micros),
        None => s.parse::<u64>().ok().map(Duration::from_millis),
    }
}

fn list<'a>(s: &'a str) -> Vec<&'a str> {
    if s == "-" {
        vec![]
    } else {
        s.split(',').collect()
    }
}

// ---------------------------------------------------------------- rendering
fn num(x: f64) -> String {
    if x.fract() == 0.0 && x.abs() < 9.0e15 {
        format!("{}", x as i64)
    } else {
        format!("f{}", x.to_bits())
    }
}
fn onum(x: Option<f64>) -> String {
    x.map(num).unwrap_or_else(|| "-".into())
}
fn obits(x: Option<f64>) -> String {
    x.map(|v| v.to_bits().to_string()).unwrap_or_else(|| "-".into())
}
fn ids<'a>(evs: impl Iterator<Item = &'a StreamEvent>) -> String {
    join_nums(&evs.map(|e| e.id.clone()).collect::<Vec<_>>())
}

/// family T: the TimeWindow methods
fn agg_t(w: &TimeWindow) -> String {
    format!(
        "{},{},{},{},{}",
        w.count(),
        num(w.sum(FIELD)),
        obits(w.average(FIELD)),
        onum(w.min(FIELD)),
        onum(w.max(FIELD))
    )
}
fn ar(r: AggregationResult) -> Option<f64> {
    match r {
        AggregationResult::Number(n) => Some(n),
        AggregationResult::None => None,
        _ => Some(f64::NAN),
    }
}
/// family A: streaming::aggregator::Aggregator::aggregate(&TimeWindow)
fn agg_a(w: &TimeWindow) -> String {
    let f = || FIELD.to_string();
    format!(
        "{},{},{},{},{}",
        onum(ar(Aggregator::new(AggregationType::Count).aggregate(w))),
        onum(ar(Aggregator::new(AggregationType::Sum { field: f() }).aggregate(w))),
        obits(ar(Aggregator::new(AggregationType::Average { field: f() }).aggregate(w))),
        onum(ar(Aggregator::new(AggregationType::Min { field: f() }).aggregate(w))),
        onum(ar(Aggregator::new(AggregationType::Max { field: f() }).aggregate(w)))
    )
}
/// family E: Aggregator::aggregate_events(&[StreamEvent])
fn agg_e(evs: &[StreamEvent]) -> String {
    let f = || FIELD.to_string();
    format!(
        "{},{},{}",
        onum(ar(Aggregator::new(AggregationType::Count).aggregate_events(evs))),
        onum(ar(Aggregator::new(AggregationType::Sum { field: f() }).aggregate_events(evs))),
        obits(ar(Aggregator::new(AggregationType::Average { field: f() }).aggregate_events(evs)))
    )
}
fn or(r: AggregateResult) -> Option<f64> {
    match r {
        AggregateResult::Number(n) => Some(n),
        AggregateResult::None => None,
        _ => Some(f64::NAN),
    }
}
/// family O: streaming::operators::{Count,Sum,Average,Min,Max} (trait Aggregation)
fn agg_o(evs: &[StreamEvent]) -> String {
    format!(
        "{},{},{},{},{}",
        onum(or(Count.aggregate(evs))),
        onum(or(Sum::new(FIELD).aggregate(evs))),
        obits(or(Average::new(FIELD).aggregate(evs))),
        onum(or(Min::new(FIELD).aggregate(evs))),
        onum(or(Max::new(FIELD).aggregate(evs)))
    )
}

fn window_obs(w: &TimeWindow) -> String {
    format!("{}/{}/{}/{}", w.start_time, w.end_time, ids(w.events().iter()), agg_t(w))
}

// ---------------------------------------------------------------- exec
fn exec_tw(t: &[&str]) -> Option<String> {
    let (ty, d, start, cap) = (wtype(t[1])?, parse_dur(t[2])?, t[3].parse::<u64>().ok()?, t[4].parse::<usize>().ok()?);
    let mut w = TimeWindow::new(ty, d, start, cap);
    let mut steps = Vec::new();
    let mut i = 0usize;
    for op in list(t[5]).iter() {
        let ret = if *op == "c" {
            w.clear();
            true
        } else {
            let e = parse_ev(&op[1..])?;
            let ev = mk_event(i, &e);
            i += 1;
            match op.as_bytes()[0] {
                b'a' => w.add_event(ev),
                b'r' => {
                    w.record(ev);
                    true
                }
                _ => return None,
            }
        };
        let evs: Vec<StreamEvent> = w.events().iter().cloned().collect();
        steps.push(format!(
            "{}/{}/{}/{}/{}~{}~{}~{}",
            ret as u8,
            w.start_time,
            w.end_time,
            ids(w.events().iter()),
            agg_t(&w),
            agg_a(&w),
            agg_e(&evs),
            agg_o(&evs)
        ));
    }
    Some(if steps.is_empty() { "-".into() } else { steps.join(";") })
}

fn windows_obs(ws: &[&TimeWindow]) -> String {
    if ws.is_empty() {
        "_".into()
    } else {
        ws.iter().map(|w| window_obs(w)).collect::<Vec<_>>().join("+")
    }
}

fn exec_wm(t: &[&str]) -> Option<String> {
    let (ty, d, cap, maxw) = (wtype(t[1])?, parse_dur(t[2])?, t[3].parse::<usize>().ok()?, t[4].parse::<usize>().ok()?);
    let mut m = WindowManager::new(ty, d, cap, maxw);
    let mut steps = Vec::new();
    for (i, tok) in list(t[5]).iter().enumerate() {
        let e = parse_ev(tok)?;
        m.process_event(mk_event(i, &e));
        steps.push(windows_obs(&m.active_windows().iter().collect::<Vec<_>>()));
    }
    Some(if steps.is_empty() { "-".into() } else { steps.join(";") })
}

fn exec_ws(t: &[&str]) -> Option<String> {
    if t[1] != "T" {
        return exec_ws_sliding(t);
    }
    let (d, cap) = (parse_dur(t[2])?, t[3].parse::<usize>().ok()?);
    let evs: Vec<StreamEvent> = list(t[4])
        .iter()
        .enumerate()
        .map(|(i, tok)| parse_ev(tok).map(|e| mk_event(i, &e)))
        .collect::<Option<Vec<_>>>()?;
    let cfg = WindowConfig::tumbling(d).with_max_events(cap);
    let s = WindowedStream::new(evs.clone(), cfg.clone());
    let mut ws: Vec<&TimeWindow> = s.windows().iter().collect();
    ws.sort_by_key(|w| w.start_time); // HashMap iteration order is not an observable
    let first = windows_obs(&ws);
    let mut counts = WindowedStream::new(evs, cfg).counts();
    counts.sort();
    Some(format!("{};{}", first, join_nums(&counts)))
}

/// deadline for one sliding/session `WindowedStream::new` (the grid has at most a few dozen windows)
const WS_DEADLINE_MS: u64 = 800;
/// once this many cases of one run have hung, the tree is broken anyway: the remaining ones get a short deadline
const WS_HANGS_BEFORE_SHORT: usize = 6;
const WS_SHORT_DEADLINE_MS: u64 = 120;
static WS_HANGS: std::sync::atomic::AtomicUsize = std::sync::atomic::AtomicUsize::new(0);
const INPROC: &str = "RRE_C12_INPROC";

/// sliding / session `WindowedStream::new`, in-process
fn ws_sliding_inproc(t: &[&str]) -> Option<String> {
    let (d, cap) = (parse_dur(t[2])?, t[3].parse::<usize>().ok()?);
    let evs: Vec<StreamEvent> = list(t[4])
        .iter()
        .enumerate()
        .map(|(i, tok)| parse_ev(tok).map(|e| mk_event(i, &e)))
        .collect::<Option<Vec<_>>>()?;
    let cfg = match t[1] {
        "S" => WindowConfig::sliding(d),
        "N" => WindowConfig::session(d),
        _ => return None,
    }
    .with_max_events(cap);
    let s = WindowedStream::new(evs.clone(), cfg.clone());
    let first = windows_obs(&s.windows().iter().collect::<Vec<_>>());
    let counts = WindowedStream::new(evs, cfg).counts();
    Some(format!("{};{}", first, join_nums(&counts)))
}

/// The constructor may not return (before fix-C12c it did not for durations <= 1 ms, allocating all the while),
/// and a thread cannot be stopped: the call runs in a child process of this same binary (`exec` mode, one case,
/// `RRE_C12_INPROC` set) that is killed at the deadline. Observation `hang` = no answer within the deadline.
fn exec_ws_sliding(t: &[&str]) -> Option<String> {
    use std::io::{Read, Write};
    use std::process::{Command, Stdio};
    if std::env::var_os(INPROC).is_some() {
        return ws_sliding_inproc(t);
    }
    let exe = std::env::current_exe().ok()?;
    let mut child = Command::new(exe)
        .arg("exec")
        .env(INPROC, "1")
        .stdin(Stdio::piped())
        .stdout(Stdio::piped())
        .stderr(Stdio::null())
        .spawn()
        .ok()?;
    {
        let mut stdin = child.stdin.take()?;
        let _ = writeln!(stdin, "{}", t.join(" "));
    }
    let start = std::time::Instant::now();
    let deadline = if WS_HANGS.load(std::sync::atomic::Ordering::Relaxed) >= WS_HANGS_BEFORE_SHORT {
        WS_SHORT_DEADLINE_MS
    } else {
        WS_DEADLINE_MS
    };
    loop {
        match child.try_wait() {
            Ok(Some(_)) => break,
            Ok(None) => {
                if start.elapsed() > Duration::from_millis(deadline) {
                    let _ = child.kill();
                    let _ = child.wait();
                    WS_HANGS.fetch_add(1, std::sync::atomic::Ordering::Relaxed);
                    return Some("hang".into());
                }
                std::thread::sleep(Duration::from_micros(200));
            }
            Err(_) => return None,
        }
    }
    let mut out = String::new();
    child.stdout.take()?.read_to_string(&mut out).ok()?;
    let line = out.lines().next()?.trim().to_string();
    if line.is_empty() {
        None
    } else {
        Some(line)
    }
}

fn exec_an(t: &[&str]) -> Option<String> {
    let (d, cap) = (parse_dur(t[2])?, t[3].parse::<usize>().ok()?);
    let spec = match t[1] {
        "-" => None,
        // session: `d` is the timeout; the node does not read `duration` in this mode, so it is set to something else
        "E" => Some(WindowSpec {
            duration: d.saturating_mul(3).saturating_add(Duration::from_millis(7)),
            window_type: WindowType::Session { timeout: d },
        }),
        s => Some(WindowSpec { duration: d, window_type: wtype(s)? }),
    };
    let mut node = StreamAlphaNode::new(STREAM, Some(ETYPE.to_string()), spec).with_max_events(cap);
    let mut steps = Vec::new();
    let mut i = 0usize;
    for tok in list(t[4]).iter() {
        if *tok == "c" {
            node.clear();
            steps.push(format!("1/{}", ids(node.get_events().iter())));
            continue;
        }
        let (now, ev) = tok.split_once('@')?;
        let now: u64 = now.parse().ok()?;
        let e = parse_ev(ev)?;
        verif_clock::set(Some(now));
        let ret = node.process_event(&mk_event(i, &e));
        i += 1;
        steps.push(format!("{}/{}", ret as u8, ids(node.get_events().iter())));
    }
    verif_clock::set(None);
    Some(if steps.is_empty() { "-".into() } else { steps.join(";") })
}

/// First, Last, CountDistinct, CountBy, Percentile 0/25/50/75/100, StdDev (defined or not) of one window
fn exec_ag(t: &[&str]) -> Option<String> {
    let mut w = TimeWindow::new(WindowType::Sliding, Duration::from_millis(1_000_000), 0, 100_000);
    for (i, tok) in list(t[1]).iter().enumerate() {
        let e = parse_ev(tok)?;
        if !w.add_event(mk_event(i, &e)) {
            return None;
        }
    }
    let f = || FIELD.to_string();
    let text = |r: AggregationResult| match r {
        AggregationResult::Text(s) => s,
        AggregationResult::None => "-".to_string(),
        _ => "?".to_string(),
    };
    let first = text(Aggregator::new(AggregationType::First).aggregate(&w));
    let last = text(Aggregator::new(AggregationType::Last).aggregate(&w));
    let distinct = onum(ar(Aggregator::new(AggregationType::CountDistinct { field: f() }).aggregate(&w)));
    let by = match Aggregator::new(AggregationType::CountBy { field: f() }).aggregate(&w) {
        AggregationResult::CountMap(m) => {
            let mut v: Vec<(i64, String, usize)> =
                m.into_iter().map(|(k, c)| (k.parse::<i64>().unwrap_or(i64::MIN), k, c)).collect();
            v.sort();
            if v.is_empty() {
                "_".to_string()
            } else {
                v.iter()
                    .map(|(n, k, c)| if *n == i64::MIN { format!("x{}={}", hex(k), c) } else { format!("{}={}", n, c) })
                    .collect::<Vec<_>>()
                    .join(",")
            }
        }
        _ => "?".to_string(),
    };
    let pcts: Vec<String> = [0.0, 25.0, 50.0, 75.0, 100.0]
        .iter()
        .map(|p| onum(ar(Aggregator::new(AggregationType::Percentile { field: f(), percentile: *p }).aggregate(&w))))
        .collect();
    let std = match Aggregator::new(AggregationType::StdDev { field: f() }).aggregate(&w) {
        AggregationResult::Number(_) => "+",
        AggregationResult::None => "-",
        _ => "?",
    };
    Some(format!("{}/{}/{}/{}/{}/{}", first, last, distinct, by, pcts.join(","), std))
}

/// a result over all of f64, canonical: integer, p / q (infinities), z (any NaN), M / L (±f64::MAX), else the bit pattern
fn xnum(x: f64) -> String {
    if x.is_nan() {
        "z".into()
    } else if x == f64::INFINITY {
        "p".into()
    } else if x == f64::NEG_INFINITY {
        "q".into()
    } else if x == f64::MAX {
        "M".into()
    } else if x == f64::MIN {
        "L".into()
    } else {
        num(x)
    }
}
fn oxnum(x: Option<f64>) -> String {
    x.map(xnum).unwrap_or_else(|| "-".into())
}

/// min / max / sum of one window whose numeric fields range over all of f64 (infinities, NaN, ±f64::MAX)
fn exec_xv(t: &[&str]) -> Option<String> {
    let mut w = TimeWindow::new(WindowType::Sliding, Duration::from_millis(1_000_000), 0, 100_000);
    let evs: Vec<Ev> = list(t[2]).iter().map(|tok| parse_ev(tok)).collect::<Option<Vec<_>>>()?;
    for (i, e) in evs.iter().enumerate() {
        match t[1] {
            "r" => w.record(mk_event(i, e)),
            "a" => {
                if !w.add_event(mk_event(i, e)) {
                    return None;
                }
            }
            _ => return None,
        }
    }
    if w.count() != evs.len() {
        return None; // the case is about one window holding all the events
    }
    let has = |c: &str| evs.iter().any(|e| c.contains(e.val.as_str()));
    let f = || FIELD.to_string();
    let sum = xnum(w.sum(FIELD)); // observed always: the model folds in the order of the deque (`xSumFold`)
    let all: Vec<StreamEvent> = w.events().iter().cloned().collect();
    let o = if has("z") {
        "n,n".to_string()
    } else {
        format!("{},{}", oxnum(or(Min::new(FIELD).aggregate(&all))), oxnum(or(Max::new(FIELD).aggregate(&all))))
    };
    Some(format!(
        "{},{},{}/{},{}/{}",
        oxnum(w.min(FIELD)),
        oxnum(w.max(FIELD)),
        sum,
        oxnum(ar(Aggregator::new(AggregationType::Min { field: f() }).aggregate(&w))),
        oxnum(ar(Aggregator::new(AggregationType::Max { field: f() }).aggregate(&w))),
        o
    ))
}

// ---------------------------------------------------------------- stream operators (KW), StdDev / percentiles (ST), statistics (MS, TS), fields (EV)
fn win_str(evs: &[StreamEvent]) -> String {
    format!("{}~{}", ids(evs.iter()), agg_o(evs))
}
fn reducer(mut acc: StreamEvent, e: StreamEvent) -> StreamEvent {
    acc.id = format!("{}.{}", acc.id, e.id);
    acc
}
fn key_sel(e: &StreamEvent) -> String {
    e.get_string("k").unwrap_or("0").to_string()
}
fn custom() -> CustomAggregator<impl Fn(&[StreamEvent]) -> AggregateResult + Send + Sync> {
    CustomAggregator::new(|evs: &[StreamEvent]| AggregateResult::String(win_str(evs)))
}
fn res_str(r: &AggregateResult) -> String {
    // through the accessors of AggregateResult: a String result is neither a number nor a map
    match (r.as_string(), r.as_number(), r.as_map()) {
        (Some(s), None, None) => s.to_string(),
        _ => "?".into(),
    }
}
fn joined(mut v: Vec<String>, sort: bool, sep: &str) -> String {
    if sort {
        v.sort();
    }
    if v.is_empty() {
        "_".into()
    } else {
        v.join(sep)
    }
}
fn by_key<V>(m: HashMap<String, V>, f: impl Fn(&V) -> String) -> String {
    let mut v: Vec<(u64, String)> = m.iter().map(|(k, x)| (k.parse::<u64>().unwrap_or(u64::MAX), f(x))).collect();
    v.sort();
    joined(v.into_iter().map(|(k, s)| format!("{}={}", k, s)).collect(), false, ";")
}

fn exec_kw(t: &[&str]) -> Option<String> {
    let (d, cap) = (parse_dur(t[2])?, t[3].parse::<usize>().ok()?);
    let tumbling = t[1] == "T";
    if !tumbling && d.as_millis() < 2 {
        return None; // the tiny sliding durations (the former hang) belong to the WS cases, which run under a deadline
    }
    let keys: Vec<u64> = parse_nums(t[4])?;
    let toks = list(t[5]);
    if keys.len() != toks.len() {
        return None;
    }
    let mut evs = Vec::new();
    for (i, tok) in toks.iter().enumerate() {
        let mut ev = mk_event(i, &parse_ev(tok)?);
        match keys[i] {
            0 => {}
            9 => {
                ev.data.insert("k".to_string(), Value::Integer(9));
            }
            k => {
                ev.data.insert("k".to_string(), Value::String(k.to_string()));
            }
        }
        evs.push(ev);
    }
    let cfg = match t[1] {
        "T" => WindowConfig::tumbling(d),
        "S" => WindowConfig::sliding(d),
        "N" => WindowConfig::session(d),
        _ => return None,
    }
    .with_max_events(cap);
    let stream = || DataStream::from_events(evs.clone());
    let ka = by_key(stream().key_by(key_sel).window(cfg.clone()).aggregate(custom()), |rs| {
        joined(rs.iter().map(res_str).collect(), tumbling, "+")
    });
    let kr = by_key(stream().key_by(key_sel).window(cfg.clone()).reduce(reducer), |rs| {
        joined(rs.iter().map(|e| e.id.clone()).collect(), tumbling, "+")
    });
    let wa = joined(stream().window(cfg.clone()).aggregate(custom()).iter().map(res_str).collect(), tumbling, "+");
    let wr = joined(stream().window(cfg.clone()).reduce(reducer).iter().map(|e| e.id.clone()).collect(), tumbling, "+");
    let mut flat: Vec<u64> =
        stream().window(cfg.clone()).flatten().collect().iter().map(|e| e.id.parse::<u64>().unwrap_or(u64::MAX)).collect();
    if tumbling {
        flat.sort();
    }
    let wf = join_nums(&flat);
    // KeyedStream
    let counts = stream().key_by(key_sel).count();
    let aggs = stream().key_by(key_sel).aggregate(custom());
    let reds = stream().key_by(key_sel).reduce(reducer);
    let ks = by_key(counts, |c| c.to_string());
    let ks_a = by_key(aggs, res_str);
    let ks_r = by_key(reds, |e| e.id.clone());
    // one entry per key: zip the three maps (same key sets by construction; a difference shows as a diff of the joined text)
    let ks = {
        let part = |s: &str| -> Vec<(String, String)> {
            if s == "_" {
                vec![]
            } else {
                s.split(';').map(|kv| kv.split_once('=').map(|(a, b)| (a.to_string(), b.to_string())).unwrap()).collect()
            }
        };
        let (c, a, r) = (part(&ks), part(&ks_a), part(&ks_r));
        let ent: Vec<String> = c
            .iter()
            .map(|(k, cv)| {
                let av = a.iter().find(|x| &x.0 == k).map(|x| x.1.clone()).unwrap_or_else(|| "?".into());
                let rv = r.iter().find(|x| &x.0 == k).map(|x| x.1.clone()).unwrap_or_else(|| "-".into());
                format!("{}={}:{}:{}", k, cv, av, rv)
            })
            .collect();
        if a.len() != c.len() || r.len() > c.len() {
            "?".to_string()
        } else {
            joined(ent, false, ";")
        }
    };
    let mut kk: Vec<u64> = stream().key_by(key_sel).keys().iter().map(|k| k.parse::<u64>().unwrap_or(u64::MAX)).collect();
    kk.sort();
    let mut kf_evs = stream().key_by(key_sel).flatten().collect();
    kf_evs.sort_by_key(|e| key_sel(e).parse::<u64>().unwrap_or(u64::MAX)); // stable: the order inside a group is the code's
    let kf = ids(kf_evs.iter());
    // GroupedStream
    let gs = {
        let c = stream().group_by(key_sel).count();
        let a = stream().group_by(key_sel).aggregate(custom());
        let f = stream().group_by(key_sel).first();
        let l = stream().group_by(key_sel).last();
        let mut keys: Vec<&String> = c.keys().collect();
        keys.sort_by_key(|k| k.parse::<u64>().unwrap_or(u64::MAX));
        let ent: Vec<String> = keys
            .iter()
            .map(|k| {
                format!(
                    "{}={}:{}:{}:{}",
                    k,
                    c[*k],
                    a.get(*k).map(res_str).unwrap_or_else(|| "?".into()),
                    f.get(*k).map(|e| e.id.clone()).unwrap_or_else(|| "-".into()),
                    l.get(*k).map(|e| e.id.clone()).unwrap_or_else(|| "-".into())
                )
            })
            .collect();
        if a.len() != c.len() || f.len() > c.len() || l.len() > c.len() {
            "?".to_string()
        } else {
            joined(ent, false, ";")
        }
    };
    // the plain stream, built with new() + push
    let mut ds = DataStream::new();
    if !(ds.is_empty() && ds.len() == 0) {
        return Some("?".into());
    }
    for e in &evs {
        ds.push(e.clone());
    }
    let dss = format!(
        "{}:{}:{}:{}",
        ds.clone().count(),
        ds.len(),
        res_str(&ds.clone().aggregate(custom())),
        ds.clone().reduce(reducer).map(|e| e.id).unwrap_or_else(|| "-".into())
    );
    Some([ka, kr, wa, wr, wf, ks, join_nums(&kk), kf, gs, dss].join("!"))
}

fn exec_st(t: &[&str]) -> Option<String> {
    let ks: Vec<i64> = parse_nums(t[1])?;
    let mut w = TimeWindow::new(WindowType::Sliding, Duration::from_millis(1_000_000), 0, 100_000);
    for (i, tok) in list(t[2]).iter().enumerate() {
        if !w.add_event(mk_event(i, &parse_ev(tok)?)) {
            return None;
        }
    }
    let f = || FIELD.to_string();
    // through the accessors of AggregationResult: a Number result is neither a string nor a boolean
    let std = match Aggregator::new(AggregationType::StdDev { field: f() }).aggregate(&w) {
        r @ AggregationResult::Number(_) => match (r.as_number(), r.as_string(), r.as_boolean()) {
            (Some(x), None, None) => x.to_bits().to_string(),
            _ => "?".to_string(),
        },
        AggregationResult::None => "-".to_string(),
        _ => "?".to_string(),
    };
    let pcts: Vec<String> = ks
        .iter()
        .map(|k| {
            onum(ar(Aggregator::new(AggregationType::Percentile { field: f(), percentile: *k as f64 / 10.0 }).aggregate(&w)))
        })
        .collect();
    Some(format!("{}/{}", std, join_nums(&pcts)))
}

fn exec_ms(t: &[&str]) -> Option<String> {
    let (ty, d, cap, maxw, k) =
        (wtype(t[1])?, parse_dur(t[2])?, t[3].parse::<usize>().ok()?, t[4].parse::<usize>().ok()?, t[5].parse::<usize>().ok()?);
    let mut m = WindowManager::new(ty, d, cap, maxw);
    for (i, tok) in list(t[6]).iter().enumerate() {
        m.process_event(mk_event(i, &parse_ev(tok)?));
    }
    let st = m.get_statistics();
    let on = |x: Option<u64>| x.map(|v| v.to_string()).unwrap_or_else(|| "-".into());
    Some(format!(
        "{}!{}/{}/{},{},{},{},{}/{}/{},{}",
        windows_obs(&m.active_windows().iter().collect::<Vec<_>>()),
        m.total_event_count(),
        on(m.latest_window().map(|w| w.start_time)),
        st.total_windows,
        st.total_events,
        on(st.oldest_window_start),
        on(st.newest_window_start),
        st.average_events_per_window.to_bits(),
        // -0.0 (the sum of no numeric value at all) and +0.0 are one number: printed as +0.0
        obits(StreamAnalytics::new(1000).moving_average(m.active_windows(), FIELD, k).map(|x| if x == 0.0 { 0.0 } else { x })),
        num(m.aggregate_across_windows(|w| w.sum(FIELD))),
        num(m.aggregate_across_windows(|w| w.count() as f64))
    ))
}

fn exec_sa(t: &[&str]) -> Option<String> {
    let t2: i64 = t[1].parse().ok()?;
    let idx: Vec<usize> = parse_nums(t[2])?;
    let toks = list(t[3]);
    if idx.len() != toks.len() {
        return None;
    }
    let nwin = idx.iter().max().map(|m| m + 1).unwrap_or(0);
    let mut ws: Vec<TimeWindow> =
        (0..nwin).map(|_| TimeWindow::new(WindowType::Sliding, Duration::from_millis(1_000_000), 0, 100_000)).collect();
    for (i, tok) in toks.iter().enumerate() {
        if !ws[idx[i]].add_event(mk_event(i, &parse_ev(tok)?)) {
            return None;
        }
    }
    let an = StreamAnalytics::new(1000);
    let anomalies = an.detect_anomalies(&ws, FIELD, t2 as f64 / 2.0);
    let trend = match an.calculate_trend(&ws, FIELD) {
        TrendDirection::Increasing => "I",
        TrendDirection::Decreasing => "D",
        TrendDirection::Stable => "S",
    };
    Some(format!("{}/{}", join_nums(&anomalies), trend))
}

fn exec_as(t: &[&str]) -> Option<String> {
    let (d, cap) = (parse_dur(t[2])?, t[3].parse::<usize>().ok()?);
    let spec = match t[1] {
        "-" => None,
        s @ ("S" | "T") => Some(WindowSpec { duration: d, window_type: wtype(s)? }),
        _ => return None,
    };
    let mut node = StreamAlphaNode::new(STREAM, Some(ETYPE.to_string()), spec).with_max_events(cap);
    for (i, tok) in list(t[4]).iter().enumerate() {
        let (now, ev) = tok.split_once('@')?;
        let e = parse_ev(ev)?;
        verif_clock::set(Some(now.parse().ok()?));
        node.process_event(&mk_event(i, &e));
    }
    verif_clock::set(None);
    let st = node.window_stats();
    let on = |x: Option<u64>| x.map(|v| v.to_string()).unwrap_or_else(|| "-".into());
    let head = format!(
        "{}/{}/{},{},{},{}",
        ids(node.get_events().iter()),
        node.event_count(),
        st.event_count,
        on(st.oldest_event_timestamp),
        on(st.newest_event_timestamp),
        on(st.window_duration_ms)
    );
    node.clear();
    Some(format!("{}/{}", head, node.event_count()))
}

fn exec_ts(t: &[&str]) -> Option<String> {
    let (ty, d, start, cap) = (wtype(t[1])?, parse_dur(t[2])?, t[3].parse::<u64>().ok()?, t[4].parse::<usize>().ok()?);
    let (a, b) = (t[5].parse::<u64>().ok()?, t[6].parse::<u64>().ok()?);
    let mut w = TimeWindow::new(ty, d, start, cap);
    for (i, op) in list(t[7]).iter().enumerate() {
        let ev = mk_event(i, &parse_ev(&op[1..])?);
        match op.as_bytes()[0] {
            b'a' => {
                w.add_event(ev);
            }
            b'r' => w.record(ev),
            _ => return None,
        }
    }
    let head = format!(
        "{}/{}/{}/{}",
        ids(w.events().iter()),
        w.latest_timestamp().map(|v| v.to_string()).unwrap_or_else(|| "-".into()),
        ids(w.events_in_range(a, b).into_iter()),
        w.duration_ms()
    );
    w.clear();
    Some(format!("{}/{}", head, w.count()))
}

fn exec_ev(t: &[&str]) -> Option<String> {
    let mut out = Vec::new();
    for tok in list(t[1]) {
        let mut data = HashMap::new();
        let v = match tok.as_bytes()[0] {
            b'n' => Some(Value::Number(tok[1..].parse::<i64>().ok()? as f64)),
            b'i' => Some(Value::Integer(tok[1..].parse::<i64>().ok()?)),
            b't' => Some(Value::String(tok[1..].parse::<i64>().ok()?.to_string())),
            b'b' => Some(Value::Boolean(&tok[1..] == "1")),
            b'u' => Some(Value::Null),
            b'p' => Some(Value::Number(f64::INFINITY)),
            b'q' => Some(Value::Number(f64::NEG_INFINITY)),
            b'z' => Some(Value::Number(f64::NAN)),
            b'M' => Some(Value::Number(f64::MAX)),
            b'L' => Some(Value::Number(f64::MIN)),
            b'm' => None,
            _ => return None,
        };
        match v {
            Some(v) => {
                data.insert(FIELD.to_string(), v);
            }
            None => {
                data.insert("other".to_string(), Value::Integer(1));
            }
        }
        let e = StreamEvent::with_timestamp(ETYPE, data, STREAM, 1);
        out.push(format!(
            "{}:{}:{}",
            oxnum(e.get_numeric(FIELD)),
            e.get_string(FIELD).unwrap_or("-"),
            e.get_boolean(FIELD).map(|b| (b as u8).to_string()).unwrap_or_else(|| "-".into())
        ));
    }
    Some(join_nums(&out))
}

fn exec_inner(case: &str) -> Option<String> {
    let t: Vec<&str> = case.split_whitespace().collect();
    match (t.first().copied(), t.len()) {
        (Some("TW"), 6) => exec_tw(&t),
        (Some("WM"), 6) => exec_wm(&t),
        (Some("WS"), 5) => exec_ws(&t),
        (Some("AN"), 5) => exec_an(&t),
        (Some("AG"), 2) => exec_ag(&t),
        (Some("XV"), 3) => exec_xv(&t),
        (Some("KW"), 6) => exec_kw(&t),
        (Some("ST"), 3) => exec_st(&t),
        (Some("MS"), 7) => exec_ms(&t),
        (Some("TS"), 8) => exec_ts(&t),
        (Some("EV"), 2) => exec_ev(&t),
        (Some("AS"), 5) => exec_as(&t),
        (Some("SA"), 4) => exec_sa(&t),
        _ => None,
    }
}

fn exec(case: &str) -> String {
    let c = case.to_string();
    match std::panic::catch_unwind(move || exec_inner(&c)) {
        Ok(Some(s)) => s,
        Ok(None) => "bad-case".into(),
        Err(_) => {
            verif_clock::set(None);
            "panic".into() // e.g. tumbling with a duration below 1 ms: division by zero
        }
    }
}

// ---------------------------------------------------------------- gen
fn gen_val(rng: &mut Rng) -> String {
    match rng.below(10) {
        0 => "s".into(),
        1 => "m".into(),
        2..=5 => format!("n{}", rng.range(0, 25) as i64 - 5),
        _ => format!("i{}", rng.range(0, 25) as i64 - 5),
    }
}

/// timestamps from a small dense domain lo..=hi; in order, reversed or shuffled
fn gen_ts(rng: &mut Rng, len: usize, lo: u64, hi: u64) -> Vec<u64> {
    let mut ts: Vec<u64> = (0..len).map(|_| rng.range(lo, hi)).collect();
    match rng.below(5) {
        0 => ts.sort(),
        1 => {
            ts.sort();
            ts.reverse()
        }
        2 => {
            // mostly in order with a few late events
            ts.sort();
            for _ in 0..(len / 4).max(1) {
                if len >= 2 {
                    let i = rng.below(len as u64) as usize;
                    let j = rng.below(len as u64) as usize;
                    ts.swap(i, j);
                }
            }
        }
        _ => {}
    }
    ts
}

fn pick_wt(rng: &mut Rng, main: &str) -> String {
    match rng.below(10) {
        0 => "S".into(),
        1 => "T".into(),
        2 => "N".into(),
        _ => main.into(),
    }
}

fn gen_tw(rng: &mut Rng) -> String {
    let ty = pick_wt(rng, "S");
    let d = *rng.pick(&[1u64, 2, 3, 5, 8, 13, 20]);
    let start = rng.below(30);
    let cap = *rng.pick(&[0usize, 1, 2, 3, 5, 100, 100, 100]);
    let len = rng.below(13) as usize;
    let mode = rng.below(4); // 0: all record, 1: all add, else mixed
    let (lo, hi) = if mode == 1 { (start.saturating_sub(2), start + d + 2) } else { (0, 40) };
    let ts = gen_ts(rng, len, lo, hi);
    let ops: Vec<String> = ts
        .iter()
        .map(|t| {
            let k = match mode {
                0 => 'r',
                1 => 'a',
                _ => {
                    if rng.chance(2, 3) {
                        'r'
                    } else {
                        'a'
                    }
                }
            };
            format!("{}{}:{}", k, t, gen_val(rng))
        })
        .collect();
    format!("TW {} {} {} {} {}", ty, d, start, cap, join_nums(&ops))
}

fn gen_evs(rng: &mut Rng, len: usize, lo: u64, hi: u64) -> String {
    let ts = gen_ts(rng, len, lo, hi);
    join_nums(&ts.iter().map(|t| format!("{}:{}", t, gen_val(rng))).collect::<Vec<_>>())
}

fn gen_wm(rng: &mut Rng) -> String {
    let ty = pick_wt(rng, "T");
    let d = *rng.pick(&[1u64, 2, 3, 5, 8, 10, 10]);
    let d = if ty == "T" && rng.chance(1, 60) { 0 } else { d };
    let cap = *rng.pick(&[0usize, 1, 2, 3, 100, 100, 100]);
    let maxw = *rng.pick(&[0usize, 1, 2, 3, 5, 100, 100, 100]);
    let len = rng.below(13) as usize;
    let hi = *rng.pick(&[8u64, 20, 40]);
    format!("WM {} {} {} {} {}", ty, d, cap, maxw, gen_evs(rng, len, 0, hi))
}

fn gen_ws(rng: &mut Rng) -> String {
    let d = *rng.pick(&[1u64, 2, 3, 5, 8, 10, 10]);
    let d = if rng.chance(1, 60) { 0 } else { d };
    let cap = *rng.pick(&[0usize, 1, 2, 3, 100, 100, 100]);
    let len = rng.below(13) as usize;
    let hi = *rng.pick(&[8u64, 20, 40]);
    format!("WS T {} {} {}", d, cap, gen_evs(rng, len, 0, hi))
}

/// sliding / session `WindowedStream::new`: durations from 1 ms (step 1) upward, odd and even (step = d/2 rounds down)
fn gen_ws_sliding(rng: &mut Rng) -> String {
    let ty = if rng.chance(2, 3) { "S" } else { "N" };
    let d = *rng.pick(&[1u64, 1, 2, 3, 4, 5, 7, 8, 10, 13]);
    let d = if rng.chance(1, 50) { 0 } else { d };
    let cap = *rng.pick(&[0usize, 1, 2, 3, 100, 100, 100]);
    let len = rng.below(13) as usize;
    let lo = rng.below(6);
    let hi = lo + *rng.pick(&[0u64, 3, 8, 20, 40]);
    format!("WS {} {} {} {}", ty, d, cap, gen_evs(rng, len, lo, hi))
}

/// sliding / session manager: fixed windows opened at event timestamps; dense timestamps so that windows overlap
fn gen_wm_fixed(rng: &mut Rng) -> String {
    let ty = if rng.chance(2, 3) { "S" } else { "N" };
    let d = *rng.pick(&[1u64, 2, 3, 5, 8, 10, 10]);
    let d = if rng.chance(1, 50) { 0 } else { d };
    let cap = *rng.pick(&[0usize, 1, 2, 3, 100, 100, 100]);
    let maxw = *rng.pick(&[0usize, 1, 2, 3, 5, 100, 100, 100]);
    let len = rng.below(13) as usize;
    let hi = *rng.pick(&[8u64, 20, 40]);
    format!("WM {} {} {} {} {}", ty, d, cap, maxw, gen_evs(rng, len, 0, hi))
}

/// session alpha node: gaps around the timeout (timeout-1, timeout, timeout+1), late events, a clock that runs ahead
fn gen_an_session(rng: &mut Rng) -> String {
    let timeout = *rng.pick(&[0u64, 1, 2, 3, 5, 8]);
    let cap = *rng.pick(&[0usize, 1, 2, 3, 100, 100, 10000]);
    let len = rng.below(13) as usize;
    let mut now = rng.below(30);
    let mut last = now;
    let mut ops = Vec::new();
    for _ in 0..len {
        now += match rng.below(6) {
            0 => timeout + 1,
            1 => timeout,
            2 => timeout + 2 + rng.below(4),
            _ => rng.below(timeout + 2),
        };
        let ts = match rng.below(10) {
            0 => last + timeout,
            1 => last + timeout + 1,
            2 => last.saturating_sub(rng.below(timeout + 3)), // late
            3 => now.saturating_sub(timeout),
            4 => now.saturating_sub(timeout + 1),             // stale at the clock
            5 => now + rng.below(3),                          // slightly in the future
            _ => now.saturating_sub(rng.below(timeout + 1)),
        };
        last = ts;
        let fl = match rng.below(16) {
            0 => "x",
            1 => "y",
            _ => "",
        };
        ops.push(format!("{}@{}:{}{}", now, ts, gen_val(rng), fl));
    }
    format!("AN E {} {} {}", timeout, cap, join_nums(&ops))
}

fn gen_an(rng: &mut Rng) -> String {
    let ty = match rng.below(12) {
        0 => "-",
        1..=6 => "S",
        _ => "T",
    };
    let d = *rng.pick(&[1u64, 2, 3, 5, 8, 10]);
    let d = if ty == "T" && rng.chance(1, 60) { 0 } else { d };
    let cap = *rng.pick(&[0usize, 1, 2, 3, 100, 100, 10000]);
    let len = rng.below(13) as usize;
    // the clock: usually starts above one window length (0 means "unset" for last_window_start),
    // sometimes inside the first window; moves forward by 0..d+1, rarely jumps back
    let mut now = if rng.chance(1, 8) { rng.below(d.max(1)) } else { 3 * d.max(1) + rng.below(20) };
    let mut ops = Vec::new();
    for _ in 0..len {
        if rng.chance(1, 25) {
            now = now.saturating_sub(rng.range(1, d.max(1) + 2));
        } else {
            now += rng.below(d + 2);
        }
        // event time around the window of `now`: boundaries now-d, now, aligned start/end
        let ts = match rng.below(8) {
            0 => now.saturating_sub(d),
            1 => now,
            2 => now.saturating_sub(d + 1),
            3 => now + 1,
            4 if d > 0 => now / d * d,
            5 if d > 0 => now / d * d + d,
            _ => (now + 2).saturating_sub(rng.below(d + 4)),
        };
        let fl = match rng.below(16) {
            0 => "x",
            1 => "y",
            _ => "",
        };
        ops.push(format!("{}@{}:{}{}", now, ts, gen_val(rng), fl));
    }
    format!("AN {} {} {} {}", ty, d, cap, join_nums(&ops))
}

/// the other aggregates: few distinct values so that duplicates, Number/Integer/String twins of one value and ties in the
/// order statistics are frequent; lengths 0..12 and sometimes up to 40
fn gen_ag(rng: &mut Rng) -> String {
    let len = if rng.chance(1, 8) { rng.range(13, 40) } else { rng.below(13) } as usize;
    let dom = *rng.pick(&[2u64, 4, 9, 30]);
    let evs: Vec<String> = (0..len)
        .map(|i| {
            let v = rng.below(dom) as i64 - 1 + if dom == 9 { 3 } else { 0 };
            let val = match rng.below(12) {
                0 => "s".to_string(),
                1 => "m".to_string(),
                2 | 3 => format!("t{}", v),
                4..=7 => format!("n{}", v),
                _ => format!("i{}", v),
            };
            format!("{}:{}", i, val)
        })
        .collect();
    format!("AG {}", join_nums(&evs))
}

/// Family "many": ONE window holding 33..130 events (beyond any small-block special case in an aggregate), integer
/// values, mixed numeric / non-numeric; through `record`, `add_event`, a tumbling manager and a tumbling / sliding
/// `WindowedStream`. Aggregates are compared with the fold over exactly the events (model) and by `aggOk` (oracle).
fn gen_many(rng: &mut Rng, k: usize) -> String {
    let len = match k % 12 {
        0 => 33,
        1 => 34,
        2 => 40,
        3 => 63,
        4 => 64,
        5 => 65,
        6 => 66,
        7 => 100,
        8 => 129,
        9 => 130,
        _ => rng.range(33, 130) as usize,
    };
    let span = *rng.pick(&[50u64, 200, 1000]);
    let vals = |rng: &mut Rng| -> String {
        match rng.below(12) {
            0 => "s".into(),
            1 => "m".into(),
            2..=6 => format!("n{}", rng.range(0, 40) as i64 - 7),
            _ => format!("i{}", rng.range(0, 40) as i64 - 7),
        }
    };
    match (k / 12) % 5 {
        0 => {
            // sliding `record`, everything stays inside the trailing duration
            let ts = gen_ts(rng, len, 0, span);
            let ops: Vec<String> = ts.iter().map(|t| format!("r{}:{}", 1000 + t, vals(rng))).collect();
            format!("TW S {} 0 1000 {}", 2 * span + 1, join_nums(&ops))
        }
        1 => {
            let ts = gen_ts(rng, len, 0, span);
            let ops: Vec<String> = ts.iter().map(|t| format!("a{}:{}", 500 + t, vals(rng))).collect();
            format!("TW T {} 500 1000 {}", span + 1, join_nums(&ops))
        }
        2 => {
            let ts = gen_ts(rng, len, 0, span);
            let evs: Vec<String> = ts.iter().map(|t| format!("{}:{}", 3 * (span + 1) + t, vals(rng))).collect();
            format!("WM T {} 1000 100 {}", span + 1, join_nums(&evs))
        }
        3 => {
            let ts = gen_ts(rng, len, 0, span);
            let evs: Vec<String> = ts.iter().map(|t| format!("{}:{}", 3 * (span + 1) + t, vals(rng))).collect();
            format!("WS T {} 1000 {}", span + 1, join_nums(&evs))
        }
        _ => {
            // sliding WindowedStream: few, well-filled overlapping windows
            let ts = gen_ts(rng, len, 0, 12);
            let evs: Vec<String> = ts.iter().map(|t| format!("{}:{}", 100 + t, vals(rng))).collect();
            format!("WS S 20 1000 {}", join_nums(&evs))
        }
    }
}

/// Family "epoch": any case with every timestamp (event times, window start, clock) moved up by a large base —
/// epoch milliseconds as `StreamEvent::new` stamps them, and values around 2^32 / 2^40 — so that quotients
/// `timestamp / duration` exceed 32 bits. Timestamps are u64 in the code, `Nat` in the model, decimal on the wire.
const BASES: [u64; 6] = [1_700_000_000_123, (1 << 40) - 3, (1 << 40) + 5, (1 << 32) - 2, (1 << 32) * 250 + 17, 1 << 53];

fn shift_ev(tok: &str, base: u64) -> String {
    match tok.split_once(':') {
        Some((ts, rest)) => match ts.parse::<u64>() {
            Ok(t) => format!("{}:{}", t + base, rest),
            Err(_) => tok.to_string(),
        },
        None => tok.to_string(),
    }
}

fn shift_case(case: &str, base: u64) -> String {
    let t: Vec<&str> = case.split_whitespace().collect();
    let last = t.len() - 1;
    let items: Vec<String> = list(t[last])
        .iter()
        .map(|it| match t[0] {
            "TW" => format!("{}{}", &it[..1], shift_ev(&it[1..], base)),
            "AN" => match it.split_once('@') {
                Some((now, ev)) => format!("{}@{}", now.parse::<u64>().map(|n| n + base).unwrap_or(0), shift_ev(ev, base)),
                None => it.to_string(),
            },
            _ => shift_ev(it, base),
        })
        .collect();
    let mut head: Vec<String> = t[..last].iter().map(|x| x.to_string()).collect();
    if t[0] == "TW" {
        head[3] = (t[3].parse::<u64>().unwrap_or(0) + base).to_string();
    }
    format!("{} {}", head.join(" "), join_nums(&items))
}

fn gen_epoch(rng: &mut Rng, k: usize) -> String {
    let base = BASES[k % BASES.len()];
    let case = match (k / BASES.len()) % 9 {
        0 => gen_tw(rng),
        1 | 2 => {
            // tumbling manager / windowed stream with the short durations of real configurations
            let d = *rng.pick(&[1u64, 10, 100, 250]);
            let len = rng.range(1, 12) as usize;
            let evs = gen_evs(rng, len, 0, 3 * d);
            if rng.chance(1, 2) {
                format!("WM T {} 100 100 {}", d, evs)
            } else {
                format!("WS T {} 100 {}", d, evs)
            }
        }
        3 => gen_wm(rng),
        4 => gen_ws(rng),
        5 => gen_an(rng),
        6 => gen_wm_fixed(rng),
        7 => gen_ws_sliding(rng),
        _ => gen_an_session(rng),
    };
    shift_case(&case, base)
}

/// Family "micro": durations that are NOT a whole number of milliseconds (`Duration::from_micros`), for every component and
/// window type: any case of the generators above with its duration `d` ms replaced by `d` ms + 0 / 1 / 400 / 500 / 900 / 999 µs.
/// Every site reads the duration with `as_millis()` (truncation), so the windows are those of `d` ms — in particular the
/// grouping grid of `WindowedStream::new` and the span `TimeWindow::new` gives each window must agree (0.5 ms and above would
/// round up), and `d = 0` stays the sub-millisecond case.
const FRACS: [u64; 6] = [500, 900, 400, 999, 1, 0];

fn gen_micro(rng: &mut Rng, k: usize) -> String {
    let case = match k % 8 {
        0 => gen_tw(rng),
        1 => gen_wm(rng),
        2 | 3 => gen_ws(rng),
        4 => gen_an(rng),
        5 => gen_wm_fixed(rng),
        6 => gen_ws_sliding(rng),
        _ => gen_an_session(rng),
    };
    let frac = FRACS[(k / 8) % FRACS.len()];
    let mut t: Vec<String> = case.split_whitespace().map(|x| x.to_string()).collect();
    if let Ok(d) = t[2].parse::<u64>() {
        t[2] = format!("u{}", d * 1000 + frac);
    }
    t.join(" ")
}

/// Family "huge": effectively unbounded windows — `Duration::from_millis(u64::MAX)`, `u64::MAX - 1`, 2^63, 2^63 + 1,
/// `u64::MAX` minus an epoch-sized amount, and a large value that does not overflow when added to a timestamp. A sliding
/// alpha node / `record` window of that length retains every event that is not in the future (up to the cap); `now - d`
/// saturates at 0 in the code (`Nat` subtraction in the model), `timestamp + d` must never be formed. Clocks and timestamps
/// small, or epoch sized. Also a tumbling and a session node of that length (one window / one session holds everything).
const HUGE: [u64; 6] = [u64::MAX, u64::MAX - 1, 1 << 63, (1 << 63) + 1, u64::MAX - 1_700_000_000_000, u64::MAX / 1000];

fn gen_huge(rng: &mut Rng, k: usize) -> String {
    let d = HUGE[k % HUGE.len()];
    let base = *rng.pick(&[0u64, 0, 1_700_000_000_123, 1 << 40]);
    let len = rng.range(1, 12) as usize;
    let kind = (k / HUGE.len()) % 5;
    if kind == 3 {
        // TimeWindow::record / add_event on a window [0, d): `start + d` must not overflow, so start = 0
        let cap = *rng.pick(&[1usize, 2, 3, 100, 100, 100]);
        let ts = gen_ts(rng, len, base, base + 40);
        let ops: Vec<String> =
            ts.iter().map(|t| format!("{}{}:{}", if rng.chance(3, 4) { 'r' } else { 'a' }, t, gen_val(rng))).collect();
        return format!("TW S {} 0 {} {}", d, cap, join_nums(&ops));
    }
    let ty = match kind {
        0 | 1 | 2 => "S",
        _ => {
            if rng.chance(1, 2) {
                "T"
            } else {
                "E"
            }
        }
    };
    let cap = *rng.pick(&[1usize, 2, 3, 100, 100, 10000]);
    let mut now = base + rng.below(30);
    let mut ops = Vec::new();
    for _ in 0..len {
        now += rng.below(2000);
        let ts = match rng.below(8) {
            0 => now,
            1 => now + 1, // in the future: refused by a sliding window
            2 => 0,
            3 => base,
            _ => now.saturating_sub(rng.below(6000)),
        };
        let fl = if rng.chance(1, 16) { "x" } else { "" };
        ops.push(format!("{}@{}:{}{}", now, ts, gen_val(rng), fl));
    }
    format!("AN {} {} {} {}", ty, d, cap, join_nums(&ops))
}

/// Family "xv": numeric fields over ALL of f64 — infinities (an overflowed reading), NaN, ±f64::MAX — next to ordinary
/// integers, non-numeric and missing fields; min / max (and the sum where it does not depend on the order of addition) of one
/// window through TimeWindow, Aggregator and operators::{Min,Max}. The extreme may be infinite, every value may be NaN, the
/// non-finite value may come first, last or alone.
fn gen_xv(rng: &mut Rng, k: usize) -> String {
    let len = match k % 6 {
        0 => 1,
        1 => 2,
        _ => rng.range(1, 12) as usize,
    };
    let specials: &[&str] = match (k / 6) % 6 {
        0 => &["p"],
        1 => &["q"],
        2 => &["p", "q"],
        3 => &["z"],
        4 => &["p", "q", "z"],
        _ => &["p", "q", "z", "M", "L"],
    };
    let dense = rng.chance(1, 3); // mostly special values
    let evs: Vec<String> = (0..len)
        .map(|i| {
            let r = rng.below(10);
            let v = if r == 0 {
                "s".to_string()
            } else if r == 1 {
                "m".to_string()
            } else if r <= 4 || dense {
                rng.pick(specials).to_string()
            } else if r <= 7 {
                format!("n{}", rng.range(0, 25) as i64 - 5)
            } else {
                format!("i{}", rng.range(0, 25) as i64 - 5)
            };
            format!("{}:{}", i + 1, v)
        })
        .collect();
    format!("XV {} {}", if k % 2 == 0 { "r" } else { "a" }, join_nums(&evs))
}

/// stream operators: few keys (0 = no key field, 9 = a key field that is not a string), all three window configurations
fn gen_kw(rng: &mut Rng, k: usize) -> String {
    let ty = match k % 4 {
        0 | 1 => "T",
        2 => "S",
        _ => "N",
    };
    let d = if ty == "T" { *rng.pick(&[1u64, 2, 3, 5, 8, 10, 10]) } else { *rng.pick(&[2u64, 3, 4, 5, 7, 8, 10, 13]) };
    let d = if ty == "T" && rng.chance(1, 60) { 0 } else { d };
    let ds = if rng.chance(1, 10) { format!("u{}", d * 1000 + *rng.pick(&[1u64, 500, 999])) } else { d.to_string() };
    let cap = *rng.pick(&[0usize, 1, 2, 3, 100, 100, 100]);
    let len = rng.below(13) as usize;
    let nkeys = *rng.pick(&[1u64, 2, 3, 4, 10]);
    let hi = *rng.pick(&[8u64, 20, 40]);
    let keys: Vec<u64> = (0..len).map(|_| rng.below(nkeys)).collect();
    format!("KW {} {} {} {} {}", ty, ds, cap, join_nums(&keys), gen_evs(rng, len, 0, hi))
}

/// StdDev value and arbitrary percentiles (tenths of a percent; ties of the rank, out-of-range and negative percentiles)
fn gen_st(rng: &mut Rng) -> String {
    let len = if rng.chance(1, 8) { rng.range(13, 40) } else { rng.below(13) } as usize;
    let dom = *rng.pick(&[2u64, 4, 9, 30, 1000]);
    let evs: Vec<String> = (0..len)
        .map(|i| {
            let v = rng.below(dom) as i64 - (dom as i64) / 3;
            let val = match rng.below(12) {
                0 => "s".to_string(),
                1 => "m".to_string(),
                2 => format!("t{}", v),
                3..=7 => format!("n{}", v),
                _ => format!("i{}", v),
            };
            format!("{}:{}", i, val)
        })
        .collect();
    let pool: [i64; 24] = [0, 250, 500, 750, 1000, 1, 5, 10, 100, 300, 333, 125, 375, 625, 875, 900, 950, 990, 999, 1001, 1500, 2000, -50, -1];
    let nk = rng.range(1, 6) as usize;
    let ks: Vec<i64> = (0..nk).map(|_| if rng.chance(1, 3) { rng.below(1001) as i64 } else { *rng.pick(&pool) }).collect();
    format!("ST {} {}", join_nums(&ks), join_nums(&evs))
}

/// manager statistics and the moving average over the last k active windows
fn gen_ms(rng: &mut Rng) -> String {
    let base = if rng.chance(1, 2) { gen_wm(rng) } else { gen_wm_fixed(rng) };
    let t: Vec<&str> = base.split_whitespace().collect();
    let k = *rng.pick(&[0usize, 1, 1, 2, 3, 100]);
    format!("MS {} {} {} {} {} {}", t[1], t[2], t[3], t[4], k, t[5])
}

/// TimeWindow statistics after a run of add_event / record
fn gen_ts_case(rng: &mut Rng) -> String {
    let base = gen_tw(rng);
    let t: Vec<&str> = base.split_whitespace().collect();
    let a = rng.below(40);
    let b = if rng.chance(1, 6) { a } else { a + rng.below(25) };
    format!("TS {} {} {} {} {} {} {}", t[1], t[2], t[3], t[4], a, b, t[5])
}

/// analytics over 0..6 hand-built windows: enough historical values for a baseline (>= 10) most of the time, equal values
/// (standard deviation 0), outliers in the last window, windows without numeric value, averages around the +-5 % boundary
fn gen_sa(rng: &mut Rng) -> String {
    let nw = rng.below(7) as usize;
    let len = if nw == 0 { 0 } else if rng.chance(1, 4) { rng.below(10) } else { rng.range(11, 30) } as usize;
    let dom = *rng.pick(&[1u64, 3, 10, 100]);
    let base = *rng.pick(&[0i64, 20, 100, -20]);
    let mut idx: Vec<usize> = (0..len).map(|_| if rng.chance(1, 4) { nw - 1 } else { rng.below(nw as u64) as usize }).collect();
    if len > 0 {
        idx[0] = nw - 1; // the last window exists
    }
    let evs: Vec<String> = (0..len)
        .map(|i| {
            let v = base + rng.below(dom) as i64 + if rng.chance(1, 8) { *rng.pick(&[50i64, -40, 7]) } else { 0 };
            let val = match rng.below(12) {
                0 => "s".to_string(),
                1 => "m".to_string(),
                2..=6 => format!("n{}", v),
                _ => format!("i{}", v),
            };
            format!("{}:{}", i, val)
        })
        .collect();
    let t2 = *rng.pick(&[0i64, 1, 2, 3, 4, 5, 6, -1]);
    format!("SA {} {} {}", t2, join_nums(&idx), join_nums(&evs))
}

fn gen_ev_case(rng: &mut Rng) -> String {
    let len = rng.range(1, 8) as usize;
    let toks: Vec<String> = (0..len)
        .map(|_| match rng.below(12) {
            0 => "m".to_string(),
            1 => "u".to_string(),
            2 => "b0".to_string(),
            3 => "b1".to_string(),
            4 => rng.pick(&["p", "q", "z", "M", "L"]).to_string(),
            5 | 6 => format!("t{}", rng.below(30) as i64 - 9),
            7 | 8 => format!("i{}", rng.below(30) as i64 - 9),
            _ => format!("n{}", rng.below(30) as i64 - 9),
        })
        .collect();
    format!("EV {}", join_nums(&toks))
}

/// sums whose value depends on the order of addition: runs of +-f64::MAX (MAX + MAX overflows, MAX - MAX cancels) between small
/// integers and the occasional infinity / NaN; the model adds in the order of the deque
fn gen_xv_order(rng: &mut Rng, k: usize) -> String {
    let len = rng.range(3, 9) as usize;
    let evs: Vec<String> = (0..len)
        .map(|i| {
            let v = match rng.below(12) {
                0..=3 => "M".to_string(),
                4..=7 => "L".to_string(),
                8 => rng.pick(&["p", "q", "z", "m"]).to_string(),
                _ => format!("n{}", rng.range(0, 25) as i64 - 5),
            };
            format!("{}:{}", i + 1, v)
        })
        .collect();
    format!("XV {} {}", if k % 2 == 0 { "r" } else { "a" }, join_nums(&evs))
}

/// every value sequence of length <= 3 over {1, -2, +inf, -inf, NaN, missing}
fn exhaustive_xv(out: &mut Vec<String>) {
    let dom = ["n1", "i-2", "p", "q", "z", "m"];
    let mut frontier: Vec<Vec<&str>> = vec![vec![]];
    for _ in 0..3 {
        let mut next = Vec::new();
        for s in &frontier {
            for v in dom {
                let mut s2 = s.clone();
                s2.push(v);
                next.push(s2);
            }
        }
        for s in &next {
            let evs: Vec<String> = s.iter().enumerate().map(|(i, v)| format!("{}:{}", i + 1, v)).collect();
            out.push(format!("XV {} {}", if s.len() % 2 == 1 { "r" } else { "a" }, join_nums(&evs)));
        }
        frontier = next;
    }
}

/// every timestamp sequence of length <= k over 0..dom for `record` on a sliding window
fn exhaustive_records(k: usize, dom: u64, out: &mut Vec<String>) {
    let mut frontier: Vec<Vec<u64>> = vec![vec![]];
    let mut seqs: Vec<Vec<u64>> = vec![];
    for _ in 0..k {
        let mut next = Vec::new();
        for s in &frontier {
            for t in 0..dom {
                let mut s2 = s.clone();
                s2.push(t);
                next.push(s2);
            }
        }
        seqs.extend(next.iter().cloned());
        frontier = next;
    }
    for s in &seqs {
        for (d, cap) in [(1u64, 100usize), (2, 100), (2, 2)] {
            let ops: Vec<String> = s.iter().map(|t| format!("r{}:i{}", t, t + 1)).collect();
            out.push(format!("TW S {} 0 {} {}", d, cap, join_nums(&ops)));
        }
        // the alpha node: the clock is the running maximum + 3 (so events may be out of order but never in the future)
        for (d, cap) in [(2u64, 100usize), (3, 3)] {
            let mut mx = 0;
            let ops: Vec<String> = s
                .iter()
                .map(|t| {
                    mx = mx.max(*t);
                    format!("{}@{}:i{}", mx + 10, t + 10, t)
                })
                .collect();
            out.push(format!("AN S {} {} {}", d, cap, join_nums(&ops)));
        }
        // tumbling placement, every short sequence
        let evs: Vec<String> = s.iter().map(|t| format!("{}:n{}", t, t)).collect();
        out.push(format!("WM T 2 100 100 {}", join_nums(&evs)));
        out.push(format!("WS T 2 100 {}", join_nums(&evs)));
        // the stream operators: two keys alternating / by timestamp parity, tumbling and sliding, a binding cap
        {
            let k1: Vec<u64> = (0..s.len() as u64).map(|i| i % 2).collect();
            let k2: Vec<u64> = s.iter().map(|t| 1 + t % 2).collect();
            out.push(format!("KW T 2 100 {} {}", join_nums(&k1), join_nums(&evs)));
            out.push(format!("KW S 2 100 {} {}", join_nums(&k2), join_nums(&evs)));
            out.push(format!("KW T 3 1 {} {}", join_nums(&k2), join_nums(&evs)));
        }
        // sliding manager (fixed windows, first fit), with and without a binding window limit; session twin
        out.push(format!("WM S 2 100 100 {}", join_nums(&evs)));
        out.push(format!("WM S 3 2 2 {}", join_nums(&evs)));
        out.push(format!("WM N 2 100 2 {}", join_nums(&evs)));
        // session alpha node, timeout 1: clock = running maximum + 10 (never expires by the clock) / = own timestamp + 12
        {
            let mut mx = 0;
            let ops: Vec<String> = s
                .iter()
                .map(|t| {
                    mx = mx.max(*t);
                    format!("{}@{}:i{}", mx + 10, t + 10, t)
                })
                .collect();
            out.push(format!("AN E 1 100 {}", join_nums(&ops)));
            let ops: Vec<String> = s.iter().map(|t| format!("{}@{}:i{}", 2 * t + 12, 2 * t + 10, t)).collect();
            out.push(format!("AN E 2 2 {}", join_nums(&ops)));
        }
    }
    // sliding `WindowedStream::new`: every *set* of timestamps matters (the constructor sees all events at once);
    // each runs in a child process, so only sequences of length <= 3 here
    for s in seqs.iter().filter(|s| s.len() <= 3) {
        let evs: Vec<String> = s.iter().map(|t| format!("{}:n{}", 2 * t, t)).collect();
        for (ty, d, cap) in [("S", 1u64, 100usize), ("S", 3, 100), ("N", 4, 1)] {
            out.push(format!("WS {} {} {} {}", ty, d, cap, join_nums(&evs)));
        }
    }
}

fn gen(rng: &mut Rng, n: usize, tier: &str) -> Vec<String> {
    let mut out = Vec::new();
    if tier == "thorough" {
        exhaustive_records(5, 5, &mut out);
    } else {
        exhaustive_records(4, 4, &mut out);
    }
    for i in 0..n {
        out.push(match i % 4 {
            0 => gen_tw(rng),
            1 => gen_wm(rng),
            2 => gen_ws(rng),
            _ => gen_an(rng),
        });
    }
    // the sliding / session modes: 3n/4 further cases (drawn after the n above, whose random stream is unchanged)
    for i in 0..(3 * n / 4) {
        out.push(match i % 3 {
            0 => gen_wm_fixed(rng),
            1 => gen_ws_sliding(rng),
            _ => gen_an_session(rng),
        });
    }
    // the other aggregates (n/8 cases)
    for _ in 0..(n / 8) {
        out.push(gen_ag(rng));
    }
    // one window with 33..130 events (n/50 cases), and every component at epoch-sized timestamps (n/8 cases)
    for k in 0..(n / 50).max(60) {
        out.push(gen_many(rng, k));
    }
    for k in 0..(n / 8).max(54) {
        out.push(gen_epoch(rng, k));
    }
    // durations with a sub-millisecond fraction (n/16 cases), effectively unbounded windows (n/20), numeric fields over all
    // of f64 (every short value sequence + n/10 random ones); drawn last: the random stream of the cases above is unchanged
    for k in 0..(n / 16).max(96) {
        out.push(gen_micro(rng, k));
    }
    for k in 0..(n / 20).max(60) {
        out.push(gen_huge(rng, k));
    }
    exhaustive_xv(&mut out);
    for k in 0..(n / 10).max(72) {
        out.push(gen_xv(rng, k));
    }
    // round 4 (drawn last): the stream operators, StdDev / arbitrary percentiles, manager and window statistics, field extraction
    for k in 0..(n / 8).max(96) {
        out.push(gen_kw(rng, k));
    }
    for _ in 0..(n / 16).max(48) {
        out.push(gen_st(rng));
    }
    for _ in 0..(n / 16).max(48) {
        out.push(gen_ms(rng));
    }
    for _ in 0..(n / 16).max(48) {
        out.push(gen_ts_case(rng));
    }
    for _ in 0..24 {
        out.push(gen_ev_case(rng));
    }
    for _ in 0..(n / 32).max(32) {
        out.push(gen_an(rng).replacen("AN", "AS", 1));
    }
    for k in 0..(n / 40).max(40) {
        out.push(gen_xv_order(rng, k));
    }
    for _ in 0..(n / 16).max(48) {
        out.push(gen_sa(rng));
    }
    // windows REUSED after clear() (drawn last): every short add / record / clear history, and TW / AN / AN E cases of the
    // families above with 1..3 clears put in anywhere (first, last, twice in a row)
    exhaustive_clear(&mut out);
    for k in 0..(n / 3).max(300) {
        out.push(gen_clear(rng, k));
    }
    out
}

/// every history of length <= 3 over {record t, add_event t (t in 0..4), clear} (the sibling insertion paths mixed in every order on
/// ONE window, with and without clears) on a sliding window (duration 1 and 2, start 0,
/// cap 1 and 100), each followed by one more record (so that the state left by the last op is read back by the next one)
fn exhaustive_clear(out: &mut Vec<String>) {
    let mut alphabet: Vec<String> = vec!["c".to_string()];
    for t in 0..4u64 {
        alphabet.push(format!("r{}:i{}", t, t + 1));
        alphabet.push(format!("a{}:i{}", t, t + 1));
    }
    let mut seqs: Vec<Vec<String>> = vec![];
    let mut frontier: Vec<Vec<String>> = vec![vec![]];
    for _ in 0..3 {
        let mut next = Vec::new();
        for s in &frontier {
            for a in &alphabet {
                let mut s2 = s.clone();
                s2.push(a.clone());
                next.push(s2);
            }
        }
        seqs.extend(next.iter().cloned());
        frontier = next;
    }
    for s in &seqs {
        for (d, cap) in [(1u64, 100usize), (2, 100), (2, 1), (3, 2)] {
            out.push(format!("TW S {} 0 {} {},r2:i7", d, cap, s.join(",")));
        }
    }
}

fn gen_clear(rng: &mut Rng, k: usize) -> String {
    let base = match k % 4 {
        0 | 1 => gen_tw(rng),
        2 => gen_an(rng),
        _ => gen_an_session(rng),
    };
    let t: Vec<&str> = base.split_whitespace().collect();
    let last = t.len() - 1;
    let mut items: Vec<String> = list(t[last]).iter().map(|s| s.to_string()).collect();
    for _ in 0..rng.range(1, 3) {
        let at = match rng.below(6) {
            0 => 0,
            1 => items.len(),
            _ => rng.below(items.len() as u64 + 1) as usize,
        };
        items.insert(at, "c".to_string());
    }
    format!("{} {}", t[..last].join(" "), items.join(","))
}

// ---------------------------------------------------------------- shrink
fn shrink(case: &str) -> Vec<String> {
    let t: Vec<&str> = case.split_whitespace().collect();
    if t.len() < 5 && !(t.len() == 2 && (t[0] == "AG" || t[0] == "EV")) && !(t.len() == 3 && (t[0] == "XV" || t[0] == "ST")) {
        return vec![];
    }
    if t[0] == "KW" && t.len() == 6 {
        // keys and events shrink together
        let keys = list(t[4]);
        let evs = list(t[5]);
        let head = t[..4].join(" ");
        let mut out = Vec::new();
        for i in 0..evs.len().min(keys.len()) {
            let mut k2: Vec<&str> = keys.clone();
            let mut e2: Vec<&str> = evs.clone();
            k2.remove(i);
            e2.remove(i);
            out.push(format!("{} {} {}", head, join_nums(&k2), join_nums(&e2)));
            if keys[i] != "1" {
                let mut k3: Vec<&str> = keys.clone();
                k3[i] = "1";
                out.push(format!("{} {} {}", head, join_nums(&k3), t[5]));
            }
        }
        return out;
    }
    let last = t.len() - 1;
    let items: Vec<String> = list(t[last]).iter().map(|s| s.to_string()).collect();
    let head = t[..last].join(" ");
    let mut out: Vec<String> = shrink_list(&items).into_iter().map(|v| format!("{} {}", head, join_nums(&v))).collect();
    // simplify one item's value / flags
    for i in 0..items.len() {
        let it = &items[i];
        let stripped = it.trim_end_matches(|c| c == 'x' || c == 'y');
        if let Some((pre, val)) = stripped.split_once(':') {
            if val != "m" {
                let mut v = items.clone();
                v[i] = format!("{}:m", pre);
                out.push(format!("{} {}", head, join_nums(&v)));
            }
        }
    }
    out
}

fn main() {
    main_with(Prop { gen, exec, shrink });
}
