//! C05 — no text makes a parser or the expression evaluator panic or hang.
//!
//! case := `<E> <hex utf-8 input> <cls>`
//!   E   entry point / kernel reached through the public API (see `run_entry`)
//!   cls `-` or `cp:f,cp:f,…` — for every distinct non-ASCII char of the input its code point (hex)
//!       and Rust's own classification f = 1·is_whitespace + 2·is_alphabetic + 4·is_numeric
//!       (the Lean model is parametric in the classification; std's Unicode tables are an input).
//! obs  := `ok[ detail]` | `err` | `panic:<hex msg>`        (detail is entry specific, canonical)
//!
//! Beside the generic `gen | exec | shrink` there is the robustness **search** (fuzzing-like, labelled
//! as such in the evidence):
//!   c05 robust <seed> <n> <tier>   parent: generates n strings, runs ALL seven entry points on each in
//!                                  a CHILD process (`c05 child`, default 8 MiB main-thread stack) with a
//!                                  per-input watchdog; reports panics, crashes (signal) and hangs.
//!   c05 child                      reads `<hex>` lines, prints `<idx> <E>=<ok|err|panic:..>;…` per line
use rre_harness::*;
use rust_rule_engine::backward::aggregation::{parse_aggregate_query, AggregateFunction};
use rust_rule_engine::backward::disjunction::DisjunctionParser;
use rust_rule_engine::backward::expression::{Expression, ExpressionParser};
use rust_rule_engine::backward::grl_query::GRLQueryParser;
use rust_rule_engine::backward::nested::NestedQueryParser;
use rust_rule_engine::backward::query::QueryParser;
use rust_rule_engine::engine::rule::ConditionGroup;
use rust_rule_engine::expression::evaluate_expression;
use rust_rule_engine::parser::grl::stream_syntax::{
    parse_duration, parse_join_condition, parse_stream_join_pattern, parse_stream_pattern, parse_stream_source,
    parse_window_spec, parse_window_type, JoinCondition, StreamPattern, TemporalOp, WindowSpec, WindowType,
};
use rust_rule_engine::parser::grl::GRLParser;
use rust_rule_engine::{ActionType, Facts, RuleEngineError, Value};
use std::io::{BufRead, Write};

// ------------------------------------------------------------------------------------------------
// canonical rendering of results
// ------------------------------------------------------------------------------------------------
fn val(v: &Value) -> String {
    match v {
        Value::String(s) => format!("S{}", hex(s)),
        Value::Number(_) => "N".into(),
        Value::Integer(i) => format!("I{}", i),
        Value::Boolean(b) => format!("B{}", *b as u8),
        Value::Null => "Null".into(),
        Value::Expression(s) => format!("E{}", hex(s)),
        Value::Array(a) => format!("A[{}]", a.iter().map(val).collect::<Vec<_>>().join(";")),
        Value::Object(_) => "Obj".into(),
    }
}

fn ast(e: &Expression) -> String {
    match e {
        Expression::Field(n) => format!("F({})", hex(n)),
        Expression::Literal(Value::Number(_)) => "L(#)".into(),
        Expression::Literal(v) => format!("L({})", val(v)),
        Expression::Comparison { left, operator, right } => {
            format!("C({:?},{},{})", operator, ast(left), ast(right))
        }
        Expression::And { left, right } => format!("A({},{})", ast(left), ast(right)),
        Expression::Or { left, right } => format!("O({},{})", ast(left), ast(right)),
        Expression::Not(x) => format!("N({})", ast(x)),
        Expression::Variable(v) => format!("V({})", hex(v)),
    }
}

fn hexlist(xs: &[String]) -> String {
    if xs.is_empty() {
        "-".into()
    } else {
        xs.iter().map(|s| hex(s)).collect::<Vec<_>>().join(",")
    }
}

fn win(w: &WindowSpec) -> String {
    let t = match w.window_type {
        WindowType::Sliding => "s",
        WindowType::Tumbling => "t",
        _ => "o",
    };
    format!("{}{}", w.duration.as_millis(), t)
}
fn spat(p: &StreamPattern) -> String {
    format!(
        "{} {} {} {}",
        hex(&p.var_name),
        p.event_type.as_deref().map(hex).unwrap_or_else(|| "-".into()),
        hex(&p.source.stream_name),
        p.source.window.as_ref().map(win).unwrap_or_else(|| "-".into())
    )
}
/// `ok <bytes left> <detail>` | `err` for a nom result
fn nomres<T, E>(r: Result<(&str, T), E>, f: impl Fn(&T) -> String) -> String {
    match r {
        Ok((rest, v)) => format!("ok {} {}", rest.len(), f(&v)),
        Err(_) => "err".into(),
    }
}
fn hx0(s: &str) -> String {
    if s.is_empty() { "-".into() } else { hex(s) }
}

pub const WRAP_PN: (&str, &str) = ("rule \"", "\" { when X == 1 then Y = 1; }");
pub const WRAP_AC: (&str, &str) = ("rule \"r\" { when accumulate(", ") then Y = 1; }");
pub const WRAP_MC: &str = "rule \"r\" { when X == 1 then Y = 1; }";
pub const WRAP_AT: (&str, &str) = ("rule \"r\" ", " { when X == 1 then Y = 1; }");
pub const WRAP_RV: (&str, &str) = ("rule \"r\" { when X == ", " then Y = 1; }");
pub const WRAP_RA: (&str, &str) = ("rule \"r\" { when X == 1 then Y = ", "; }");
pub const WRAP_W: (&str, &str) = ("rule \"r\" { when ", " then Y = 1; }");
pub const WRAP_FN: (&str, &str) = ("rule \"r\" { when X == 1 then ", "; }");
pub const WRAP_WF: (&str, &str) = ("rule \"r\" { when X == 1 then SetWorkflowData(\"", "\"); }");
pub const WRAP_WG: (&str, &str) = ("rule \"r\" { when X == 1 then set_workflow_data(\"", "\"); }");

/// the fixed facts `evaluate_expression` is driven with (the driver's `vFacts` is the same table): flat keys,
/// integer corner values, a float, a float zero, strings, a non-numeric variant
fn v_facts() -> Facts {
    let f = Facts::new();
    f.set("Z", Value::Integer(0));
    f.set("I", Value::Integer(7));
    f.set("M", Value::Integer(i64::MIN));
    f.set("MX", Value::Integer(i64::MAX));
    f.set("N1", Value::Integer(-1));
    f.set("F", Value::Number(2.5));
    f.set("FZ", Value::Number(0.0));
    f.set("S", Value::String("x".into()));
    f.set("SN", Value::String("12".into()));
    f.set("SZ", Value::String("0".into()));
    f.set("B", Value::Boolean(true));
    f.set("Order.quantity", Value::Integer(10));
    f.set("Order.none", Value::Integer(0));
    f
}

/// arithmetic corner operands for `evaluate_expression` (both streams)
const ARITH_TOK: [&str; 56] = [
    "% 0", "/ 0", "0 % 0", "0", "1", "7", "-1", "* -1", "+ 1", "- 1", "9223372036854775807", "9223372036854775808",
    "-9223372036854775808", "1e308", "* 10", "1e308 * 10", "99999999999999999999999999999999999999", "0.0", "-0", "0e5", "00",
    "1e-400", "0.000", ".0", "2.5", "inf", "NaN", "Z", "I", "M", "MX", "N1", "F", "FZ", "S", "SN", "SZ", "B", "Order.quantity",
    "Order.none", "Nope", "%", "/", "*", "+", "-", " ", "\"3\"", "'0'", "\"x\"", "\"\"", "(", ")", "Z % Z", "M % N1", "M / N1",
];
const ARITH_OPERANDS: [&str; 22] = [
    "0", "1", "7", "9223372036854775807", "9223372036854775808", "0.0", "2.5", "1e308", "Z", "I", "M", "MX", "N1", "F", "FZ", "S", "SN",
    "SZ", "B", "Order.none", "\"0\"", "'a'",
];
fn arith(rng: &mut Rng) -> String {
    match rng.below(3) {
        0 => {
            // a op b [op c]
            let mut s = format!("{} {} {}", rng.pick(&ARITH_OPERANDS), rng.pick(&["+", "-", "*", "/", "%"]), rng.pick(&ARITH_OPERANDS));
            if rng.chance(1, 2) {
                s = format!("{} {} {}", s, rng.pick(&["+", "-", "*", "/", "%"]), rng.pick(&ARITH_OPERANDS));
            }
            s
        }
        _ => pick_soup(rng, &ARITH_TOK, 8, true),
    }
}

/// every entry: the real code through its public API; returns the observation (panics propagate)
fn run_entry(e: &str, s: &str) -> String {
    match e {
        // ---- the seven entry points of the property
        "R" => match GRLParser::parse_rules(s) {
            Ok(rs) => format!("ok {}", rs.len()),
            Err(_) => "err".into(),
        },
        "M" => match GRLParser::parse_with_modules(s) {
            Ok(p) => format!("ok {}", p.rules.len()),
            Err(_) => "err".into(),
        },
        "Q" => match QueryParser::parse(s) {
            Ok(g) => format!(
                "ok {} {}",
                g.is_negated as u8,
                g.expression.as_ref().map(ast).unwrap_or_else(|| "-".into())
            ),
            Err(_) => "err".into(),
        },
        "X" => match ExpressionParser::parse(s) {
            Ok(x) => format!("ok {}", ast(&x)),
            Err(_) => "err".into(),
        },
        "G" => match GRLQueryParser::parse(s) {
            Ok(q) => format!("ok {} {} {}", hex(&q.goal), q.max_depth, q.max_solutions),
            Err(_) => "err".into(),
        },
        // the twin of `Q`: QueryParser::validate (parse, result dropped)
        "QV" => match QueryParser::validate(s) {
            Ok(()) => "ok".into(),
            Err(_) => "err".into(),
        },
        "S" => nomres(parse_stream_pattern(s), spat),
        "V" => match evaluate_expression(s, &v_facts()) {
            Ok(_) => "ok".into(),
            Err(_) => "err".into(),
        },
        // ---- further public functions that reach modelled kernels
        "GQ" => match GRLQueryParser::parse_queries(s) {
            Ok(qs) => format!("ok {}", hexlist(&qs.iter().map(|q| q.goal.clone()).collect::<Vec<_>>())),
            Err(_) => "err".into(),
        },
        "D" => match DisjunctionParser::parse(s) {
            Some(d) => format!("ok {}", hexlist(&d.branches.iter().map(|g| g.pattern.clone()).collect::<Vec<_>>())),
            None => "ok none".into(),
        },
        "DC" => format!("ok {}", DisjunctionParser::contains_or(s) as u8),
        "A" => match parse_aggregate_query(s) {
            Ok(q) => {
                let f = match &q.function {
                    AggregateFunction::Count => "count".to_string(),
                    AggregateFunction::Sum(v) => format!("sum:{}", hex(v)),
                    AggregateFunction::Avg(v) => format!("avg:{}", hex(v)),
                    AggregateFunction::Min(v) => format!("min:{}", hex(v)),
                    AggregateFunction::Max(v) => format!("max:{}", hex(v)),
                    AggregateFunction::First => "first".to_string(),
                    AggregateFunction::Last => "last".to_string(),
                };
                format!("ok {} {} {}", f, hex(&q.pattern), q.filter.as_deref().map(hex).unwrap_or_else(|| "none".into()))
            }
            Err(_) => "err".into(),
        },
        "NH" => format!("ok {}", NestedQueryParser::has_nested(s) as u8),
        "NP" => {
            let q = NestedQueryParser::parse(s);
            format!("ok {}", hexlist(&q.goals.iter().map(|g| g.pattern.clone()).collect::<Vec<_>>()))
        }
        // parse_value reached through a condition value / an assignment value / a when clause
        "RV" => match GRLParser::parse_rules(&format!("{}{}{}", WRAP_RV.0, s, WRAP_RV.1)) {
            Ok(rs) => match rs.first().map(|r| &r.conditions) {
                Some(ConditionGroup::Single(c)) if rs.len() == 1 => format!("ok {}", val(&c.value)),
                _ => format!("ok other{}", rs.len()),
            },
            Err(_) => "err".into(),
        },
        "RA" => match GRLParser::parse_rules(&format!("{}{}{}", WRAP_RA.0, s, WRAP_RA.1)) {
            Ok(rs) => match rs.first().map(|r| r.actions.as_slice()) {
                Some([ActionType::Set { value, .. }]) if rs.len() == 1 => format!("ok {}", val(value)),
                _ => format!("ok other{}", rs.len()),
            },
            Err(_) => "err".into(),
        },
        "W" => match GRLParser::parse_rules(&format!("{}{}{}", WRAP_W.0, s, WRAP_W.1)) {
            Ok(rs) => format!("ok {}", rs.len()),
            Err(_) => "err".into(),
        },
        // ---- the stream-pattern grammar (nom): every public parser of stream_syntax.rs
        "SJ" => nomres(parse_stream_join_pattern(s), |j| format!("{} {}", spat(&j.left), spat(&j.right))),
        "SC" => nomres(parse_join_condition(s), |c| match c {
            JoinCondition::Equality { left_field, right_field } => format!("eq {} {}", hex(left_field), hex(right_field)),
            JoinCondition::Expression(e) => format!("ex {}", hex(e)),
            JoinCondition::Temporal { operator, left_field, right_field } => format!(
                "{} {} {}",
                match operator {
                    TemporalOp::Before => "before",
                    TemporalOp::After => "after",
                    TemporalOp::Within => "within",
                },
                hex(left_field),
                hex(right_field)
            ),
        }),
        "SD" => nomres(parse_duration(s), |d| format!("{}", d.as_millis())),
        "SW" => nomres(parse_window_spec(s), win),
        "SS" => nomres(parse_stream_source(s), |x| {
            format!("{} {}", hex(&x.stream_name), x.window.as_ref().map(win).unwrap_or_else(|| "-".into()))
        }),
        "ST" => nomres(parse_window_type(s), |t| match t {
            WindowType::Sliding => "s".to_string(),
            WindowType::Tumbling => "t".to_string(),
            _ => "o".to_string(),
        }),
        // ---- strip_comments -> mask_string_literals -> clean_text -> unmask, observed through the error
        // message of parse_rule on a text that is not a rule ("Invalid GRL rule format. Input: <unmasked>")
        "PU" => match GRLParser::parse_rule(s) {
            Ok(r) => format!("ok {}", hx0(&r.name)),
            Err(RuleEngineError::ParseError { message }) => format!("err {}", hx0(&message)),
            Err(_) => "err other".into(),
        },
        // the rule name goes through mask (table entry) and unmask (table lookup)
        "PN" => match GRLParser::parse_rule(&format!("{}{}{}", WRAP_PN.0, s, WRAP_PN.1)) {
            Ok(r) => format!("ok {}", hx0(&r.name)),
            Err(_) => "err".into(),
        },
        // parse_accumulate_condition / split_accumulate_parts / parse_accumulate_pattern / _function
        "AC" => match GRLParser::parse_rules(&format!("{}{}{}", WRAP_AC.0, s, WRAP_AC.1)) {
            Ok(rs) => match rs.first().map(|r| &r.conditions) {
                Some(ConditionGroup::Accumulate { source_pattern, extract_field, source_conditions, function, function_arg, .. })
                    if rs.len() == 1 =>
                {
                    format!(
                        "ok {} {} {} {} {}",
                        hx0(source_pattern),
                        hx0(extract_field),
                        hexlist(source_conditions),
                        hx0(function),
                        hx0(function_arg)
                    )
                }
                _ => format!("ok other{}", rs.len()),
            },
            Err(_) => "err".into(),
        },
        // the SetWorkflowData("key=value") / set_workflow_data(..) branch of parse_action_statement: the one text that is unmasked twice
        "WF" | "WG" => {
            let w = if e == "WF" { WRAP_WF } else { WRAP_WG };
            match GRLParser::parse_rules(&format!("{}{}{}", w.0, s, w.1)) {
                Ok(rs) => match rs.first().map(|r| r.actions.as_slice()) {
                    Some([ActionType::SetWorkflowData { key, value }]) if rs.len() == 1 => format!("ok {} {}", hx0(key), val(value)),
                    _ => format!("ok other{}", rs.len()),
                },
                Err(_) => "err".into(),
            }
        }
        // parse_action_statement: ONE statement of the then part of a fixed rule; the function name goes through
        // `function_name.to_lowercase()` and a keyword match (no prediction: oracle only)
        "FN" => match GRLParser::parse_rules(&format!("{}{}{}", WRAP_FN.0, s, WRAP_FN.1)) {
            Ok(rs) => match rs.first().map(|r| r.actions.as_slice()) {
                Some([a]) if rs.len() == 1 => {
                    let d = format!("{:?}", a);
                    format!("ok {}", d.split(|c: char| !c.is_ascii_alphanumeric()).next().unwrap_or("?"))
                }
                Some(xs) => format!("ok other{}x{}", rs.len(), xs.len()),
                None => "ok other0".into(),
            },
            Err(_) => "err".into(),
        },
        // extract_module_from_context: <prefix> + one fixed rule through parse_with_modules
        "MC" => match GRLParser::parse_with_modules(&format!("{}{}", s, WRAP_MC)) {
            Ok(p) => {
                let mut v: Vec<String> = p.rule_modules.iter().map(|(k, m)| format!("{}={}", hx0(k), hx0(m))).collect();
                v.sort();
                format!("ok {}", if v.is_empty() { "-".to_string() } else { v.join(",") })
            }
            Err(_) => "err".into(),
        },
        // parse_rule_attributes: the attribute section of a fixed rule
        "AT" => match GRLParser::parse_rule(&format!("{}{}{}", WRAP_AT.0, s, WRAP_AT.1)) {
            Ok(r) => format!("ok {}{}", r.no_loop as u8, r.lock_on_active as u8),
            Err(_) => "err".into(),
        },
        _ => run_entry3(e, s),
    }
}

// ------------------------------------------------------------------------------------------------
// third group of kernel entries (Model3.lean): WT, NV, FA, MA, IM
// ------------------------------------------------------------------------------------------------
pub const WRAP_FA: (&str, &str) = ("rule \"r\" { when X == 1 then foo(", "); }");
pub const WRAP_MA: (&str, &str) = ("rule \"r\" { when X == 1 then $Obj.set(", "); }");
pub const WRAP_IM: (&str, &str) = ("defmodule A { export: all }\ndefmodule B { import: ", " }");

/// the shape of a `ConditionGroup`: what `parse_when_clause` built (leaves are opaque)
fn cg_shape(g: &ConditionGroup) -> String {
    use rust_rule_engine::types::LogicalOperator;
    match g {
        ConditionGroup::Single(_) => "L".into(),
        ConditionGroup::Compound { left, operator, right } => format!(
            "{}({},{})",
            match operator {
                LogicalOperator::And => "A",
                LogicalOperator::Or => "O",
                LogicalOperator::Not => "X",
            },
            cg_shape(left),
            cg_shape(right)
        ),
        ConditionGroup::Not(x) => format!("N({})", cg_shape(x)),
        ConditionGroup::Exists(x) => format!("E({})", cg_shape(x)),
        ConditionGroup::Forall(x) => format!("F({})", cg_shape(x)),
        ConditionGroup::Accumulate { .. } => "C".into(),
        _ => "S".into(),
    }
}

fn vals(vs: &[Value]) -> String {
    format!("{} {}", vs.len(), if vs.is_empty() { "-".to_string() } else { vs.iter().map(val).collect::<Vec<_>>().join(";") })
}

/// positional parameters `"0", "1", …` of a custom action, in order
fn params_vals(params: &std::collections::HashMap<String, Value>) -> String {
    let mut vs = Vec::new();
    for i in 0..params.len() {
        match params.get(&i.to_string()) {
            Some(v) => vs.push(v.clone()),
            None => return "gap".into(),
        }
    }
    vals(&vs)
}

fn run_entry3(e: &str, s: &str) -> String {
    match e {
        // parse_when_clause: the tree it builds (recursion through parentheses, || / &&, !, exists(, forall()
        "WT" => match GRLParser::parse_rules(&format!("{}{}{}", WRAP_W.0, s, WRAP_W.1)) {
            Ok(rs) if rs.len() == 1 => format!("ok {}", cg_shape(&rs[0].conditions)),
            Ok(rs) => format!("ok other{}", rs.len()),
            Err(_) => "err".into(),
        },
        // Query::variables / extract_variables (nested.rs): the chars[i] loops
        "NV" => format!("ok {}", hexlist(&NestedQueryParser::parse(s).variables())),
        // parse_function_args_as_params: positional parameters of a custom action
        "FA" => match GRLParser::parse_rules(&format!("{}{}{}", WRAP_FA.0, s, WRAP_FA.1)) {
            Ok(rs) => match rs.first().map(|r| r.actions.as_slice()) {
                Some([ActionType::Custom { action_type, params }]) if rs.len() == 1 && action_type == "foo" => {
                    format!("ok {}", params_vals(params))
                }
                _ => format!("ok other{}", rs.len()),
            },
            Err(_) => "err".into(),
        },
        // parse_method_args: arguments of `$Obj.set(..)`
        "MA" => match GRLParser::parse_rules(&format!("{}{}{}", WRAP_MA.0, s, WRAP_MA.1)) {
            Ok(rs) => match rs.first().map(|r| r.actions.as_slice()) {
                Some([ActionType::MethodCall { object, method, args }]) if rs.len() == 1 && object == "Obj" && method == "set" => {
                    format!("ok method {}", vals(args))
                }
                // what the code does at present: METHOD_CALL_REGEX never matches, the statement falls through to the
                // function-call branch and becomes a custom action named after the method
                Some([ActionType::Custom { action_type, params }]) if rs.len() == 1 && action_type == "set" => {
                    format!("ok custom {}", params_vals(params))
                }
                _ => format!("ok other{}", rs.len()),
            },
            Err(_) => "err".into(),
        },
        // parse_import_spec through parse_with_modules: the imports of module B
        "IM" => match GRLParser::parse_with_modules(&format!("{}{}{}", WRAP_IM.0, s, WRAP_IM.1)) {
            Ok(p) => match p.module_manager.get_module("B") {
                Ok(m) => {
                    use rust_rule_engine::engine::module::ImportType;
                    let v: Vec<String> = m
                        .get_imports()
                        .iter()
                        .map(|d| {
                            format!(
                                "{}:{}",
                                hx0(&d.from_module),
                                match d.import_type {
                                    ImportType::AllRules => "r",
                                    ImportType::AllTemplates => "t",
                                    _ => "o",
                                }
                            )
                        })
                        .collect();
                    format!("ok {}", if v.is_empty() { "-".to_string() } else { v.join(",") })
                }
                Err(_) => "ok nomodule".into(),
            },
            Err(_) => "err".into(),
        },
        _ => "bad-entry".into(),
    }
}

const WT_LEAF: [&str; 14] = [
    "X == 1", "A.b > 2", "Y != 3", "é == 1", "U.name == n", "Z<=4", "x", "", "Q.items count > 0", "f(a) == 1", "A.b + 1 > 2",
    "exists(X == 1)", "forall(A.b > 2)", "B contains c",
];
const WT_TOK: [&str; 30] = [
    "(", ")", "((", "))", "&&", "||", "!", "exists(", "forall(", " ", "X == 1", "A.b > 2", "é", "\u{a0}", "&", "|", "( ", " )", "!(",
    "Y != 3", "()", "!!", "exists", "(X == 1)", ") && (", ") || (", "x", "1", "\u{3000}", "!exists(",
];
/// a random when clause: a tree of || / && / ! / exists( / forall( / parentheses (doubled, padded) over short leaves
fn wt_tree(rng: &mut Rng, depth: u64) -> String {
    if depth == 0 || rng.chance(1, 4) {
        return rng.pick(&WT_LEAF).to_string();
    }
    let sp = |rng: &mut Rng| if rng.chance(1, 6) { rng.pick(&UWS_MAIN).to_string() } else if rng.chance(1, 2) { " ".to_string() } else { String::new() };
    match rng.below(8) {
        0 | 1 => {
            let n = rng.range(2, 3);
            let op = if rng.chance(1, 2) { "&&" } else { "||" };
            let parts: Vec<String> = (0..n).map(|_| { let t = wt_tree(rng, depth - 1); if rng.chance(1, 2) { format!("({})", t) } else { t } }).collect();
            parts.join(&format!("{}{}{}", sp(rng), op, sp(rng)))
        }
        2 => format!("({}{}{})", sp(rng), wt_tree(rng, depth - 1), sp(rng)),
        3 => format!("(({}))", wt_tree(rng, depth - 1)),
        4 => format!("!{}{}", sp(rng), wt_tree(rng, depth - 1)),
        5 => format!("!({})", wt_tree(rng, depth - 1)),
        6 => format!("exists({}{})", sp(rng), wt_tree(rng, depth - 1)),
        _ => format!("forall({})", wt_tree(rng, depth - 1)),
    }
}

const NV_TOK: [&str; 26] = [
    "?", "?x", "?y", "?é", "?_a1", "??", "?٣", " WHERE ", " AND ", "p(", ")", ",", " ", "g(?z)", "q(?y, ?x)", "(", "é", "\u{a0}", "_", "1",
    "?x?y", "WHERE", "?日本", "? ", "\u{1}", "?x_",
];
const ARG_TOK: [&str; 36] = [
    "1", "-5", "2.5", "true", "null", "A.b", "x", ",", ", ", " ,", ",,", " ", "é", "\u{a0}", "+", "-", "*", "/", "a + 1", "[1", "2]", "[", "]",
    "9223372036854775808", "日", "\u{3000}", "$v", "a.b.c", "1e5", "+1", "x y", "\t", "0", "_", "%", "99999999999999999999",
];
const IM_TOK: [&str; 24] = [
    "A", "B", "MAIN", "C", "(", ")", "rules", "templates", "*", " ", "(rules *)", "(templates t)", "rule", "é", "\u{a0}", "((", "rules(", "A (",
    "MAIN (rules * (templates x))", "a", "_", "import", ":", "\t",
];

/// generated cases for the third group of entries (fixed counts; runs after every older stream, which keeps their cases unchanged)
fn gen3(rng: &mut Rng, out: &mut Vec<String>) {
    // every nesting form of parse_when_clause, once each, at depth 1..3 around a leaf
    for inner in ["X == 1", "X == 1 && Y != 3", "X == 1 || Y != 3"] {
        let mut forms: Vec<String> = vec![inner.to_string()];
        for _ in 0..3 {
            let mut next = Vec::new();
            for f in &forms {
                for (a, b) in [("(", ")"), ("((", "))"), ("!", ""), ("!(", ")"), ("exists(", ")"), ("forall(", ")"), (" ( ", " ) "), ("(", ") && Z<=4"), ("Z<=4 || (", ")")] {
                    next.push(format!("{}{}{}", a, f, b));
                }
            }
            for f in next.iter().take(60) {
                out.push(mk_case("WT", f));
            }
            forms = next.into_iter().take(12).collect();
        }
    }
    for _ in 0..450 {
        let s = match rng.below(4) {
            0 => pick_soup(rng, &WT_TOK, 8, false),
            _ => { let d = rng.range(1, 5); wt_tree(rng, d) }
        };
        // F-C05h: keep every leaf short (the whole clause is at most a few short leaves; a soup is at most 8 tokens)
        let s: String = if s.len() > 160 { s.chars().take(80).collect() } else { s };
        out.push(mk_case("WT", &s));
    }
    for _ in 0..600 {
        out.push(mk_case("NV", &pick_soup(rng, &NV_TOK, 10, false)));
    }
    for e in ["FA", "MA"] {
        for _ in 0..350 {
            let s = pick_soup(rng, &ARG_TOK, 7, false);
            out.push(mk_case(e, &s));
        }
    }
    for _ in 0..350 {
        let s = if rng.chance(1, 2) {
            // `<source module> ( <what> …`: the shape parse_import_spec is written for
            format!("{}{}({}", rng.pick(&["A", "MAIN", "B", "C", " A", "A\u{a0}", "\u{3000}MAIN ", "é"]), rng.pick(&["", " ", "\t"]), pick_soup(rng, &IM_TOK, 4, true))
        } else {
            pick_soup(rng, &IM_TOK, 6, true)
        };
        out.push(mk_case("IM", &s));
    }
}

const SEVEN: [&str; 7] = ["R", "M", "Q", "X", "G", "S", "V"];
/// entries whose observation the Lean model predicts (see Driver/C05.lean)
const MODELLED: [&str; 27] = [
    "X", "Q", "V", "D", "DC", "G", "GQ", "A", "NH", "NP", "RV", "RA", "S", "SJ", "SC", "SD", "SW", "SS", "ST", "PU", "PN", "AC", "MC",
    "AT", "QV", "WF", "WG",
];
/// whole-rule entries without a prediction (oracle only): parse_rules, parse_with_modules, a when clause through parse_rules;
/// parse_rule on a whole rule is `PU` (predicted `-` as soon as the text contains `rule`)
const WHOLE: [&str; 4] = ["R", "M", "PU", "W"];

/// a token of `xs`; one in ten is a Unicode white space character or a look-alike separator instead (every alphabet has them)
fn pick_u<'a>(rng: &mut Rng, xs: &[&'a str]) -> &'a str {
    if rng.chance(1, 14) {
        // a character whose case mapping changes length (every token alphabet has them)
        return pick_case(rng);
    }
    if rng.chance(1, 10) {
        if rng.chance(2, 3) { *rng.pick(&UWS) } else { *rng.pick(&USEP) }
    } else {
        *rng.pick(xs)
    }
}

fn pick_soup(rng: &mut Rng, toks: &[&str], max: u64, space: bool) -> String {
    let mut s = String::new();
    for _ in 0..rng.range(0, max) {
        s.push_str(pick_u(rng, toks));
        if space && rng.chance(1, 3) {
            s.push(' ');
        }
    }
    s
}

/// text with placeholder-looking pieces (`U+0001 <digits> U+0002`), quotes, comments, line breaks
const MASK_TOK: [&str; 40] = [
    "\u{1}", "\u{2}", "0", "1", "2", "5", "+", "+0", "00", "99999999999999999999", "18446744073709551615", "18446744073709551616",
    "\"", "'", "\n", "\r\n", "a", " ", "é", "日", "\u{a0}", "//", "/*", "*/", "/", "*", "\"ab\"", "'c'", "\"\"", "\u{1}0\u{2}", "\u{1}1\u{2}",
    "\u{1}2\u{2}", "\u{1}\u{1}", "\u{1}x\u{2}", "x y", "\"é\u{1}\"", "'\u{1}0\u{2}'", "-", "\t", "\"//\"",
];
const ACC_TOK: [&str; 36] = [
    "Order", "(", ")", ",", "$amount", ":", "amount", "status", "==", "\"completed\"", "'x,y'", "sum", "count", " ", "é", "日", "$", ">",
    "<", "!=", ">=", "\"", "'", "\u{1}0\u{2}", "\u{1}", "a", "\u{a0}", "1", "()", "($a: a)", "sum($a)", "$é:", "\"a)b\"", "((", "))", ", ",
];
const ACC_BASE: [&str; 4] = [
    "Order($amount: amount, status == \"completed\"), sum($amount)",
    "Order($a: a), count()",
    "Évén($x: é, y > 1, z != 'q,r'), average($x)",
    " T ( $v : f , g <= 2 ) , min( $v ) ",
];
const MC_TOK: [&str; 18] = [
    ";; MODULE:", ";; MODULE: ", ";;", "MODULE:", " ", "\n", "SENSORS", "- x", "é", "日", "\u{a0}", "A", ";", ":", "\t", "\u{1}", "\r", "\u{3000}",
];
const AT_TOK: [&str; 22] = [
    "no-loop", "lock-on-active", "rule", "rule x", "salience 5", "agenda-group \"g\"", "\"no-loop\"", "x", "-", " ", "_", "é", "\"",
    "activation-group \"a b\"", "no-loop1", "xno-loop", "rulelock-on-active", "no-loop-", "\"rule\"", "true", "lock-on-active,", "\u{1}0\u{2}",
];
/// the body of the literal of `SetWorkflowData("…")`: key, `=`, value forms, placeholder-looking pieces (no `"`, no line break)
const WF_TOK: [&str; 34] = [
    "k", "=", "v", " ", "1", "true", "null", "A.b", "+", "[", "]", ",", "'", "é", "\u{a0}", "\u{1}0\u{2}", "\u{1}1\u{2}", "\u{1}2\u{2}", "\u{1}7\u{2}",
    "\u{1}", "\u{2}", "0", "99999999999999999999", ";", ")", "(", "}", "-5", "2.5", "x y", "stage", "\u{1}18446744073709551616\u{2}", "//", "日",
];
/// one statement of a then part: every keyword of parse_action_statement (the name is matched after `to_lowercase()`)
const FN_BASE: [&str; 12] = [
    "Log(\"msg 1\")", "SetWorkflowData(\"k=v\")", "set_workflow_data(\"k 1=v w\")", "CompleteWorkflow(\"wf\")", "complete_workflow('w')",
    "ActivateAgendaGroup(\"g\")", "activate_agenda_group(\"g\")", "ScheduleRule(5000, \"n\")", "Retract($User)", "update($Car)",
    "sendEmail(\"a@b\", 'Hi there', 3)", "$Car.setSpeed($Car.Speed + 1)",
];
const FN_TOK: [&str; 40] = [
    "Log", "log", "LOG", "SetWorkflowData", "set_workflow_data", "SETWORKFLOWDATA", "CompleteWorkflow", "complete_workflow", "ActivateAgendaGroup",
    "activate_agenda_group", "ScheduleRule", "schedule_rule", "Retract", "retract", "update", "f", "(", ")", "(\"k=v\")", "(\"a\")", "($X)", "(1, \"n\")",
    "$", ".", "_", " ", "\"", "'", ",", "1", "Set", "Workflow", "Data", "Wor", "flow", "Sched", "le", "Act", "vate", "é",
];
const STREAM_TOK: [&str; 30] = [
    "ev", ":", " ", "T", "from", "stream", "(", ")", "\"", "s", "over", "window", ",", "5", "min", "hours", "ms", "sliding", "tumbling",
    "18446744073709551615", "307445734561825861", "é", "\u{a0}", "sec", "\n", "_", "99999999999999999999", "&&", "\t", "from stream(\"s\")",
];
const DUR_TOK: [&str; 24] = [
    "5", " ", "min", "ms", "hours", "hour", "sec", "seconds", "minutes", "milliseconds", "18446744073709551615", "18446744073709551616",
    "307445734561825860", "307445734561825861", "5124095576030431", "5124095576030432", "x", "é", "\t", "0", "007", "\n", "Min", "٣",
];
const JOIN_TOK: [&str; 20] = [
    "a", ".", "b", "time", "==", "!=", "<=", ">=", "<", ">", " ", "_", "é", "1", "x.y", "ts.time", "=", "\t", "٣", "a.b",
];
const STREAM_BASE: [&str; 6] = [
    "event: EventType from stream(\"events\") over window(5 min, sliding)",
    "reading : T from stream( \"s\" ) over window(18446744073709551615 hours, tumbling)",
    "e: from stream(\"x\")",
    "é٣_: Ünï from stream(\"日 本\")over window(307445734561825860 min,tumbling) tail",
    "a: A from stream(\"s\") over window(1 ms, sliding) && b: B from stream(\"t\")",
    "  from   stream  (  \"sensor-data\"  )  over window( 30 seconds , sliding ) ",
];


fn cls_of(s: &str) -> String {
    let mut cs: Vec<char> = s.chars().filter(|c| !c.is_ascii()).collect();
    cs.sort();
    cs.dedup();
    if cs.is_empty() {
        return "-".into();
    }
    cs.iter()
        .map(|c| {
            let f = (c.is_whitespace() as u8) + 2 * (c.is_alphabetic() as u8) + 4 * (c.is_numeric() as u8);
            format!("{:x}:{}", *c as u32, f)
        })
        .collect::<Vec<_>>()
        .join(",")
}

fn mk_case(e: &str, s: &str) -> String {
    format!("{} {} {}", e, hex(s), cls_of(s))
}

fn exec(case: &str) -> String {
    let t: Vec<&str> = case.split_whitespace().collect();
    if t.len() != 3 {
        return "bad-case".into();
    }
    let Some(s) = unhex(t[1]) else { return "bad-case".into() };
    run_entry(t[0], &s)
}

// ------------------------------------------------------------------------------------------------
// generators
// ------------------------------------------------------------------------------------------------
const MB: [&str; 30] = [
    "é", "ß", "日", "本", "😀", "²", "٣", "\u{a0}", "\u{3000}", "\u{2028}", "ñ", "Ω", "\u{fffd}", "\u{85}", "\u{2003}", "\u{1680}", "\u{202f}",
    "\u{2029}", "\u{200b}", "\u{feff}", "（", "）", "＂", "＝", "＆", "｜", "！", "，", "\u{b}", "\u{c}",
];
/// characters whose CASE MAPPING changes the UTF-8 length or the number of chars (std's `str::to_lowercase` / `to_uppercase` are not
/// length preserving): byte offsets found in a case-folded copy do not fit the original text.
/// to_lowercase changers: KELVIN SIGN (3 -> 1 byte, the only non-ASCII char whose lower case is ASCII), OHM SIGN, ANGSTROM SIGN, CAPITAL
/// SHARP S (3 -> 2), A / T WITH STROKE (2 -> 3), I WITH DOT ABOVE (2 -> 3, two chars);
/// to_uppercase changers: sharp s (-> "SS"), n preceded by apostrophe, j with caron, iota with dialytika and tonos (2 -> 6), the fi / ffi /
/// st ligatures, dotless i and long s (2 -> 1, upper case is ASCII), small a / t with stroke (3 -> 2), h with line below, alpha with
/// psili and ypogegrammeni (3 -> 5), Armenian ech-yiwn; title-case digraph; and the context-dependent final sigma (`ΑΣ` -> `ας`, `ΑΣΑ` -> `ασα`)
const CASE_LOWER: [&str; 7] = ["\u{212A}", "\u{2126}", "\u{212B}", "\u{1E9E}", "\u{23A}", "\u{23E}", "\u{130}"];
const CASE_UPPER: [&str; 15] = [
    "\u{df}", "\u{149}", "\u{1f0}", "\u{390}", "\u{fb01}", "\u{fb03}", "\u{fb06}", "\u{131}", "\u{17f}", "\u{2c65}", "\u{2c66}", "\u{1e96}", "\u{1f80}",
    "\u{587}", "\u{1c5}",
];
const CASE_CTX: [&str; 5] = ["\u{391}\u{3a3}", "\u{391}\u{3a3}\u{391}", "\u{3a3}", "\u{130}L\u{130}", "\u{212A}\u{23A}"];
fn case_chars() -> Vec<&'static str> {
    CASE_LOWER.iter().chain(CASE_UPPER.iter()).chain(CASE_CTX.iter()).copied().collect()
}
fn pick_case(rng: &mut Rng) -> &'static str {
    match rng.below(5) {
        0 | 1 => *rng.pick(&CASE_LOWER),
        2 | 3 => *rng.pick(&CASE_UPPER),
        _ => *rng.pick(&CASE_CTX),
    }
}
/// a multi-byte character for splicing / soups: one in three is a length-changing case-mapping character
fn pick_mb(rng: &mut Rng) -> &'static str {
    if rng.chance(1, 3) { pick_case(rng) } else { *rng.pick(&MB) }
}
/// the assumption under which the model's ASCII-only `lowerAscii` is EXACT for `name.to_lowercase() == <ASCII keyword>`: the only
/// non-ASCII scalar value whose `to_lowercase()` is pure ASCII is KELVIN SIGN U+212A (-> `k`); the aggregate function names
/// (count sum avg min max first last) contain no `k`, so a name with a non-ASCII char never folds to one of them. Checked against
/// std's tables on every run of `gen` (a std upgrade that breaks it makes the check BROKEN, not quietly wrong).
fn assert_casefold_assumption() {
    for cp in 0x80u32..=0x10FFFF {
        if let Some(c) = char::from_u32(cp) {
            if c != '\u{212A}' && c.to_lowercase().all(|l| l.is_ascii()) {
                panic!("casefold assumption violated: U+{:04X} lower-cases to ASCII", cp);
            }
        }
    }
    for w in ["count", "sum", "avg", "min", "max", "first", "last"] {
        assert!(!w.contains('k'));
    }
}
/// white space other than blank / tab / line break: multi-byte Unicode White_Space (char::is_whitespace: NBSP, NEL, EM SPACE,
/// IDEOGRAPHIC SPACE, LINE/PARAGRAPH SEPARATOR, OGHAM SPACE MARK, THIN SPACE, NARROW NBSP, MEDIUM MATHEMATICAL SPACE) and the ASCII VT / FF
/// (white space for `trim`, not for the regex engine's `\s` nor for nom's multispace)
const UWS: [&str; 12] =
    ["\u{a0}", "\u{85}", "\u{2003}", "\u{3000}", "\u{2028}", "\u{2029}", "\u{1680}", "\u{2009}", "\u{202f}", "\u{205f}", "\u{b}", "\u{c}"];
/// the four the seeded change names: 2-byte and 3-byte white space
const UWS_MAIN: [&str; 4] = ["\u{a0}", "\u{85}", "\u{2003}", "\u{3000}"];
/// multi-byte characters that LOOK like white space or like ASCII syntax but are neither: ZERO WIDTH SPACE, BOM / ZWNBSP, WORD JOINER,
/// MONGOLIAN VOWEL SEPARATOR, fullwidth parentheses / quotes / operators / separators
const USEP: [&str; 20] = [
    "\u{200b}", "\u{feff}", "\u{2060}", "\u{180e}", "（", "）", "＂", "＇", "＝", "＆", "｜", "！", "＋", "，", "；", "：", "｛", "｝", "＜", "．",
];
/// numbers at and beyond every integer width the parsers convert to (i32 / i64 / u64 = usize / f64), leading zeros, absurd lengths
const NUMS: [&str; 20] = [
    "0", "00", "007", "2147483647", "2147483648", "4294967295", "4294967296", "9223372036854775807", "9223372036854775808",
    "18446744073709551615", "18446744073709551616", "18446744073709551617", "99999999999999999999", "999999999999999999999999999999",
    "340282366920938463463374607431768211456", "00000000000000000000000000000000000007", "000000000000000000018446744073709551615",
    "000000000000000000018446744073709551616", "1", "10",
];
/// placeholder-looking text (`MASK_START <index> MASK_END`) to be put INSIDE string literals: indices inside / beyond the table,
/// beyond usize, signed, zero-padded, empty, unterminated, nested
const PH: [&str; 16] = [
    "\u{1}0\u{2}", "\u{1}1\u{2}", "\u{1}2\u{2}", "\u{1}7\u{2}", "\u{1}99\u{2}", "\u{1}18446744073709551615\u{2}", "\u{1}18446744073709551616\u{2}",
    "\u{1}99999999999999999999999999999\u{2}", "\u{1}\u{2}", "\u{1}", "\u{2}", "\u{1}+1\u{2}", "\u{1}-1\u{2}", "\u{1}007\u{2}", "\u{1}3", "\u{1}1\u{1}9\u{2}\u{2}",
];
const EXPR_TOK: [&str; 50] = [
    "User.Age", "X", "a", "b1", "_x", "Order.Total", "true", "false", "null", "0", "1", "42", "3.14", "-7", "1.", "-", ".",
    "9223372036854775808", "==", "!=", ">=", "<=", ">", "<", "&&", "||", "!", "(", ")", "\"s\"", "\"a b\"", "\"", "'", "'q'",
    "\\", "\\\"", "?x", "?", "+", "-", "*", "/", "%", " ", "  ", "\t", "NOT ", "=", "&", "|",
];
const GRL_TOK: [&str; 60] = [
    "rule", "when", "then", "salience", "no-loop", "lock-on-active", "agenda-group", "activation-group", "date-effective",
    "date-expires", "defmodule", "export:", "import:", "all", "exists(", "forall(", "accumulate(", "test(", "from stream(",
    "over window(", "query", "goal:", "strategy:", "on-success:", "when:", "{", "}", "(", ")", "[", "]", ";", ",", ":", ".",
    "\"", "'", "==", "!=", ">=", "<=", ">", "<", "=", "+=", "&&", "||", "!", "+", "-", "*", "/", "%", "$", "?", " ", "\n",
    "//", "X", "1",
];
const VALID_RULES: [&str; 10] = [
    "rule \"WF\" salience 5 { when X.s == \"a b\" && Y.n > 2 then SetWorkflowData(\"stage=done\"); set_workflow_data(\"k 1=v w\"); Log(\"msg 1\"); CompleteWorkflow(\"wf\"); }",
    "rule \"Calls\" no-loop { when f(\"p q\", 1) == 'r s' then $Car.setName(\"n 1\", 2); sendEmail(\"a@b\", 'Hi there', 3); Msg.t = \"Hello, \" + U.n + \"!\"; Tags += \"t=1\"; }",
    "rule \"CheckAge\" salience 10 {\n when\n  User.Age >= 18 && User.Country == \"US\"\n then\n  User.IsAdult = true;\n  Retract(\"User\");\n}",
    "rule R2 \"desc\" no-loop agenda-group \"g\" {\n when (A.x > 1 || B.y == \"s\") && !(C.z < 2.5)\n then A.x = A.x + 1; log(\"hi\");\n}",
    "rule \"Arr\" { when Product.tags contains \"e\" && X in [\"a\", 'b', 3] then Y += \"v\"; $Car.setSpeed($Car.Speed + 1); }",
    "rule \"Ex\" { when exists(Order.total > 100) && forall(Item.ok == true) then ActivateAgendaGroup(\"g\"); ScheduleRule(5000, \"n\"); }",
    "rule \"Acc\" { when accumulate(Order($amount: amount, status == \"completed\"), sum($amount)) then T.v = 1; }",
    "defmodule SENSORS {\n export: all\n}\ndefmodule CONTROL {\n import: SENSORS (rules * (templates temperature))\n}\n;; MODULE: SENSORS - x\nrule \"CheckTemp\" {\n when temperature.value > 28\n then println(\"Hot\");\n}",
    "rule \"St\" { when login: LoginEvent from stream(\"logins\") over window(10 min, sliding) then X = 1; }",
    "rule \"MF\" { when Order.items count > 0 && Queue.tasks first $t && test(f(a, b)) && $T : Car( speedUp == true && speed < max ) then SetWorkflowData(\"k=v\"); }",
];
const VALID_QUERIES: [&str; 4] = [
    "query \"Nums\" {\n goal: eligible(?x) && Order.Total > 100\n strategy: breadth-first\n max-depth: 25\n max-solutions: 3\n enable-memoization: true\n on-failure: { LogMessage(\"no 1\"); }\n}",
    "query \"CheckVIP\" {\n    goal: User.IsVIP == true\n    strategy: depth-first\n    max-depth: 10\n    on-success: {\n        User.DiscountRate = 0.2;\n        LogMessage(\"VIP confirmed\");\n    }\n}",
    "query \"Q2\" {\n goal: (A.x == 1 && B.y != \"s)\") || C.z > 2\n when: X.ready == true\n enable-memoization: false\n}\nquery \"Q3\" { goal: Y == 2\n}",
    "query \"Q4\" { goal: f(\"a\\\"b\") == true\n max-solutions: 5\n}",
];
const VALID_MISC: [&str; 11] = [
    "NOT User.IsBanned == true",
    "  NOT  (A == 1 || B == 2)  ",
    "NOT\tX.y != \"a b\" && !Z",
    "(manager(?p) OR senior(?p))",
    "(A OR (B AND C) OR \"x OR y\")",
    "count(?x) WHERE employee(?x)",
    "avg(?salary) WHERE salary(?name, ?salary) AND ?salary > 50000",
    "grandparent(?x, ?z) WHERE parent(?x, ?y) AND (parent(?y, ?z) WHERE child(?z, ?y))",
    "event: EventType from stream(\"events\") over window(5 min, sliding)",
    "reading : T from stream( \"s\" ) over window(18446744073709551615 hours, tumbling)",
    "Order.quantity * Order.price + 10 - \"a\" % 3 / 0",
];

fn soup(rng: &mut Rng, toks: &[&str], max: u64) -> String {
    let n = rng.range(0, max);
    let mut s = String::new();
    for _ in 0..n {
        if rng.chance(1, 9) {
            s.push_str(pick_mb(rng));
        } else {
            s.push_str(*rng.pick(toks));
        }
        if rng.chance(1, 3) {
            s.push(' ');
        }
    }
    s
}

fn char_positions(s: &str) -> Vec<usize> {
    let mut v: Vec<usize> = s.char_indices().map(|(i, _)| i).collect();
    v.push(s.len());
    v
}

/// splice / truncate / duplicate / multi-byte insertion at char boundaries (the result stays valid UTF-8)
fn mutate(rng: &mut Rng, base: &str, toks: &[&str]) -> String {
    let mut s = base.to_string();
    for _ in 0..rng.range(1, 4) {
        let pos = char_positions(&s);
        let a = *rng.pick(&pos);
        let b = *rng.pick(&pos);
        let (a, b) = (a.min(b), a.max(b));
        match rng.below(6) {
            0 => s.truncate(a),
            1 => s = format!("{}{}", &s[..a], &s[b..]),
            2 => s = format!("{}{}{}", &s[..b], &s[a..b], &s[b..]),
            3 => s.insert_str(a, pick_mb(rng)),
            4 => s.insert_str(a, *rng.pick(toks)),
            _ => {
                let other = *rng.pick(&VALID_RULES);
                let p2 = char_positions(other);
                let c = *rng.pick(&p2);
                let d = *rng.pick(&p2);
                s.insert_str(a, &other[c.min(d)..c.max(d)]);
            }
        }
        if s.len() > 4096 {
            let pos = char_positions(&s);
            let cut = *pos.iter().filter(|p| **p <= 4096).last().unwrap_or(&0);
            s.truncate(cut);
        }
    }
    s
}

fn raw_lossy(rng: &mut Rng) -> String {
    let hi = if rng.chance(1, 20) { 600 } else { 48 };
    let n = rng.range(0, hi) as usize;
    let bytes: Vec<u8> = (0..n)
        .map(|_| match rng.below(4) {
            0 => rng.below(256) as u8,
            1 => *rng.pick(b"(){}[]\"'!&|=<>+-*/%.,;:?$ \n"),
            _ => rng.range(0x20, 0x7e) as u8,
        })
        .collect();
    let mut s = String::from_utf8_lossy(&bytes).into_owned();
    // random bytes never form one of the ~30 code points whose case mapping changes length: one raw string in five gets 1..3 of them
    if rng.chance(1, 5) {
        for _ in 0..rng.range(1, 3) {
            let pos = char_positions(&s);
            let a = *rng.pick(&pos);
            s.insert_str(a, pick_case(rng));
        }
    }
    s
}

fn chain(rng: &mut Rng) -> String {
    let n = *rng.pick(&[1usize, 7, 32, 200, 1000, 4000, 4096]);
    match rng.below(8) {
        0 => "!".repeat(n),
        1 => "(".repeat(n),
        2 => format!("{}x", "!".repeat(n.min(4095))),
        3 => {
            let d = rng.range(1, 32) as usize;
            format!("{}X == 1{}", "(".repeat(d), ")".repeat(d))
        }
        4 => {
            let d = rng.range(1, 32) as usize;
            format!("{}{}", "[".repeat(d), "]".repeat(d))
        }
        5 => "-".repeat(n),
        6 => {
            let k = n.min(2000);
            let mut s = String::from("1");
            for _ in 0..k {
                s.push_str("+1");
            }
            s
        }
        _ => ")".repeat(n),
    }
}

fn wrap_rule(body: &str) -> String {
    format!("rule \"r\" {{ when {} then Y = 1; }}", body)
}

/// F-C05h (known finding, probed separately by `growth`): `condition_regex().captures(leaf)` in
/// `parse_single_condition` is ~quartic in the leaf length (rexile backtracking), so a `when` leaf of a few
/// hundred bytes takes minutes. To keep the search from re-finding only that, leaves after the first `when`
/// are capped at `WHEN_LEAF_CAP` bytes in this stream (separators: `&&  ||  then  }  ;`).
pub const WHEN_LEAF_CAP: usize = 40;
fn cap_when_leaves(s: &str) -> String {
    cap_when_leaves_n(s, WHEN_LEAF_CAP)
}
fn cap_when_leaves_n(s: &str, cap: usize) -> String {
    let Some(w) = s.find("when") else { return s.to_string() };
    let (head, tail) = s.split_at(w + 4);
    let mut out = String::from(head);
    let mut run = 0usize;
    let mut depth = 0i64; // `&&` / `||` split a when clause only at parenthesis depth 0 (split_logical_operator)
    let mut rest = tail;
    while let Some(c) = rest.chars().next() {
        let sep = ["&&", "||", "then", "}", ";"].iter().find(|p| rest.starts_with(**p));
        if let Some(p) = sep {
            out.push_str(p);
            rest = &rest[p.len()..];
            if depth == 0 || !(*p == "&&" || *p == "||") {
                run = 0;
                if !(*p == "&&" || *p == "||") {
                    depth = 0;
                }
            } else {
                run += p.len();
            }
            continue;
        }
        if run + c.len_utf8() <= cap {
            out.push(c);
            run += c.len_utf8();
            if c == '(' {
                depth += 1;
            } else if c == ')' {
                depth -= 1;
            }
        }
        rest = &rest[c.len_utf8()..];
    }
    out
}

/// one string of the robustness stream (search): raw / soup / mutated valid / chains
fn robust_string(rng: &mut Rng) -> (String, &'static str) {
    if rng.chance(1, 12) {
        return (arith(rng), "arith");
    }
    if rng.chance(1, 16) {
        return (pick_soup(rng, &MASK_TOK, 14, false), "masktext");
    }
    if rng.chance(1, 5) {
        // a valid rule / query / goal / stream pattern with blanks, numbers or literal bodies swapped (all seven entry points see it)
        let b: String = match rng.below(6) {
            0 | 1 | 2 => rng.pick(&VALID_RULES).to_string(),
            3 => rng.pick(&VALID_QUERIES).to_string(),
            4 => rng.pick(&VALID_MISC).to_string(),
            _ => {
                let e = *rng.pick(&["Q", "X", "V", "S", "G"]);
                rng.pick(&bases_for(e)).clone()
            }
        };
        let mut s = swap_any(rng, &b, 39);
        if rng.chance(1, 4) {
            s = mutate(rng, &s, &GRL_TOK);
        }
        return (s, "swapped");
    }
    match rng.below(10) {
        0 | 1 => (raw_lossy(rng), "raw"),
        2 | 3 => (soup(rng, &GRL_TOK, 40), "soup"),
        4 => (soup(rng, &EXPR_TOK, 30), "soup"),
        5 | 6 => {
            let b = *rng.pick(&VALID_RULES);
            (mutate(rng, b, &GRL_TOK), "mutated")
        }
        7 => {
            let b = if rng.chance(1, 2) { *rng.pick(&VALID_QUERIES) } else { *rng.pick(&VALID_MISC) };
            (mutate(rng, b, &EXPR_TOK), "mutated")
        }
        8 => {
            let c = chain(rng);
            if rng.chance(1, 2) {
                (wrap_rule(&c), "chain")
            } else {
                (c, "chain")
            }
        }
        _ => {
            let c = soup(rng, &EXPR_TOK, 12);
            (wrap_rule(&c), "soup")
        }
    }
}

/// restricted payload for RV/RA: no `= < > ! & | ( ) { } ; $ : newline`, never the word `then`
fn value_payload(rng: &mut Rng) -> String {
    const T: [&str; 40] = [
        "a", "b", "c", "_", "ab", "a.b", "A.b_c", "true", "false", "null", "TRUE", "inf", "NaN", "1", "0", "-5", "+3", "2.5", "1e5",
        "9223372036854775807", "9223372036854775808", "\"", "'", "\"x\"", "'y'", "[", "]", "[]", ",", ".", " ", "  ", "+", "-", "*",
        "/", "%", "\t", "e", "E",
    ];
    let n = rng.range(0, 6);
    let mut s = String::new();
    for _ in 0..n {
        if rng.chance(1, 6) {
            s.push_str(pick_mb(rng));
        } else {
            s.push_str(*rng.pick(&T));
        }
    }
    // `//` and `/*` start a comment (stripped by the parser before anything else since the C04 comment fix):
    // they are layout, not part of a value
    while s.contains("//") || s.contains("/*") {
        s = s.replace("//", "/ /").replace("/*", "/ *");
    }
    s
}

// ------------------------------------------------------------------------------------------------
// structured mutations of VALID inputs: white space, numbers, string-literal bodies
// ------------------------------------------------------------------------------------------------
/// byte ranges of the ASCII blanks (blank, tab, CR, LF), one range per character
fn blank_slots(s: &str) -> Vec<(usize, usize)> {
    s.char_indices().filter(|(_, c)| matches!(c, ' ' | '\t' | '\n' | '\r')).map(|(i, _)| (i, i + 1)).collect()
}
/// byte ranges of the maximal ASCII digit runs (every numeric position of the grammar the text belongs to)
fn digit_slots(s: &str) -> Vec<(usize, usize)> {
    let b = s.as_bytes();
    let mut v = Vec::new();
    let mut i = 0;
    while i < b.len() {
        if b[i].is_ascii_digit() {
            let a = i;
            while i < b.len() && b[i].is_ascii_digit() {
                i += 1;
            }
            v.push((a, i));
        } else {
            i += 1;
        }
    }
    v
}
/// byte ranges of the string-literal BODIES (between a quote character and the next same quote on the same line; `\"` is skipped
/// the way the query grammar does)
fn literal_slots(s: &str) -> Vec<(usize, usize)> {
    let b = s.as_bytes();
    let mut v = Vec::new();
    let mut i = 0;
    while i < b.len() {
        if b[i] == b'"' || b[i] == b'\'' {
            let q = b[i];
            let a = i + 1;
            let mut j = a;
            while j < b.len() && b[j] != q && b[j] != b'\n' {
                j += if b[j] == b'\\' && j + 1 < b.len() && b[j + 1] != b'\n' { 2 } else { 1 };
            }
            if j < b.len() && b[j] == q {
                v.push((a, j));
                i = j + 1;
                continue;
            }
        }
        i += 1;
    }
    v
}
/// byte ranges of the identifiers / keywords / function names / variable names: maximal runs of ASCII letters, digits and `_` that
/// start with a letter or `_` (inside string literals as well)
fn ident_slots(s: &str) -> Vec<(usize, usize)> {
    let b = s.as_bytes();
    let mut v = Vec::new();
    let mut i = 0;
    while i < b.len() {
        if b[i].is_ascii_alphabetic() || b[i] == b'_' {
            let a = i;
            // hyphenated keywords (`max-depth`, `no-loop`, `lock-on-active`) are one name
            while i < b.len() && (b[i].is_ascii_alphanumeric() || b[i] == b'_' || (b[i] == b'-' && i + 1 < b.len() && b[i + 1].is_ascii_alphabetic())) {
                i += 1;
            }
            v.push((a, i));
        } else if b[i].is_ascii_digit() {
            while i < b.len() && (b[i].is_ascii_alphanumeric() || b[i] == b'_') {
                i += 1;
            }
        } else {
            i += 1;
        }
    }
    v
}
/// ASCII letters and the characters that CASE-MAP to them (a folded copy of the text then contains the keyword although the original does
/// not, and has a different byte length): k <- KELVIN SIGN, i <- I WITH DOT ABOVE / dotless i, s <- long s, ss <- sharp s, st / fi <- ligatures,
/// a <- ANGSTROM SIGN / A WITH STROKE, t <- T WITH STROKE, o <- OHM SIGN (looks), n <- n preceded by apostrophe, j <- j with caron, h <- h with line below
const FOLD_TO: [(&str, &str); 19] = [
    ("k", "\u{212A}"), ("K", "\u{212A}"), ("i", "\u{130}"), ("I", "\u{130}"), ("i", "\u{131}"), ("s", "\u{17f}"), ("S", "\u{17f}"), ("ss", "\u{df}"),
    ("st", "\u{fb06}"), ("fi", "\u{fb01}"), ("a", "\u{23A}"), ("A", "\u{212B}"), ("t", "\u{23E}"), ("T", "\u{23E}"), ("o", "\u{2126}"), ("O", "\u{2126}"),
    ("n", "\u{149}"), ("j", "\u{1f0}"), ("h", "\u{1e96}"),
];
/// the identifier `slot` of `s` with a case-mapping character put in front of it (0), in its middle (1), behind it (2), or with its
/// first letter that has a case-mapping relative replaced by that relative (3; falls back to 1)
fn ident_case(s: &str, slot: (usize, usize), c: &str, mode: usize, k: usize) -> String {
    let id = &s[slot.0..slot.1];
    match mode {
        0 => ins(s, slot.0, c),
        2 => ins(s, slot.1, c),
        3 => {
            for j in 0..FOLD_TO.len() {
                let (from, to) = FOLD_TO[(j + k) % FOLD_TO.len()];
                if id.contains(from) {
                    return subst(s, slot, &id.replacen(from, to, 1));
                }
            }
            ins(s, slot.0 + id.len() / 2, c)
        }
        _ => ins(s, slot.0 + id.len() / 2, c),
    }
}
/// length-changing characters by the byte shift they cause in a folded copy — to_lowercase: KELVIN SIGN -2, I WITH DOT ABOVE +1, OHM SIGN -1,
/// I-dot twice +2; to_uppercase: n-apostrophe +1, dotless i -1, iota-dialytika-tonos +4, fi ligature -1
const SHIFT_LOWER: [&str; 4] = ["\u{212A}", "\u{130}", "\u{2126}", "\u{130}\u{130}"];
const SHIFT_UPPER: [&str; 4] = ["\u{149}", "\u{131}", "\u{390}", "\u{fb01}"];
/// end of the delimiter behind byte `t` of `s`: blanks are skipped, then the run of ASCII punctuation (`(`, `==`, `:`, `+=`, …) — `None`
/// when an identifier, a quote or the end of the text comes first
fn delim_after(s: &str, t: usize) -> Option<(usize, usize)> {
    let b = s.as_bytes();
    let mut d = t;
    while d < b.len() && matches!(b[d], b' ' | b'\t' | b'\n' | b'\r') {
        d += 1;
    }
    let mut e = d;
    while e < b.len() && b[e].is_ascii_punctuation() && !matches!(b[e], b'"' | b'\'' | b'_' | b'$' | b'?') && e - d < 2 {
        e += 1;
    }
    if e > d { Some((d, e)) } else { None }
}
/// SANDWICH: a shifted offset only panics when it lands inside a multi-byte character or beyond the end, so the length-changing
/// character `x` goes in front of identifier `i` and a 3-byte character is put right next to a delimiter behind it:
/// mode 0 — directly in front of AND directly behind the delimiter that follows identifier `i` (`Kmax日(日?v)`: offsets of a single-char
/// delimiter, shifted either way); mode 1 — directly in front of identifier `i + 1` and directly behind ITS delimiter (`K.. 日goal:日 X`,
/// `KNOT 日WHERE 日`: offsets of keyword + delimiter tokens, which must stay intact)
fn sandwich(s: &str, slots: &[(usize, usize)], i: usize, x: &str, mode: usize) -> String {
    const F: &str = "\u{65e5}";
    let j = if mode == 0 { i } else { (i + 1).min(slots.len() - 1) };
    let mut out = s.to_string();
    // edits from right to left (offsets of `s` stay valid)
    match delim_after(s, slots[j].1) {
        Some((d, e)) => {
            out.insert_str(e, F);
            if mode == 0 {
                out.insert_str(d, F);
            }
        }
        None => out.insert_str(slots[j].1, F),
    }
    if mode != 0 && j != i {
        out.insert_str(slots[j].0, F);
    }
    out.insert_str(slots[i].0, x);
    out
}
/// one (or, one time in four, every) identifier / keyword / function name / variable name gets a length-changing case-mapping character
fn case_swap(rng: &mut Rng, s: &str) -> String {
    let slots = ident_slots(s);
    if slots.is_empty() {
        let pos = char_positions(s);
        return ins(s, *rng.pick(&pos), pick_case(rng));
    }
    if rng.chance(1, 4) {
        let mut out = s.to_string();
        for sl in slots.iter().rev() {
            if rng.chance(1, 2) {
                out = ident_case(&out, *sl, pick_case(rng), rng.below(4) as usize, rng.below(19) as usize);
            }
        }
        out
    } else if rng.chance(1, 2) {
        let i = rng.below(slots.len() as u64) as usize;
        let x = if rng.chance(3, 4) { *rng.pick(&SHIFT_LOWER) } else { *rng.pick(&SHIFT_UPPER) };
        sandwich(s, &slots, i, x, rng.below(2) as usize)
    } else {
        let sl = *rng.pick(&slots);
        ident_case(s, sl, pick_case(rng), rng.below(4) as usize, rng.below(19) as usize)
    }
}
fn subst(s: &str, slot: (usize, usize), rep: &str) -> String {
    format!("{}{}{}", &s[..slot.0], rep, &s[slot.1..])
}
/// a placeholder-looking piece put inside the literal body `slot`: 0 replace the body, 1 append, 2 prepend, 3 after the first `=`
/// of the body (the value part of `SetWorkflowData("key=value")`, which is unmasked twice), 4 in the middle
fn lit_ph(s: &str, slot: (usize, usize), ph: &str, mode: usize) -> String {
    let body = &s[slot.0..slot.1];
    let new = match mode {
        0 => ph.to_string(),
        1 => format!("{}{}", body, ph),
        2 => format!("{}{}", ph, body),
        3 => match body.find('=') {
            Some(p) => format!("{}{}{}", &body[..=p], ph, &body[p + 1..]),
            None => format!("k={}", ph),
        },
        _ => {
            let cp = char_positions(body);
            let m = cp[cp.len() / 2];
            format!("{}{}{}", &body[..m], ph, &body[m..])
        }
    };
    subst(s, slot, &new)
}
/// ASCII blanks replaced by unusual white space / look-alike separators: one blank, every blank by the same character, or each
/// blank with probability 1/3 by a random one
fn blank_swap(rng: &mut Rng, s: &str) -> String {
    let slots = blank_slots(s);
    if slots.is_empty() {
        return format!("{}{}", s, rng.pick(&UWS));
    }
    let pickc = |rng: &mut Rng| if rng.chance(3, 4) { *rng.pick(&UWS) } else { *rng.pick(&USEP) };
    match rng.below(3) {
        0 => {
            let sl = *rng.pick(&slots);
            subst(s, sl, pickc(rng))
        }
        1 => {
            let c = pickc(rng);
            s.chars().map(|x| if matches!(x, ' ' | '\t' | '\n' | '\r') { c.to_string() } else { x.to_string() }).collect()
        }
        _ => s.chars().map(|x| if matches!(x, ' ' | '\t' | '\n' | '\r') && rng.chance(1, 3) { pickc(rng).to_string() } else { x.to_string() }).collect(),
    }
}
/// a digit run of `max` bytes at most (a `when` leaf must stay short: F-C05h)
fn big_number(rng: &mut Rng, max: usize) -> String {
    let n = match rng.below(8) {
        0 => "9".repeat(*rng.pick(&[19usize, 20, 21, 30, 64, 200, 400])),
        1 => format!("{}{}", "0".repeat(*rng.pick(&[1usize, 17, 30, 100])), rng.pick(&NUMS)),
        _ => rng.pick(&NUMS).to_string(),
    };
    if n.len() > max { n[..max].to_string() } else { n }
}
/// one or every digit run replaced by a boundary / absurd number; a text without digits gets one appended
fn num_swap(rng: &mut Rng, s: &str, max: usize) -> String {
    let slots = digit_slots(s);
    if slots.is_empty() {
        return format!("{} {}", s, big_number(rng, max));
    }
    if rng.chance(1, 4) {
        let mut out = s.to_string();
        for sl in slots.iter().rev() {
            out = subst(&out, *sl, &big_number(rng, max));
        }
        out
    } else {
        let sl = *rng.pick(&slots);
        subst(s, sl, &big_number(rng, max))
    }
}
/// placeholder-looking text inside one (or every) string literal; a text without literal gets one
fn lit_swap(rng: &mut Rng, s: &str) -> String {
    let slots = literal_slots(s);
    if slots.is_empty() {
        return format!("{} \"{}\"", s, rng.pick(&PH));
    }
    if rng.chance(1, 5) {
        let mut out = s.to_string();
        for sl in slots.iter().rev() {
            out = lit_ph(&out, *sl, *rng.pick(&PH), rng.below(5) as usize);
        }
        out
    } else {
        let sl = *rng.pick(&slots);
        lit_ph(s, sl, *rng.pick(&PH), rng.below(5) as usize)
    }
}
/// one of the four structured mutations (`max_num`: longest digit run)
fn swap_any(rng: &mut Rng, s: &str, max_num: usize) -> String {
    match rng.below(7) {
        0 | 1 => blank_swap(rng, s),
        2 => num_swap(rng, s, max_num),
        3 => lit_swap(rng, s),
        5 => case_swap(rng, s),
        6 => {
            let t = case_swap(rng, s);
            if rng.chance(1, 2) { blank_swap(rng, &t) } else { case_swap(rng, &t) }
        }
        _ => {
            let t = blank_swap(rng, s);
            if rng.chance(1, 2) { num_swap(rng, &t, max_num) } else { lit_swap(rng, &t) }
        }
    }
}

/// valid inputs of every entry (the documented forms): the seeds of the structured mutations
fn bases_for(e: &str) -> Vec<String> {
    let v = |xs: &[&str]| xs.iter().map(|x| x.to_string()).collect::<Vec<_>>();
    match e {
        "X" => v(&[
            "User.IsVIP == true && (Order.Amount > 1000 || !(X != \"a\\\"b\"))",
            "a.b >= 3.14 || ?x == 'q r' && !flag",
            "( A == 1 ) && ( B != \"two words\" )",
        ]),
        "Q" | "QV" => v(&[
            "NOT User.IsBanned == true",
            "  NOT  (A == 1 || B == 2)  ",
            "NOT\tX.y != \"a b\" && !Z",
            "NOT !Y",
            "NOT NOT X == 1",
            "User.IsVIP == true && Order.Amount > 1000",
        ]),
        "V" => v(&[
            "Order.quantity * Order.price + 10 - \"a\" % 3 / 0",
            "I + 1",
            "( MX - 1 ) * 2",
            "\"a b\" + S",
            "F / 2.5 + Order.quantity % 7",
        ]),
        "D" | "DC" => v(&VALID_MISC[3..5]),
        "G" | "GQ" => v(&VALID_QUERIES),
        "A" => v(&VALID_MISC[5..7]),
        "NH" | "NP" => v(&VALID_MISC[7..8]),
        "S" | "SJ" => v(&STREAM_BASE),
        "SS" => STREAM_BASE.iter().filter_map(|b| b.split_once("from").map(|x| format!("from{}", x.1))).collect(),
        "SW" => STREAM_BASE.iter().filter_map(|b| b.split_once("over").map(|x| format!("over{}", x.1))).collect(),
        "SD" => v(&["5 min", "18446744073709551615 hours", "30 seconds", "1 ms", "10 minutes", "2 hour"]),
        "ST" => v(&["sliding", "tumbling ", "sliding, x"]),
        "SC" => v(&["click.user_id == purchase.user_id", "purchase.timestamp > click.timestamp", "a.time <= b.time + 5"]),
        "PU" => {
            let mut b = v(&["\"ab\" \u{1}0\u{2} 'c' // x\n y /* z */ \"\u{1}1\u{2}\"", "a \"b c\" \u{1}1\u{2} d 'e=f' 12"]);
            b.extend(v(&VALID_RULES)); // parse_rule on whole rules (no prediction: oracle only)
            b
        }
        "PN" => v(&["Check Age 1", "a \u{1}0\u{2} b", "x = 1 y"]),
        "AC" => v(&ACC_BASE),
        "MC" => v(&[";; MODULE: SENSORS - x\n", ";; MODULE: A 1\n;; MODULE: B 2\n "]),
        "AT" => v(&[
            "no-loop lock-on-active salience 5",
            "salience -10 agenda-group \"g 1\" no-loop true",
            "date-effective \"2025-01-01\" lock-on-active activation-group 'a 2'",
        ]),
        "RV" | "RA" => v(&["\"a b\"", "[1, 2.5, \"x y\", 'z w']", "A.b + 1", "true", " 42 ", "-7.25", "x_1", "\"Hello, \" + U.n + \"!\"", "'k=v 1'", "TRUE", "False", "NULL"]),
        "WF" | "WG" => v(&[
            "stage=done", "k 1=v w", "key = 42", "a=true", "k=[1, \u{1}7\u{2}, x y]", "n=A.b + 1", "no equals", "=x", "k=", "é=日本 語", "k='q r'", "a=b=c 2",
        ]),
        "FN" => v(&FN_BASE),
        "W" => v(&[
            "User.Age >= 18 && User.Country == \"US\"",
            "(A.x > 1 || B.y == \"s t\") && !(C.z < 2.5)",
            "exists(Order.total > 100) && forall(Item.ok == true)",
            "Order.items count > 0 && test(f(a, b)) && X in [\"a b\", 3]",
            "accumulate(Order($amount: amount, status == \"completed\"), sum($amount))",
        ]),
        "R" | "M" => v(&VALID_RULES),
        _ => vec![],
    }
}
/// longest digit run a structured mutation may write: text that ends up in a `when` leaf stays short (F-C05h)
fn max_num_for(e: &str) -> usize {
    match e {
        "R" | "M" | "W" | "PU" | "AC" | "RV" | "AT" | "PN" | "MC" | "WF" | "WG" | "FN" => 39,
        _ => 400,
    }
}
const FAMILY_ENTRIES: [&str; 31] = [
    "X", "Q", "QV", "V", "D", "DC", "G", "GQ", "A", "NH", "NP", "RV", "RA", "S", "SJ", "SC", "SD", "SW", "SS", "ST", "PU", "PN", "AC", "MC", "AT",
    "WF", "WG", "FN", "R", "M", "W",
];
/// entries whose payload is wrapped in a fixed rule (a whole-rule parse per case: about a millisecond)
const WRAPPED: [&str; 10] = ["RV", "RA", "PN", "AC", "MC", "AT", "WF", "WG", "FN", "W"];
/// the systematic part: every blank of every valid input replaced by a multi-byte white space character (small entries: each of the
/// four NBSP / NEL / EM SPACE / IDEOGRAPHIC SPACE; whole rules: one, rotating through all twelve), every blank at once, look-alike
/// separators; every digit run replaced by every boundary number; every placeholder form inside every string literal
fn family(out_all: &mut Vec<String>) {
    let mut rot = 0usize;
    let mut all: Vec<String> = Vec::new();
    for e in FAMILY_ENTRIES {
        let maxn = max_num_for(e);
        for (bi, b) in bases_for(e).into_iter().enumerate() {
            let big = WHOLE.contains(&e) && b.contains("rule");
            let out = &mut Vec::new();
            // (i) white space
            let bl = blank_slots(&b);
            for (i, sl) in bl.iter().enumerate() {
                if big {
                    // indentation runs: the first blank of a run and one in three of the others
                    if i > 0 && bl[i - 1].1 == sl.0 && (i + rot) % 3 != 0 {
                        continue;
                    }
                    rot += 1;
                    out.push(mk_case(e, &subst(&b, *sl, UWS[rot % UWS.len()])));
                } else {
                    for c in UWS_MAIN {
                        out.push(mk_case(e, &subst(&b, *sl, c)));
                    }
                    rot += 1;
                    out.push(mk_case(e, &subst(&b, *sl, UWS[4 + rot % (UWS.len() - 4)])));
                    out.push(mk_case(e, &subst(&b, *sl, USEP[rot % USEP.len()])));
                }
            }
            for c in UWS_MAIN.iter().chain(["\u{2028}", "\u{b}", "\u{200b}", "\u{feff}"].iter()) {
                let all: String = b.chars().map(|x| if matches!(x, ' ' | '\t' | '\n' | '\r') { c.to_string() } else { x.to_string() }).collect();
                out.push(mk_case(e, &all));
                // … and in front of / behind the whole input
                out.push(mk_case(e, &format!("{}{}{}", c, b, c)));
            }
            // (ii) numbers
            for sl in digit_slots(&b) {
                for n in NUMS {
                    if n.len() <= maxn {
                        out.push(mk_case(e, &subst(&b, sl, n)));
                    }
                }
                for k in [20usize, 30, 64, 400] {
                    if k <= maxn {
                        out.push(mk_case(e, &subst(&b, sl, &"9".repeat(k))));
                        out.push(mk_case(e, &subst(&b, sl, &format!("{}7", "0".repeat(k)))));
                    }
                }
            }
            // (iii) placeholder-looking text inside string literals (the WF / WG payload IS the body of a literal)
            if e == "WF" || e == "WG" {
                for ph in PH {
                    for mode in 0..5 {
                        out.push(mk_case(e, &lit_ph(&b, (0, b.len()), ph, mode)));
                    }
                }
            }
            for sl in literal_slots(&b) {
                let has_eq = b[sl.0..sl.1].contains('=');
                for ph in PH {
                    rot += 1;
                    out.push(mk_case(e, &lit_ph(&b, sl, ph, if has_eq { [0usize, 1, 2, 4][rot % 4] } else { rot % 5 })));
                    if has_eq || (big && b[..sl.0].ends_with("(\"")) {
                        // the value part of a `key=value` literal / the first argument of a call: every form
                        out.push(mk_case(e, &lit_ph(&b, sl, ph, 3)));
                    }
                }
            }
            // (iv) characters whose case mapping changes the UTF-8 length (to_lowercase / to_uppercase / final sigma): in front of,
            // behind and inside the input (kernel entries: every character at two rotating interior positions; entries that parse a
            // whole rule per case: a rotating third of the characters at one interior position)
            {
                let cc = case_chars();
                let cp = char_positions(&b);
                let slow = big || WRAPPED.contains(&e);
                for (ci, c) in cc.iter().enumerate() {
                    rot += 1;
                    if slow && ci % 3 != bi % 3 {
                        continue;
                    }
                    let mut at = vec![cp[(rot * 7) % cp.len()]];
                    if !slow {
                        at.push(cp[(rot * 13 + 5) % cp.len()]);
                    }
                    if !big {
                        at.push(0);
                        at.push(b.len());
                    }
                    at.sort();
                    at.dedup();
                    for a in at {
                        out.push(mk_case(e, &format!("{}{}{}", &b[..a], c, &b[a..])));
                    }
                }
                // … and at EVERY identifier / keyword / function name / variable name of the input (in front of the delimiter the parser
                // searches for next): kernel entries get a to_lowercase changer and a to_uppercase / context changer in front of, inside
                // and behind each name plus the name with a letter replaced by its case-mapping relative; entries that parse a whole
                // rule per case get one rotating character at one rotating position per name. Text that reaches the GRL parser keeps its
                // `when` leaves under 100 bytes (F-C05h).
                let grl = slow || WHOLE.contains(&e);
                let lo_hi: Vec<&str> = CASE_UPPER.iter().chain(CASE_CTX.iter()).copied().collect();
                let slots = ident_slots(&b);
                for (si, sl) in slots.iter().copied().enumerate() {
                    rot += 1;
                    let mut v: Vec<String> = Vec::new();
                    // sandwiches: the character in front of this name, a 3-byte character next to the delimiter behind it / behind the next name
                    if slow {
                        v.push(sandwich(&b, &slots, si, SHIFT_LOWER[rot % 4], 0));
                        v.push(sandwich(&b, &slots, si, SHIFT_LOWER[(rot + 1) % 4], 1));
                        if rot % 2 == 0 {
                            v.push(sandwich(&b, &slots, si, SHIFT_UPPER[(rot / 2) % 4], (rot / 8) % 2));
                        }
                    } else {
                        for mode in 0..2 {
                            for x in SHIFT_LOWER {
                                v.push(sandwich(&b, &slots, si, x, mode));
                            }
                            v.push(sandwich(&b, &slots, si, SHIFT_UPPER[(rot + mode) % 4], mode));
                            v.push(sandwich(&b, &slots, si, SHIFT_UPPER[(rot + mode + 2) % 4], mode));
                        }
                    }
                    if slow {
                        v.push(ident_case(&b, sl, cc[rot % cc.len()], rot % 4, rot));
                    } else {
                        for mode in 0..3 {
                            v.push(ident_case(&b, sl, CASE_LOWER[(rot + mode) % CASE_LOWER.len()], mode, rot));
                            v.push(ident_case(&b, sl, lo_hi[(rot * 3 + mode) % lo_hi.len()], mode, rot));
                        }
                        v.push(ident_case(&b, sl, cc[rot % cc.len()], 3, rot));
                    }
                    for t in v {
                        let t = if !grl {
                            t
                        } else if e == "W" {
                            cap_when_leaves_n(&format!("when {}", t), 100)[5..].to_string()
                        } else {
                            cap_when_leaves_n(&t, 100)
                        };
                        out.push(mk_case(e, &t));
                    }
                }
            }
            // whole rules are expensive to parse: parse_rules sees every case, parse_with_modules and parse_rule a third each
            if big && e != "R" {
                let k = if e == "M" { bi % 3 } else { (bi + 1) % 3 };
                all.extend(out.drain(..).enumerate().filter(|(i, _)| i % 3 == k).map(|(_, c)| c));
            } else {
                all.append(out);
            }
        }
    }
    out_all.extend(all);
}

/// `s` with the piece `c` inserted at byte offset `a` (a char boundary)
fn ins(s: &str, a: usize, c: &str) -> String {
    format!("{}{}{}", &s[..a], c, &s[a..])
}

/// aggregate queries `f(?v) WHERE p(?s, ?v) [AND ?v > 10]` (parse_aggregate_query / parse_function_call: the function name is
/// case-folded, '(' / ')' are located by byte offset) with a length-changing case-mapping character at every structural position:
/// in front of / inside / behind the function name, between name and '(', right after '(', after the '?', inside and at the end of
/// the variable, before and after ')', before ` WHERE `, in the pattern, in the filter — once, twice (same position) and at two
/// positions at once; plus every string of length <= 4 over {K-sign, I-dot, A-stroke, sharp s, (, ), ?, x, blank} as the call part
fn agg_family(out: &mut Vec<String>) {
    let cc = case_chars();
    let funcs = ["count", "sum", "AVG", "min", "Max", "first", "LAST", "total"];
    for (fi, f) in funcs.iter().enumerate() {
        let var = "?temp_v";
        // pieces: name | '(' | var | ')' | tail
        let call = format!("{}({})", f, var);
        let tails = [" WHERE reading(?s, ?temp_v)", " WHERE salary(?n, ?temp_v) AND ?temp_v > 10"];
        let tail = tails[fi % 2];
        let base = format!("{}{}", call, tail);
        let o = f.len(); // '('
        let c_ = call.len() - 1; // ')'
        // structural byte positions in `base`
        let pos: Vec<usize> = vec![
            0,                      // in front of the name
            1,                      // inside the name
            o,                      // between name and '('
            o + 1,                  // right after '(' (before '?')
            o + 2,                  // after '?'
            o + 2 + 4,              // inside the variable
            c_,                     // end of the variable / before ')'
            c_ + 1,                 // after ')' (before " WHERE ")
            call.len() + 7,         // first char of the pattern
            base.find("(?").map(|x| x + 1).unwrap_or(0).max(call.len() + 8), // inside the pattern's argument list
            base.len(),             // at the very end (pattern or filter)
            base.find(" AND ").map(|x| x + 5).unwrap_or(base.len() - 1), // in the filter / before the last char
        ];
        for c in &cc {
            for (pi, a) in pos.iter().enumerate() {
                out.push(mk_case("A", &ins(&base, *a, c)));
                // the same character twice (two shifts add up: I-dot twice moves an offset by 2)
                out.push(mk_case("A", &ins(&base, *a, &format!("{}{}", c, c))));
                // … and together with one at a later structural position
                let b = pos[(pi + 3) % pos.len()];
                if b > *a {
                    out.push(mk_case("A", &ins(&ins(&base, b, c), *a, c)));
                }
            }
            // the variable IS the character; the name IS the character; blank-padded
            out.push(mk_case("A", &format!("{}(?{}){}", f, c, tail)));
            out.push(mk_case("A", &format!("{}({}){}", c, var, tail)));
            out.push(mk_case("A", &format!(" {} ( {} ) {}", f, c, tail)));
            out.push(mk_case("A", &format!("{}(){}{}", f, c, tail)));
        }
    }
    // exhaustive short call parts in front of a fixed WHERE part
    let alpha = ["\u{212A}", "\u{130}", "\u{23A}", "\u{df}", "(", ")", "?", "x", " "];
    let mut frontier: Vec<String> = vec![String::new()];
    for _ in 0..4 {
        let mut next = Vec::new();
        for s in &frontier {
            for a in alpha {
                next.push(format!("{}{}", s, a));
            }
        }
        for s in &next {
            out.push(mk_case("A", &format!("{} WHERE p(?x)", s)));
        }
        frontier = next;
    }
}

/// one then-part statement (entry FN): a case-mapping character in front of / inside / behind the function name and inside the
/// argument, and the letters k / i / s / ss / fi / st of the keywords replaced by characters that case-map to them
/// (`SetWor<KELVIN SIGN>flowData` lower-cases to the keyword `setworkflowdata`)
fn fn_family(out: &mut Vec<String>) {
    let cc = case_chars();
    let mut rot = 0usize;
    for (bi, b) in FN_BASE.iter().enumerate() {
        let o = b.find('(').unwrap_or(0);
        for (ci, c) in cc.iter().enumerate() {
            if ci % 3 != bi % 3 {
                continue;
            }
            rot += 1;
            for a in [0, 1 + rot % o.max(1), o, o + 1] {
                if b.is_char_boundary(a) {
                    out.push(mk_case("FN", &ins(b, a, c)));
                }
            }
        }
        for (from, to) in [
            ("k", "\u{212A}"), ("K", "\u{212A}"), ("i", "\u{130}"), ("i", "\u{131}"), ("I", "\u{130}"), ("s", "\u{17f}"), ("S", "\u{17f}"),
            ("ss", "\u{df}"), ("st", "\u{fb06}"), ("fi", "\u{fb01}"), ("a", "\u{23A}"), ("t", "\u{23E}"), ("A", "\u{212B}"),
        ] {
            if b[..o].contains(from) {
                out.push(mk_case("FN", &format!("{}{}", b[..o].replacen(from, to, 1), &b[o..])));
                out.push(mk_case("FN", &format!("{}{}", b[..o].replace(from, to), &b[o..])));
            }
        }
    }
}

/// the arithmetic evaluator (evaluate_expression / find_operator): every string of length 1..4 over
/// {1, e, E, +, -, ., x, blank, (, ), *} — every look-behind / look-ahead around a sign, a dot, an exponent letter or a parenthesis at
/// the very start or end of the text — and every string of length 5 over {1, e, +, -, x}
fn arith_short(out: &mut Vec<String>) {
    for (alpha, len) in [(&["1", "e", "E", "+", "-", ".", "x", " ", "(", ")", "*"][..], 4usize), (&["1", "e", "+", "-", "x"][..], 5usize)] {
        let mut frontier: Vec<String> = vec![String::new()];
        for l in 1..=len {
            let mut next = Vec::new();
            for s in &frontier {
                for a in alpha {
                    next.push(format!("{}{}", s, a));
                }
            }
            if !(len == 5 && l < 5) {
                for s in &next {
                    out.push(mk_case("V", s));
                }
            }
            frontier = next;
        }
    }
}
/// a random longer string over the same alphabet (plus 0, 9, /, %, a fact name, a quote)
fn arith_long(rng: &mut Rng) -> String {
    const T: [&str; 22] = ["1", "0", "9", "e", "E", "+", "-", ".", "x", " ", "(", ")", "*", "/", "%", "I", "e-", "E+", "1e", "2.5", "\"", "F"];
    let n = rng.range(5, 14);
    let mut s = String::new();
    for _ in 0..n {
        if rng.chance(1, 16) {
            s.push_str(pick_case(rng));
        } else {
            s.push_str(*rng.pick(&T));
        }
    }
    s
}


// ------------------------------------------------------------------------------------------------
// CUT family: truncation / preview / padding of a COMPONENT at a fixed BYTE offset
// ------------------------------------------------------------------------------------------------
/// the constants a preview / truncation / padding is plausibly cut at (`&s[..s.len().min(N)]`, `s.truncate(N)`, `split_at(N)`)
pub const CUT_N: [usize; 18] = [8, 10, 16, 20, 24, 32, 40, 48, 50, 60, 64, 80, 100, 120, 128, 200, 255, 256];
/// a 2-, 3- and 4-byte character, all alphabetic (an identifier-like run stays one component wherever Unicode letters are accepted)
const CUT_CH: [&str; 3] = ["\u{e9}", "\u{65e5}", "\u{20000}"];
/// longest component: a run that covers every offset up to 256 + 3
const CUT_LONG: usize = 262;
/// a component of at least `len` (at most `len + 3`) bytes: `k` ASCII bytes followed by a run of `w`-byte characters — char boundaries
/// lie at k, k + w, k + 2w, …, so a cut at byte N is inside a character unless (N - k) % w == 0; two consecutive `k` with w = 4 leave no
/// offset on a boundary in both. `rev`: the run first, the ASCII bytes behind it (cuts counted from the END of the component).
fn straddle(w: usize, k: usize, len: usize, rev: bool) -> String {
    let n = (len.saturating_sub(k) + w - 1) / w;
    let run = CUT_CH[w - 2].repeat(n.max(1));
    let a = &"abcd"[..k];
    if rev { format!("{}{}", run, a) } else { format!("{}{}", a, run) }
}
/// the thirteen shapes: (w, k, rev)
const CUT_SHAPES: [(usize, usize, bool); 13] = [
    (4, 0, false), (4, 1, false), (4, 2, false), (4, 3, false), (3, 0, false), (3, 1, false), (3, 2, false), (2, 0, false), (2, 1, false),
    (4, 1, true), (4, 2, true), (3, 1, true), (2, 1, true),
];
/// byte ranges of the ARGUMENT-like components: the (trimmed) inside of every bracket pair `( ) [ ] { }` outside string literals, each of
/// its top-level comma-separated pieces, every (trimmed) line, the text behind the first `:` of a line (directive values: `goal: …`,
/// `import: …`, `max-depth: …`), the pieces of the whole text at top-level commas, and the whole text
fn group_slots(s: &str) -> Vec<(usize, usize)> {
    let b = s.as_bytes();
    let lits = literal_slots(s);
    let in_lit = |i: usize| lits.iter().any(|(a, z)| *a <= i && i < *z);
    let trim = |a: usize, z: usize| -> (usize, usize) {
        let t = &s[a..z];
        let l = t.len() - t.trim_start().len();
        let r = t.trim_end().len();
        if r <= l { (a, a) } else { (a + l, a + r) }
    };
    let mut v: Vec<(usize, usize)> = Vec::new();
    // (open index, start of the current comma piece)
    let mut stack: Vec<(usize, usize)> = vec![(usize::MAX, 0)];
    for i in 0..b.len() {
        if in_lit(i) {
            continue;
        }
        match b[i] {
            b'(' | b'[' | b'{' => stack.push((i, i + 1)),
            b',' => {
                let top = stack.last_mut().unwrap();
                v.push(trim(top.1, i));
                top.1 = i + 1;
            }
            b')' | b']' | b'}' if stack.len() > 1 => {
                let (o, p) = stack.pop().unwrap();
                v.push(trim(p, i));
                v.push(trim(o + 1, i));
            }
            _ => {}
        }
    }
    v.push(trim(stack[0].1, b.len()));
    v.push(trim(0, b.len()));
    let mut a = 0;
    for line in s.split_inclusive('\n') {
        let z = a + line.len();
        v.push(trim(a, z));
        if let Some(c) = line.find(':') {
            v.push(trim(a + c + 1, z));
        }
        a = z;
    }
    v.retain(|(a, z)| z > a);
    v.sort();
    v.dedup();
    v
}
/// the text the GRL parser sees for a case of entry `e` (None: the entry does not reach the GRL parser)
fn grl_text(e: &str, s: &str) -> Option<String> {
    let w = |p: (&str, &str)| Some(format!("{}{}{}", p.0, s, p.1));
    match e {
        "R" | "M" | "PU" => Some(s.to_string()),
        "W" | "WT" => w(WRAP_W),
        "RV" => w(WRAP_RV),
        "RA" => w(WRAP_RA),
        "PN" => w(WRAP_PN),
        "AC" => w(WRAP_AC),
        "AT" => w(WRAP_AT),
        "WF" => w(WRAP_WF),
        "WG" => w(WRAP_WG),
        "FN" => w(WRAP_FN),
        "FA" => w(WRAP_FA),
        "MA" => w(WRAP_MA),
        "IM" => w(WRAP_IM),
        "MC" => Some(format!("{}{}", s, WRAP_MC)),
        _ => None,
    }
}
/// F-C05h: an estimate (upper bound, in bytes) of (0) the longest piece of text the superlinear leaf regexes of `parse_single_condition`
/// have to chew without matching and (1) the longest leaf, over all `when` leaves of `s` as `parse_when_clause` cuts them (outer balanced
/// parentheses, `||` / `&&` at parenthesis depth 0, `!`, `exists(`, `forall(`). String-literal bodies are masked by the parser (a few
/// bytes); a leaf `accumulate(…)` goes to parse_accumulate_condition (no leaf regex); in a leaf `<ASCII path> <op> <anything>`,
/// `name(<no parenthesis>) <op> …` or `test(name(<no parenthesis>))` only the part in front is searched, `(.+)` / `[^)]*` take the rest
/// (quadratic with a small constant: 262 bytes 10 ms, 130 bytes 2 ms) — measured: a 100-byte field / function NAME 40..120 ms, a
/// 300-byte tail behind `test(f(a))` or inside `$T : Car( … )` 250 ms.
fn when_cost(s: &str) -> (usize, usize) {
    let Some(w) = s.find("when") else { return (0, 0) };
    let tail = &s[w + 4..];
    let mut m = String::new();
    let mut last = 0;
    for (a, z) in literal_slots(tail) {
        m.push_str(&tail[last..a]);
        m.push('L');
        last = z;
    }
    m.push_str(&tail[last..]);
    let mut acc = (0usize, 0usize);
    for clause in m.split(|c| c == '}' || c == ';').flat_map(|c| c.split("then")) {
        leaf_cost(clause, &mut acc, 0);
    }
    acc
}
fn balanced(t: &str) -> bool {
    let mut d = 0i64;
    for c in t.chars() {
        if c == '(' {
            d += 1;
        } else if c == ')' {
            d -= 1;
            if d < 0 {
                return false;
            }
        }
    }
    d == 0
}
fn split_depth0<'a>(t: &'a str, op: &str) -> Vec<&'a str> {
    let mut v = Vec::new();
    let (mut d, mut a, mut i) = (0i64, 0usize, 0usize);
    let b = t.as_bytes();
    while i < b.len() {
        if b[i] == b'(' {
            d += 1;
        } else if b[i] == b')' {
            d -= 1;
        } else if d == 0 && b[i..].starts_with(op.as_bytes()) {
            v.push(&t[a..i]);
            i += op.len();
            a = i;
            continue;
        }
        i += 1;
    }
    v.push(&t[a..]);
    v
}
fn leaf_cost(clause: &str, acc: &mut (usize, usize), depth: usize) {
    let t = clause.trim();
    if t.is_empty() {
        return;
    }
    if depth < 40 {
        if t.starts_with('(') && t.ends_with(')') && t.len() >= 2 && balanced(&t[1..t.len() - 1]) {
            return leaf_cost(&t[1..t.len() - 1], acc, depth + 1);
        }
        for op in ["||", "&&"] {
            let parts = split_depth0(t, op);
            if parts.len() > 1 {
                for p in parts {
                    leaf_cost(p, acc, depth + 1);
                }
                return;
            }
        }
        if let Some(r) = t.strip_prefix('!') {
            return leaf_cost(r, acc, depth + 1);
        }
        for kw in ["exists(", "forall("] {
            if t.starts_with(kw) && t.ends_with(')') {
                return leaf_cost(&t[kw.len()..t.len() - 1], acc, depth + 1);
            }
        }
    }
    if t.starts_with("accumulate(") {
        return;
    }
    acc.1 = acc.1.max(t.len());
    let l = if t.starts_with('(') && t.ends_with(')') && t.len() >= 2 { t[1..t.len() - 1].trim() } else { t };
    let ascii_name = |x: &str| !x.is_empty() && x.bytes().all(|c| c.is_ascii_alphanumeric() || c == b'_' || c == b'.') && !x.as_bytes()[0].is_ascii_digit();
    let ops = [">=", "<=", "==", "!=", ">", "<", " contains ", " startsWith ", " endsWith ", " matches ", " in "];
    // name(<no parenthesis>) <op> …   /   test(name(<no parenthesis>))
    let call = |x: &str| -> Option<(usize, usize)> {
        let o = x.find('(')?;
        let c = o + x[o..].find(')')?;
        if ascii_name(x[..o].trim()) && !x[o + 1..c].contains('(') { Some((o, c)) } else { None }
    };
    let front = if let Some(inner) = l.strip_prefix("test(").and_then(|x| x.strip_suffix(')')) {
        match call(inner) {
            Some((o, c)) if c + 1 == inner.len() => o + 5,
            _ => l.len(),
        }
    } else if let Some((o, c)) = call(l) {
        let r = l[c + 1..].trim_start();
        if ops.iter().any(|p| r.starts_with(p.trim_start())) { o } else { l.len() }
    } else {
        match ops.iter().filter_map(|o| l.find(o)).min() {
            Some(p) if p > 0 && l[..p].bytes().all(|c| c.is_ascii_alphanumeric() || b"_. +-*/%".contains(&c)) && !l.as_bytes()[0].is_ascii_digit() && l.as_bytes()[0] != b' ' => p,
            _ => l.len(),
        }
    };
    acc.0 = acc.0.max(front);
}
/// longest not-matching leaf text the family lets through (about 10 ms per case at this length) and longest leaf at all
const CUT_LEAF_MAX: usize = 48;
const CUT_LEAF_LEN: usize = 150;
/// a "long" component for the places where 262 bytes cost too much (covers every offset up to 128 + 3)
const CUT_LONG2: usize = 132;
/// extra valid inputs for the third group of entries (no structured-mutation bases of their own)
fn cut_bases_for(e: &str) -> Vec<String> {
    let v = |xs: &[&str]| xs.iter().map(|x| x.to_string()).collect::<Vec<_>>();
    match e {
        "WT" => bases_for("W"),
        "NV" => v(&VALID_MISC[5..8]),
        "FA" | "MA" => v(&["1, \"a b\", A.b + 1", "x", "$v, [1, 2], 'q'"]),
        "IM" => v(&["A (rules * (templates t))", "MAIN (rules *)", "A"]),
        _ => bases_for(e),
    }
}
/// (WT parses the same text as W)
const CUT_ENTRIES: [&str; 35] = [
    "X", "Q", "QV", "V", "D", "DC", "G", "GQ", "A", "NH", "NP", "NV", "RV", "RA", "S", "SJ", "SC", "SD", "SW", "SS", "ST", "PU", "PN", "AC", "MC", "AT",
    "WF", "WG", "FN", "FA", "MA", "IM", "W", "R", "M",
];
/// THE CUT FAMILY. For every entry and every COMPONENT of each of its valid inputs — every identifier / keyword / function / variable /
/// module name, every string-literal body (rule name, attribute strings, stream names, values), every number, the inside of every bracket
/// pair and each of its comma-separated pieces (each argument of function calls / accumulate / stream windows / import specs / arrays),
/// every line, every directive value behind a `:`, the whole input — the component is REPLACED by (well-formed name, or a call without its
/// parentheses: the error path), PRECEDED by and FOLLOWED by (`sum($amount)<run>`: the error path "missing ')'") a long component in which
/// a 2-, 3- or 4-byte character lies across every byte offset: `k` ASCII bytes + a run of w-byte characters (w = 4: k = 0..3, w = 3:
/// k = 0..2, w = 2: k = 0..1) and the run followed by ASCII bytes (offsets counted from the end). Lengths: 262 bytes (covers every offset
/// up to 256 + 3 at once) and N + 1 .. N + 4 for each of the 18 constants N of CUT_N (a component only just longer than the cut, for
/// code that rejects longer ones earlier). The rest of the input stays valid, so the component is reached. Kernel entries (microseconds
/// per case) get every shape; entries that parse a rule per case get, per component, the two shapes (4, k), (4, k + 1) that leave no
/// offset on a boundary in both, in all three modes, plus rotating others; whole rules a rotating selection. A case whose text would put
/// more than CUT_LEAF_MAX bytes in front of the leaf regexes is left out (F-C05h) — there the family covers N <= 40 only.
fn cut_family(out: &mut Vec<String>) {
    let mut rot = 0usize;
    for e in CUT_ENTRIES {
        let slow = grl_text(e, "").is_some();
        for b in cut_bases_for(e) {
            // a rule / a query block per case (milliseconds): a rotating selection
            let whole = (WHOLE.contains(&e) && b.contains("rule")) || e == "G" || e == "GQ";
            let mut slots = ident_slots(&b);
            slots.extend(literal_slots(&b));
            slots.extend(digit_slots(&b));
            slots.extend(group_slots(&b));
            slots.retain(|(a, z)| z > a);
            slots.sort();
            slots.dedup();
            for sl in slots {
                rot += 1;
                // (mode, shape, length); the medium lengths in mode 0 take the `k` that puts byte N of the component in the middle of a character
                let mid = |n: usize| (4usize, (n + 2) % 4, false);
                let mut v: Vec<(usize, (usize, usize, bool), usize)> = Vec::new();
                if whole {
                    // parse_rules / GRLQueryParser::parse see every component, their twins (parse_with_modules, parse_rule, parse_queries) every fourth
                    if !(e == "R" || e == "G") && rot % 4 != (if e == "PU" { 2 } else { 0 }) {
                        continue;
                    }
                    let k = rot % 4;
                    let n = CUT_N[rot % CUT_N.len()];
                    v.push((rot % 3, (4, k, false), CUT_LONG));
                    v.push(((rot + 1) % 3, (4, (k + 1) % 4, false), CUT_LONG));
                    v.push((0, mid(n), n + 1));
                    v.push((1 + rot % 2, (4, (k + 1) % 4, false), n + 1));
                } else if slow {
                    let k = rot % 4;
                    for mode in 0..3 {
                        v.push((mode, (4, k, false), CUT_LONG));
                        v.push((mode, (4, (k + 1) % 4, false), CUT_LONG));
                        v.push((mode, CUT_SHAPES[4 + (rot + mode * 3) % 9], CUT_LONG));
                    }
                    for (i, n) in CUT_N.iter().enumerate() {
                        v.push((0, mid(*n), n + 1));
                        if (rot + i) % 3 == 0 {
                            v.push((1 + (rot + i) % 2, (4, (k + i) % 4, false), n + 1));
                        }
                    }
                } else {
                    for mode in 0..3 {
                        for sh in CUT_SHAPES {
                            v.push((mode, sh, CUT_LONG));
                        }
                    }
                    let k = rot % 4;
                    for (i, n) in CUT_N.iter().enumerate() {
                        v.push((0, mid(*n), n + 1));
                        v.push((0, (4, (n + 3) % 4, false), n + 1));
                        v.push((0, CUT_SHAPES[4 + (rot + i) % 5], n + 1));
                        v.push((1 + (rot + i) % 2, (4, (k + i) % 4, false), n + 1));
                    }
                }
                for (mode, (w, k, rev), len) in v {
                    let mk = |len: usize| {
                        let c = straddle(w, k, len, rev);
                        match mode {
                            0 => subst(&b, sl, &c),
                            1 => ins(&b, sl.0, &c),
                            _ => ins(&b, sl.1, &c),
                        }
                    };
                    let fits = |t: &str| match grl_text(e, t) {
                        Some(full) => {
                            let (front, leaf) = when_cost(&full);
                            front <= CUT_LEAF_MAX && leaf <= CUT_LEAF_LEN
                        }
                        None => true,
                    };
                    let mut t = mk(len);
                    if !fits(&t) {
                        if len != CUT_LONG {
                            continue;
                        }
                        t = mk(CUT_LONG2);
                        if !fits(&t) {
                            continue;
                        }
                    }
                    out.push(mk_case(e, &t));
                }
            }
        }
    }
}

// ------------------------------------------------------------------------------------------------
// CHAIN family: long operator chains on the arithmetic evaluator
// ------------------------------------------------------------------------------------------------
// evaluate_expression splits its text at ONE operator position and evaluates each side once, so a chain of n terms costs
// 2n - 1 calls (C05.evalCalls_linear).  A variant that evaluates a side twice, or retries the whole text at the other precedence
// level after a failure, is exponential in the number of terms: invisible below ~12 terms, beyond any watchdog at 20..30.  The
// family drives V (the only entry of the property that reaches evaluate_expression: the GRL parsers keep an expression as text,
// it is evaluated when a rule fires, which is not an entry of C05) with chains of 8..120 terms - and a few up to the 4 KiB
// bound - over every mix of the five operators, with operands that do not evaluate (unknown field, nothing at all = leading /
// trailing / doubled operator, a parenthesised group, a malformed number, an unterminated quote, a multi-byte name), operands
// that evaluate to something apply_operator rejects (boolean, non-numeric string) and signed operands (`2 * -3`), at the left
// end, in the middle, at the right end, at both ends, everywhere.  Every case takes microseconds (the 4 KiB ones milliseconds)
// on the unchanged tree; check.py's per-case deadline (CASE_TIMEOUT) turns a blow-up into `hang` with the input.
const CHAIN_OPS: [&str; 5] = ["+", "-", "*", "/", "%"];
/// number of terms; the longer chains first: an exponential evaluator is reported by the first few (then the batch is cut
/// short, see check.py MAX_KILLERS) instead of crawling through hundreds of 16-term cases that take seconds each
const CHAIN_TERMS: [usize; 7] = [30, 60, 120, 20, 16, 12, 8];
const CHAIN_GOOD: [&str; 6] = ["1", "2", "I", "F", "2.5", "Order.quantity"];
const CHAIN_BAD: [&str; 11] = ["Missing.x", "", "(1 + 2)", "1e", "\"x", "B", "S", "-3", "+3", "1 2", "\u{e9}.\u{65e5}"];
const CHAIN_MIXES: usize = 32;

/// the operator at position `i` of an `m`-operator chain under mix number `mix` (`salt`: the three pseudo-random mixes)
fn chain_op(mix: usize, i: usize, m: usize, salt: u64) -> &'static str {
    match mix {
        0..=4 => CHAIN_OPS[mix],
        5..=24 => {
            // the 20 ordered pairs of different operators, alternating
            let (a, b) = ((mix - 5) / 4, (mix - 5) % 4);
            let b = if b >= a { b + 1 } else { b };
            CHAIN_OPS[if i % 2 == 0 { a } else { b }]
        }
        25 => CHAIN_OPS[i % 5],
        26 => CHAIN_OPS[4 - i % 5],
        // a block of one precedence level, then the other
        27 => if i < m / 2 { CHAIN_OPS[i % 2] } else { CHAIN_OPS[2 + i % 3] },
        28 => if i < m / 2 { CHAIN_OPS[2 + i % 3] } else { CHAIN_OPS[i % 2] },
        _ => {
            let mut x = salt ^ ((mix as u64) << 32) ^ (i as u64).wrapping_mul(0x9E37_79B9_7F4A_7C15);
            x ^= x >> 29;
            x = x.wrapping_mul(0xBF58_476D_1CE4_E5B9);
            x ^= x >> 32;
            CHAIN_OPS[(x % 5) as usize]
        }
    }
}

/// `t0 op t1 op … t(n-1)`; `sep` = 0: one blank around every operator, 1: none, 2: two blanks in front, none behind
fn chain_text(terms: &[&str], mix: usize, sep: usize, salt: u64) -> String {
    let mut s = String::new();
    let m = terms.len() - 1;
    for (i, t) in terms.iter().enumerate() {
        if i > 0 {
            let op = chain_op(mix, i - 1, m, salt);
            match sep {
                0 => { s.push(' '); s.push_str(op); s.push(' '); }
                1 => s.push_str(op),
                _ => { s.push_str("  "); s.push_str(op); }
            }
        }
        s.push_str(t);
    }
    s
}

fn chain_family(rng: &mut Rng, out: &mut Vec<String>) {
    let salt = rng.next();
    let mut k = 0usize; // rotates the good operands and the separators
    for n in CHAIN_TERMS {
        for mix in 0..CHAIN_MIXES {
            // the model's prediction is quadratic in the length of the text (0.3 ms at 30 terms, 4 ms at 120): the longest chains get
            // every second pair of operators and all the irregular mixes
            if n >= 60 && !(mix % 3 == 1 || mix >= 25) {
                continue;
            }
            let good: Vec<&str> = (0..n).map(|i| CHAIN_GOOD[(i + mix) % CHAIN_GOOD.len()]).collect();
            let mut push = |terms: &[&str], k: &mut usize| {
                let s = chain_text(terms, mix, *k % 3, salt);
                *k += 1;
                if s.len() <= 4096 {
                    out.push(mk_case("V", &s));
                }
            };
            push(&good, &mut k);
            for (bi, bad) in CHAIN_BAD.iter().copied().enumerate() {
                if n >= 120 && !matches!(bi, 0 | 1 | 2 | 7) {
                    continue;
                }
                // left end, middle, right end, both ends
                for pos in [vec![0], vec![n / 2], vec![n - 1], vec![0, n - 1]] {
                    let mut t = good.clone();
                    for p in pos {
                        t[p] = bad;
                    }
                    push(&t, &mut k);
                }
            }
            // signed operands everywhere (`2 * -3 * -3 …`), everywhere but the first, and unknown fields everywhere
            for (first, rest) in [("-3", "-3"), ("2", "-3"), ("2", "+ 3"), ("Missing.x", "Nope")] {
                let t: Vec<&str> = (0..n).map(|i| if i == 0 { first } else { rest }).collect();
                push(&t, &mut k);
            }
        }
    }
    // up to the 4 KiB bound of the quantifier: 500 / 1000 / 2047 one-byte terms (999 .. 4093 bytes); recursion depth = terms
    // (the prediction costs ~0.25 s per 4 KiB case: a handful)
    for (n, mixes) in [(500usize, &[2usize, 8, 25][..]), (1000, &[11][..]), (2047, &[0, 9][..])] {
        for &mix in mixes {
            for (first, rest, last) in [("1", "1", "1"), ("x", "1", "1"), ("", "1", "1"), ("1", "1", ""), ("1", "-3", "-3")] {
                if n == 2047 && (rest != "1" || last.is_empty() || (mix == 0) != first.is_empty()) {
                    continue;
                }
                let t: Vec<&str> = (0..n).map(|i| if i == 0 { first } else if i == n - 1 { last } else { rest }).collect();
                let s = chain_text(&t, mix, if n == 1000 { 0 } else { 1 }, salt);
                if s.len() <= 4096 {
                    out.push(mk_case("V", &s));
                }
            }
        }
    }
}


// ------------------------------------------------------------------------------------------------
// DATE family: `date-effective` / `date-expires` texts at the edges of what `parse_date_string` accepts (chrono is not modelled:
// the oracle is "Ok or Err, no panic"), through parse_rule (AT, PU), parse_rules (R), parse_with_modules (M)
// ------------------------------------------------------------------------------------------------
const DATE_YEARS: [&str; 22] = [
    "+262142", "+262143", "262142", "-262143", "-262144", "+262141", "-262142", "0000", "0001", "9999", "10000", "+10000", "+9999", "-0001",
    "-1", "2024", "2023", "1900", "2000", "1970", "99999", "+0000",
];
const DATE_EDGE_YEARS: usize = 7; // the first DATE_EDGE_YEARS entries: every attribute x every entry point
const DATE_MD: [(&str, &str, &str); 12] = [
    ("12", "31", "Dec"), ("01", "01", "Jan"), ("12", "30", "Dec"), ("02", "29", "Feb"), ("02", "28", "Feb"), ("02", "30", "Feb"), ("00", "10", "Jan"),
    ("13", "01", "Dec"), ("01", "00", "Jan"), ("01", "32", "Jan"), ("06", "31", "Jun"), ("1", "2", "jan"),
];
const DATE_TIMES: [&str; 7] = ["00:00:00", "23:59:59", "24:00:00", "23:59:60", "12:60:00", "00:00", "0:0:0"];
const DATE_FRAC: [&str; 8] = ["", ".1", ".12", ".123", ".123456", ".123456789", ".123456789012", "."];
const DATE_OFF: [&str; 12] = ["Z", "+00:00", "-00:00", "+23:59", "-23:59", "+24:00", "+05:30", "z", "", "+0000", "-12:00", "+14:00"];

fn date_texts() -> Vec<(String, bool)> {
    let mut v: Vec<(String, bool)> = Vec::new();
    let mut k = 0usize;
    for (yi, y) in DATE_YEARS.iter().enumerate() {
        let edge_y = yi < DATE_EDGE_YEARS;
        for (mi, (m, d, mon)) in DATE_MD.iter().enumerate() {
            let edge = edge_y && mi < 3;
            // without a time of day: the three date formats
            v.push((format!("{}-{}-{}", y, m, d), edge));
            v.push((format!("{}-{}-{}", d, m, y), edge));
            v.push((format!("{}-{}-{}", d, mon, y), edge));
            // %Y-%m-%dT%H:%M:%S
            for t in DATE_TIMES {
                v.push((format!("{}-{}-{}T{}", y, m, d, t), edge && t.len() == 8));
            }
            // RFC 3339: time x fraction x offset (every pair for the edge dates, a rotation otherwise)
            for (ti, t) in DATE_TIMES.iter().enumerate() {
                if edge && ti < 4 {
                    for f in DATE_FRAC {
                        for o in DATE_OFF {
                            v.push((format!("{}-{}-{}T{}{}{}", y, m, d, t, f, o), false));
                        }
                    }
                } else {
                    k += 1;
                    let f = DATE_FRAC[k % DATE_FRAC.len()];
                    let o = DATE_OFF[(k / DATE_FRAC.len() + k) % DATE_OFF.len()];
                    let sep = ["T", "T", "t", " "][k % 4];
                    v.push((format!("{}-{}-{}{}{}{}{}", y, m, d, sep, t, f, o), false));
                }
            }
        }
    }
    // white space / emptiness around the value
    for s in [" ", "2024-01-01 ", " 2024-01-01", "+262142-12-31 ", "\u{e9}", "2024-01-01T", "T00:00:00", "-", "--", "31-12", "+-1-01-01"] {
        v.push((s.to_string(), true));
    }
    v
}

fn date_family(out: &mut Vec<String>) {
    let mut k = 0usize;
    for (d, edge) in date_texts() {
        if d.contains('"') {
            continue;
        }
        let combos: Vec<(usize, usize)> = if edge {
            (0..3).flat_map(|a| (0..4).map(move |e| (a, e))).collect()
        } else {
            k += 1;
            vec![(k % 3, (k / 3) % 4)]
        };
        for (a, e) in combos {
            let attrs = match a {
                0 => format!("date-effective \"{}\"", d),
                1 => format!("date-expires \"{}\"", d),
                _ => format!("salience 5 date-effective \"2020-01-01\" date-expires \"{}\" no-loop", d),
            };
            let rule = format!("{}{}{}", WRAP_AT.0, attrs, WRAP_AT.1);
            match e {
                0 => out.push(mk_case("AT", &attrs)),
                1 => out.push(mk_case("PU", &rule)),
                2 => out.push(mk_case("R", &format!("{}\nrule \"s\" {{ when X == 2 then Y = 2; }}", rule))),
                _ => out.push(mk_case("M", &format!("defmodule A {{\n export: all\n}}\n;; MODULE: A - x\n{}", rule))),
            }
        }
    }
}

// ------------------------------------------------------------------------------------------------
// KEYWORD family (G / GQ): 0..4 occurrences of every keyword the query parser searches for, glued to identifier characters / `-` /
// multi-byte characters, in the query name, before and after the stand-alone occurrence, or with no stand-alone occurrence
// ------------------------------------------------------------------------------------------------
const KW: [(&str, &str, &str); 11] = [
    ("goal:", "X == 1", "vip"),
    ("strategy:", "breadth-first", "iterative"),
    ("max-depth:", "5", "7"),
    ("max-solutions:", "3", "9"),
    ("enable-memoization:", "true", "false"),
    ("enable-optimization:", "false", "true"),
    ("on-success:", "{ A = 1; Log(\"a\"); }", "{ B = 2; }"),
    ("on-failure:", "{ A = 0; }", "{ B = 3; }"),
    ("on-missing:", "{ Ask(\"x\"); }", "{ B = 4; }"),
    ("when:", "Y == 2", "Z == 3"),
    ("query", "", ""),
];
const KW_GLUE: [&str; 12] = ["sub", "end_", "x-", "9", "\u{e9}", "\u{65e5}", "\u{1F600}", "_", "-", "\u{130}", "Sub.", "a\u{a0}"];

fn kw_family(out: &mut Vec<String>) {
    let mut k = 0usize;
    for (kw, _val, gval) in KW {
        for n in 0..=4usize {
            // where the glued occurrences go: 0 query name, 1 lines before the stand-alone one, 2 lines after it, 3 spread over all three,
            // 4 one line (no line break between them)
            for place in 0..5usize {
                for standalone in [true, false] {
                    for tail in 0..2usize {
                        k += 1;
                        let occ: Vec<String> = (0..n)
                            .map(|i| {
                                let g = KW_GLUE[(k + 5 * i) % KW_GLUE.len()];
                                // tail 1: an identifier character glued BEHIND the keyword as well
                                if tail == 1 { format!("{}{}{}", g, kw, gval.replace(' ', "")) } else { format!("{}{} {}", g, kw, gval) }
                            })
                            .collect();
                        let mut name = String::from("Q");
                        let mut pre = String::new();
                        let mut post = String::new();
                        for (i, o) in occ.iter().enumerate() {
                            let slot = match place { 0 => 0, 1 => 1, 2 => 2, 3 => i % 3, _ => 3 };
                            let o_name = o.replace('"', "'");
                            match slot {
                                0 => { name.push_str(", "); name.push_str(&o_name); }
                                1 => { pre.push_str(&format!(" {}\n", o)); }
                                2 => { post.push_str(&format!(" {}\n", o)); }
                                _ => { pre.push_str(&format!(" {}", o)); }
                            }
                        }
                        if place == 4 && n > 0 {
                            pre.push('\n');
                        }
                        let mut body = String::new();
                        for (kw2, val2, _) in KW {
                            if kw2 == "query" {
                                continue;
                            }
                            if kw2 == kw && !standalone {
                                continue;
                            }
                            body.push_str(&format!(" {} {}\n", kw2, val2));
                        }
                        if kw == "query" && standalone {
                            post.push_str(" query\n");
                        }
                        let q = format!("query \"{}\" {{\n{}{}{}}}", name, pre, body, post);
                        out.push(mk_case("G", &q));
                        out.push(mk_case("GQ", &format!("{}\nquery \"Q2\" {{\n goal: Y == 2\n}}", q)));
                    }
                }
            }
        }
    }
}

fn gen(rng: &mut Rng, n: usize, _tier: &str) -> Vec<String> {
    let mut out = Vec::new();
    // exhaustive short strings over a tiny alphabet for the two most hazardous slicing kernels
    let alpha = ["é", "\"", "'", "a", "+", " ", "1"];
    let mut frontier: Vec<String> = vec![String::new()];
    for _ in 0..3 {
        let mut next = Vec::new();
        for s in &frontier {
            for a in alpha {
                next.push(format!("{}{}", s, a));
            }
        }
        for s in &next {
            out.push(mk_case("V", s));
            out.push(mk_case("RV", s));
        }
        frontier = next;
    }
    // every `a op b` over the arithmetic corner operands (zero divisors, i64 extremes, floats, strings, facts)
    for a in ARITH_OPERANDS {
        for op in ["+", "-", "*", "/", "%"] {
            for b in ARITH_OPERANDS {
                out.push(mk_case("V", &format!("{} {} {}", a, op, b)));
            }
        }
    }
    // exhaustive short strings for the text layer: placeholder-looking text, and comment/quote markers
    for (alpha, len) in [(["\u{1}", "\u{2}", "0", "\"", "a", "\n"], 4usize), (["/", "*", "\"", "\n", "a", "'"], 4usize)] {
        let mut frontier: Vec<String> = vec![String::new()];
        for _ in 0..len {
            let mut next = Vec::new();
            for s in &frontier {
                for a in alpha {
                    next.push(format!("{}{}", s, a));
                }
            }
            for s in &next {
                out.push(mk_case("PU", s));
            }
            frontier = next;
        }
    }
    // structured mutations of every valid input of every entry: white space, numbers, literal bodies, case-mapping characters
    assert_casefold_assumption();
    family(&mut out);
    agg_family(&mut out);
    fn_family(&mut out);
    arith_short(&mut out);
    for _ in 0..(n / 8).min(4000) {
        out.push(mk_case("V", &arith_long(rng)));
    }
    let entries: Vec<&str> = MODELLED.iter().chain(["R", "M", "W", "FN"].iter()).copied().collect();
    for _ in 0..n {
        let e = *rng.pick(&entries);
        let bases = bases_for(e);
        if !bases.is_empty() && (WHOLE.contains(&e) && e != "PU" || rng.chance(1, 5)) {
            // a valid input with blanks / numbers / literal bodies swapped, sometimes spliced as well
            let b = rng.pick(&bases).clone();
            let mut s = swap_any(rng, &b, max_num_for(e));
            if rng.chance(1, 4) && !matches!(e, "RV" | "RA" | "WF" | "WG" | "FN") {
                s = mutate(rng, &s, if WHOLE.contains(&e) { &GRL_TOK } else { &EXPR_TOK });
            }
            // text that reaches the GRL parser: `when` leaves stay short (F-C05h is probed separately)
            if e == "W" {
                s = cap_when_leaves(&format!("when {}", s))[5..].to_string();
            } else if matches!(e, "R" | "M" | "PU" | "AT" | "PN" | "AC" | "MC" | "RV" | "RA" | "WF" | "WG" | "FN") {
                s = cap_when_leaves(&s);
            }
            out.push(mk_case(e, &s));
            continue;
        }
        let s = match e {
            "V" if rng.chance(1, 4) => arith_long(rng),
            "V" if rng.chance(1, 2) => arith(rng),
            "FN" => pick_soup(rng, &FN_TOK, 6, false).replace('\n', " "),
            "X" | "Q" | "QV" | "V" => match rng.below(6) {
                0 => chain(rng),
                1 => mutate(rng, "User.IsVIP == true && (Order.Amount > 1000 || !(X != \"a\\\"b\"))", &EXPR_TOK),
                2 => { let b = *rng.pick(&VALID_MISC); mutate(rng, b, &EXPR_TOK) },
                _ => {
                    let s = soup(rng, &EXPR_TOK, 14);
                    if e != "X" && e != "V" && rng.chance(1, 4) { format!("NOT{}{}", if rng.chance(1, 3) { *rng.pick(&UWS) } else { " " }, s) } else { s }
                }
            },
            "D" | "DC" => match rng.below(3) {
                0 => { let b = *rng.pick(&VALID_MISC[3..5]); mutate(rng, b, &EXPR_TOK) },
                _ => {
                    let mut s = String::new();
                    for _ in 0..rng.range(0, 8) {
                        s.push_str(pick_u(rng, &[" OR ", "OR", " ", "(", ")", "\"", "a", "b(c)", "é", "日", " OR", "OR ", " AND ", "😀"]));
                    }
                    if e == "D" && rng.chance(2, 3) { format!("({})", s) } else { s }
                }
            },
            "G" | "GQ" => match rng.below(3) {
                0 => { let b = *rng.pick(&VALID_QUERIES); mutate(rng, b, &EXPR_TOK) },
                1 => {
                    let mut g = String::new();
                    for _ in 0..rng.range(0, 8) {
                        g.push_str(pick_u(rng, &["a", " ", "(", ")", "\"", "\\", "\n", "é", "日", "==", "1", "}", "{", "😀", "goal:", "query"]));
                    }
                    format!("query \"{}\" {{\n goal: {}\n strategy: depth-first\n}}", rng.pick(&["Q", "é", "a b"]), g)
                }
                _ => soup(rng, &GRL_TOK, 20),
            },
            "A" => match rng.below(3) {
                0 => { let b = *rng.pick(&VALID_MISC[5..7]); mutate(rng, b, &EXPR_TOK) },
                _ => {
                    let mut s = String::new();
                    for _ in 0..rng.range(0, 9) {
                        s.push_str(pick_u(rng, &[
                            " WHERE ", " AND ", "count", "SUM", "avg", "min", "Max", "first", "last", "(", ")", "?", "x", " ", "é", "日", "p(?x)", "K",
                            "\u{212A}", "\u{130}", "\u{23A}", "\u{1E9E}", "(?x)", "(?\u{2126})",
                        ]));
                    }
                    s
                }
            },
            "NH" | "NP" => match rng.below(3) {
                0 => mutate(rng, VALID_MISC[7], &EXPR_TOK),
                _ => {
                    let mut s = String::new();
                    for _ in 0..rng.range(0, 9) {
                        s.push_str(pick_u(rng, &[" WHERE ", "WHERE", "W", " AND ", "(", ")", "a(?x)", " ", "é", "日", "WHER", "E"]));
                    }
                    s
                }
            },
            "S" => match rng.below(3) {
                0 => { let b = *rng.pick(&STREAM_BASE); mutate(rng, b, &STREAM_TOK) },
                _ => {
                    let mut s = String::new();
                    for _ in 0..rng.range(0, 14) {
                        s.push_str(pick_u(rng, &[
                            "ev", ":", " ", "T", "from", "stream", "(", ")", "\"", "s", "over", "window", ",", "5", "min", "hours", "ms",
                            "sliding", "tumbling", "18446744073709551615", "307445734561825861", "é", "\u{a0}", "sec", "\n", "_", "99999999999999999999",
                        ]));
                        if rng.chance(1, 2) {
                            s.push(' ');
                        }
                    }
                    s
                }
            },
            "SJ" | "SS" | "SW" => match rng.below(3) {
                0 => {
                    let b = *rng.pick(&STREAM_BASE);
                    let b = if e == "SS" { b.split_once("from").map(|x| format!("from{}", x.1)).unwrap_or_default() }
                        else if e == "SW" { b.split_once("over").map(|x| format!("over{}", x.1)).unwrap_or_default() }
                        else { b.to_string() };
                    mutate(rng, &b, &STREAM_TOK)
                }
                _ => pick_soup(rng, &STREAM_TOK, 16, true),
            },
            "SD" | "ST" => pick_soup(rng, if e == "SD" { &DUR_TOK } else { &["sliding", "tumbling", "s", " ", "é", "Sliding", "1", "x"] }, 5, false),
            "SC" => match rng.below(4) {
                0 => mutate(rng, "click.user_id == purchase.user_id", &JOIN_TOK),
                1 => mutate(rng, "purchase.timestamp > click.timestamp", &JOIN_TOK),
                _ => pick_soup(rng, &JOIN_TOK, 10, false),
            },
            "PU" | "PN" => pick_soup(rng, &MASK_TOK, if e == "PU" { 12 } else { 6 }, false),
            "AC" => match rng.below(3) {
                0 => { let b = *rng.pick(&ACC_BASE); mutate(rng, b, &ACC_TOK) },
                _ => pick_soup(rng, &ACC_TOK, 12, false),
            },
            "WF" | "WG" => pick_soup(rng, &WF_TOK, 9, false).replace('"', "'").replace('\n', " "),
            "MC" => pick_soup(rng, &MC_TOK, 10, false),
            "AT" => pick_soup(rng, &AT_TOK, 6, true),
            _ => value_payload(rng), // RV, RA
        };
        // any generated text: some ASCII blanks replaced by unusual white space
        let s = if rng.chance(1, 10) && !matches!(e, "RV" | "RA") { blank_swap(rng, &s) } else { s };
        let s = if matches!(e, "WF" | "WG") { s.replace('"', "'") } else { s };
        out.push(mk_case(e, &s));
    }
    gen3(rng, &mut out);
    // fixed count, no randomness, after every older stream (their cases stay unchanged)
    cut_family(&mut out);
    // operator chains on the evaluator, the long ones first (last stream: everything above keeps its cases)
    chain_family(rng, &mut out);
    // a string literal still open at the very end of the text, ending in 0..3 backslashes (an escape with nothing behind it), for every
    // entry with a literal scanner (seeded change C05-2 was caught by ONE random case, `"\`, under some seeds only)
    for e in ["X", "Q", "QV", "V", "D", "NP", "A"] {
        for pre in ["", "User.Name == ", "a == \"b\" && c == ", "NOT x == "] {
            for q in ["\"", "'"] {
                for body in ["", "abc", "a\\\"b", "\u{e9}"] {
                    for k in 0..=3 {
                        out.push(mk_case(e, &format!("{}{}{}{}", pre, q, body, "\\".repeat(k))));
                    }
                }
            }
        }
    }
    // deterministic families added after every older stream
    date_family(&mut out);
    kw_family(&mut out);
    out
}

fn shrink(case: &str) -> Vec<String> {
    let t: Vec<&str> = case.split_whitespace().collect();
    if t.len() != 3 {
        return vec![];
    }
    let Some(s) = unhex(t[1]) else { return vec![] };
    let cs: Vec<char> = s.chars().collect();
    shrink_list(&cs)
        .into_iter()
        .take(200)
        .map(|v| mk_case(t[0], &v.into_iter().collect::<String>()))
        .collect()
}

// ------------------------------------------------------------------------------------------------
// robustness search: child process + watchdog
// ------------------------------------------------------------------------------------------------
fn child() {
    std::panic::set_hook(Box::new(|_| {}));
    let stdin = std::io::stdin();
    let out = std::io::stdout();
    for line in stdin.lock().lines() {
        let line = line.unwrap();
        let mut it = line.split_whitespace();
        let (Some(idx), Some(h)) = (it.next(), it.next()) else { continue };
        let Some(s) = unhex(h) else { continue };
        // announce the input before running it: a crash/hang is attributed to it
        {
            let mut o = out.lock();
            writeln!(o, "start {}", idx).unwrap();
            o.flush().unwrap();
        }
        let mut parts = Vec::new();
        for e in SEVEN {
            let t0 = std::time::Instant::now();
            let s2 = s.clone();
            let r = match std::panic::catch_unwind(move || run_entry(e, &s2)) {
                Ok(o) => o.split(' ').next().unwrap_or("?").to_string(),
                Err(p) => {
                    let m = if let Some(x) = p.downcast_ref::<&str>() {
                        x.to_string()
                    } else if let Some(x) = p.downcast_ref::<String>() {
                        x.clone()
                    } else {
                        "?".into()
                    };
                    format!("panic:{}", hex(&m))
                }
            };
            parts.push(format!("{}={}@{}", e, r, t0.elapsed().as_millis()));
        }
        let mut o = out.lock();
        writeln!(o, "done {} {}", idx, parts.join(";")).unwrap();
        o.flush().unwrap();
    }
}

fn robust(seed: u64, n: usize, tier: &str) {
    use std::process::{Command, Stdio};
    use std::sync::mpsc;
    use std::time::Duration;
    let watchdog = Duration::from_secs(if tier == "thorough" { 120 } else { 30 });
    let mut rng = Rng::new(seed ^ 0xC05);
    let mut inputs: Vec<(String, &'static str)> = Vec::new();
    // fixed deep cases first: the property's prefix chains and nesting bound, every run
    for c in [
        "!".repeat(4096),
        "(".repeat(4096),
        format!("{}x", "!".repeat(4095)),
        "-".repeat(4096),
        wrap_rule(&"!".repeat(4000)),
        wrap_rule(&"(".repeat(WHEN_LEAF_CAP)), // longer `(((…` leaves inside a rule: F-C05h, see `growth`
        wrap_rule(&format!("{}X == 1{}", "(".repeat(32), ")".repeat(32))),
        wrap_rule(&format!("X == {}{}", "[".repeat(32), "]".repeat(32))),
        format!("{}1", "1+".repeat(2047)),
        format!("query \"q\" {{\n goal: {}\n}}", "(".repeat(4000)),
    ] {
        inputs.push((c, "chain"));
    }
    while inputs.len() < n {
        let (s, kind) = robust_string(&mut rng);
        inputs.push((cap_when_leaves(&s), kind));
    }
    let exe = std::env::current_exe().unwrap();
    let mut next = 0usize;
    let mut counts: std::collections::BTreeMap<String, u64> = Default::default();
    let mut fails: Vec<String> = Vec::new();
    let mut slowest: (u128, usize, String, String) = (0, 0, String::new(), String::new());
    let mut children = 0;
    let t_start = std::time::Instant::now();
    let budget = Duration::from_secs(std::env::var("C05_ROBUST_BUDGET_S").ok().and_then(|v| v.parse().ok()).unwrap_or(100000));
    let mut out_of_budget = false;
    while next < inputs.len() {
        if t_start.elapsed() > budget {
            out_of_budget = true;
            break;
        }
        children += 1;
        let mut ch = Command::new(&exe)
            .arg("child")
            .stdin(Stdio::piped())
            .stdout(Stdio::piped())
            .stderr(Stdio::null())
            .spawn()
            .expect("spawn child");
        let mut cin = ch.stdin.take().unwrap();
        let cout = ch.stdout.take().unwrap();
        let batch: Vec<usize> = (next..inputs.len()).collect();
        let payload: String = batch.iter().map(|i| format!("{} {}\n", i, hex(&inputs[*i].0))).collect();
        let writer = std::thread::spawn(move || {
            let _ = cin.write_all(payload.as_bytes());
        });
        let (tx, rx) = mpsc::channel::<String>();
        let reader = std::thread::spawn(move || {
            for l in std::io::BufReader::new(cout).lines() {
                match l {
                    Ok(l) => {
                        if tx.send(l).is_err() {
                            break;
                        }
                    }
                    Err(_) => break,
                }
            }
        });
        let mut in_flight: Option<usize> = None;
        let mut hang = false;
        loop {
            match rx.recv_timeout(watchdog) {
                Ok(l) => {
                    let t: Vec<&str> = l.splitn(3, ' ').collect();
                    if t[0] == "start" {
                        in_flight = t[1].parse().ok();
                    } else if t[0] == "done" && t.len() == 3 {
                        let idx: usize = t[1].parse().unwrap();
                        in_flight = None;
                        next = idx + 1;
                        *counts.entry(format!("stream_{}", inputs[idx].1)).or_default() += 1;
                        for p in t[2].split(';') {
                            let (e, rest) = p.split_once('=').unwrap();
                            let (r, ms) = rest.rsplit_once('@').unwrap();
                            let ms: u128 = ms.parse().unwrap_or(0);
                            if ms > slowest.0 {
                                slowest = (ms, inputs[idx].0.len(), e.to_string(), hex(&inputs[idx].0));
                            }
                            let kind = r.split(':').next().unwrap();
                            *counts.entry(format!("{}_{}", e, kind)).or_default() += 1;
                            if kind == "panic" {
                                fails.push(format!("FAIL {} {} {}", e, hex(&inputs[idx].0), r));
                            }
                        }
                    }
                }
                Err(mpsc::RecvTimeoutError::Timeout) => {
                    hang = true;
                    let _ = ch.kill();
                    break;
                }
                Err(mpsc::RecvTimeoutError::Disconnected) => break,
            }
        }
        let status = ch.wait().ok();
        let _ = writer.join();
        let _ = reader.join();
        if let Some(i) = in_flight {
            // the child died or was killed while working on input i
            let what = if hang {
                "hang".to_string()
            } else {
                use std::os::unix::process::ExitStatusExt;
                match status.and_then(|s| s.signal()) {
                    Some(sig) => format!("crash:signal{}", sig),
                    None => format!("crash:exit{}", status.and_then(|s| s.code()).unwrap_or(-1)),
                }
            };
            *counts.entry(what.split(':').next().unwrap().to_string()).or_default() += 1;
            fails.push(format!("FAIL ? {} {}", hex(&inputs[i].0), what));
            next = i + 1;
        } else if next < inputs.len() && !hang {
            // child ended without finishing and without an input in flight: do not loop forever
            if status.map(|s| s.success()).unwrap_or(false) {
                break;
            }
        }
    }
    println!("strings {}", next);
    println!("generated {}", inputs.len());
    println!("out_of_budget {}", out_of_budget as u8);
    println!("children {}", children);
    println!("slowest_ms {} len={} entry={} input={}", slowest.0, slowest.1, slowest.2, slowest.3);
    for (k, v) in &counts {
        println!("count {} {}", k, v);
    }
    for f in fails.iter().take(200) {
        println!("{}", f);
    }
    println!("fails {}", fails.len());
}

/// time of the GRL parser on balanced parenthesis nesting (observation recorded in the evidence)
fn nesting(depths: &[usize]) {
    for d in depths {
        let s = wrap_rule(&format!("{}X == 1{}", "(".repeat(*d), ")".repeat(*d)));
        let t0 = std::time::Instant::now();
        let r = GRLParser::parse_rules(&s).is_ok();
        println!("nest {} {} {}", d, r, t0.elapsed().as_millis());
    }
}

fn rng_free_pick<'a>(xs: &'a [&'a str], k: usize) -> &'a &'a str {
    &xs[k % xs.len()]
}

fn main() {
    let args: Vec<String> = std::env::args().collect();
    match args.get(1).map(|s| s.as_str()) {
        Some("child") => child(),
        Some("robust") => {
            let seed: u64 = args.get(2).and_then(|s| s.parse().ok()).unwrap_or(1);
            let n: usize = args.get(3).and_then(|s| s.parse().ok()).unwrap_or(1000);
            robust(seed, n, args.get(4).map(|s| s.as_str()).unwrap_or("quick"));
        }
        Some("nesting") => {
            let ds: Vec<usize> = args[2..].iter().filter_map(|s| s.parse().ok()).collect();
            nesting(&ds);
        }
        Some("growth") => {
            // F-C05h probe: time of the GRL parser on a non-matching `when` leaf `(((…` of n bytes
            for n in args[2..].iter().filter_map(|s| s.parse::<usize>().ok()) {
                let s = wrap_rule(&"(".repeat(n));
                let t0 = std::time::Instant::now();
                let r = GRLParser::parse_rules(&s).is_ok();
                println!("growth {} {} {}", n, r, t0.elapsed().as_micros());
            }
        }
        Some("corpus2") => {
            // the lines of corpus/C05/unicode_ws_bignum_litph.case: witnesses of three classes of situation (all fine on the unchanged tree)
            println!("# C05 corpus: multi-byte white space after a keyword, numbers beyond usize in numeric attributes, placeholder-looking");
            println!("# text inside string literals (printed by `c05 corpus2`); every line must yield ok/err on the unchanged tree");
            println!("# NOT + multi-byte white space (QueryParser::parse / validate): a separator must never be skipped by a fixed byte offset");
            for ws in UWS {
                for e in ["Q", "QV"] {
                    println!("{}", mk_case(e, &format!("NOT{}User.IsBanned == true", ws)));
                }
            }
            println!("{}", mk_case("Q", "  NOT\u{a0}\u{a0}(A == 1 || B == 2)  "));
            println!("{}", mk_case("Q", "\u{3000}NOT\u{3000}X == 1\u{3000}"));
            println!("{}", mk_case("Q", "NOT\u{200b}X == 1"));
            println!("{}", mk_case("Q", "NOT\u{feff}X == 1"));
            println!("# max-depth / max-solutions: usize::MAX, usize::MAX + 1, 30 nines, leading zeros, 400 digits");
            for n in ["18446744073709551615", "18446744073709551616", "999999999999999999999999999999", "000000000000000000000000000000000000007", &"9".repeat(400)] {
                for key in ["max-depth", "max-solutions"] {
                    let q = format!("query \"Q\" {{\n goal: X == 1\n {}: {}\n}}", key, n);
                    println!("{}", mk_case("G", &q));
                    println!("{}", mk_case("GQ", &format!("{}\nquery \"Q2\" {{ goal: Y == 2\n}}", q)));
                }
            }
            println!("# other numeric positions: salience, window duration, ScheduleRule delay, placeholder index");
            println!("{}", mk_case("R", "rule \"r\" salience 99999999999999999999 { when X == 1 then Y = 1; }"));
            println!("{}", mk_case("R", "rule \"r\" { when X == 1 then ScheduleRule(18446744073709551616, \"n\"); }"));
            println!("{}", mk_case("S", "e: T from stream(\"s\") over window(18446744073709551616 ms, sliding)"));
            println!("{}", mk_case("SD", "999999999999999999999999999999 hours"));
            println!("{}", mk_case("PU", "\"a\" \u{1}18446744073709551616\u{2} \u{1}000000000000000000000\u{2}"));
            println!("# placeholder-looking text INSIDE a string literal; SetWorkflowData / set_workflow_data unmask their argument twice");
            for ph in PH {
                for f in ["SetWorkflowData", "set_workflow_data"] {
                    let r = format!("rule \"r\" {{ when X == 1 then {}(\"stage={}\"); }}", f, ph);
                    println!("{}", mk_case(*rng_free_pick(&["R", "M", "PU"], ph.len() + f.len()), &r));
                }
            }
            println!("{}", mk_case("R", "rule \"r\" { when X == \"\u{1}7\u{2}\" then Log(\"\u{1}7\u{2}\"); $C.m(\"\u{1}8\u{2}\"); f(\"a=\u{1}9\u{2}\", '\u{1}5\u{2}'); Y = \"\u{1}6\u{2}\"; }"));
        }
        Some("corpus3") => {
            // the lines of corpus/C05/casefold.case
            println!("# C05 corpus: characters whose case mapping changes the UTF-8 length (str::to_lowercase / to_uppercase are not length");
            println!("# preserving), placed in front of the delimiters the parsers search for (printed by `c05 corpus3`); every line yields");
            println!("# ok/err on the unchanged tree. Offsets found in a case-folded copy must never be applied to the original text.");
            println!("# parse_aggregate_query: the function name is matched after to_lowercase(); '(' / ')' located by byte offset");
            for q in [
                "max(?temp_\u{212A}) WHERE reading(?sensor, ?temp_\u{212A})",
                "sum(?R_\u{2126}) WHERE resistor(?id, ?R_\u{2126})",
                "min(?d_\u{212B}) WHERE bond(?a, ?b, ?d_\u{212B})",
                "count(?\u{130}L\u{130}) WHERE city(?\u{130}L\u{130})",
                "GR\u{1E9E}E(?x) WHERE p(?x)",
                "(\u{212A}) WHERE )",
                "\u{212A}() WHERE )",
                "\u{130}(\u{130}) WHERE )",
                "\u{130}\u{130}() WHERE )",
                "AVG(\u{23A}) WHERE a",
                "m\u{130}n(?x) WHERE p(?x)",
                "\u{fb01}rst(?x) WHERE p(?x) AND ?x > \u{df}",
                "la\u{17f}t(\u{391}\u{3a3}) WHERE p(\u{391}\u{3a3}\u{391})",
            ] {
                println!("{}", mk_case("A", q));
            }
            println!("# parse_action_statement: the function name is matched after to_lowercase() (KELVIN SIGN lower-cases to k)");
            for f in [
                "SetWor\u{212A}flowData(\"k=v\")", "set_wor\u{212A}flow_data(\"k 1=v w\")", "Log\u{130}(\"a\")", "\u{212A}Log(\"a\")",
                "CompleteWor\u{212A}flow(\"wf\")", "Act\u{130}vateAgendaGroup(\"g\")", "Retract\u{23A}($User)", "ScheduleRule\u{df}(5000, \"n\")",
                "$Car.set\u{17f}peed($Car.Speed + 1)",
            ] {
                println!("{}", mk_case("FN", f));
            }
            println!("# parse_value: eq_ignore_ascii_case(true / false / null)");
            for v in ["FAL\u{17f}E", "TRUE\u{130}", "\u{212A}null", "nu\u{17f}l", "tr\u{fb06}ue", "N\u{dc}LL\u{df}"] {
                println!("{}", mk_case("RV", v));
                println!("{}", mk_case("RA", v));
            }
            println!("# the other entry points: keywords / names with such a character in front of the next delimiter");
            println!("{}", mk_case("G", "query \"Q\u{212A}\" {\n goal\u{130}: X == 1\n max-depth\u{212A}: 5\n max-solut\u{130}ons: 3\n}"));
            println!("{}", mk_case("GQ", "query \"\u{130}\" {\n goal: \u{212A}(?x)\n}\nquery\u{212A} \"Q2\" { goal: Y == 2\n}"));
            println!("{}", mk_case("Q", "NOT\u{130} X == 1"));
            println!("{}", mk_case("Q", "N\u{2126}T User.\u{130}sBanned == true"));
            println!("{}", mk_case("QV", "NOT U\u{17f}er.IsBanned\u{212A} == true"));
            println!("{}", mk_case("X", "User.\u{130}sVIP == tru\u{212A}e && (\u{df} > 1 || !(X\u{fb01} != \"a\u{130}\"))"));
            println!("{}", mk_case("D", "(manager\u{212A}(?p) \u{2126}R senior(?p) OR \u{130})"));
            println!("{}", mk_case("NP", "gp(?x) W\u{212A}HERE parent(?x, ?y) AND (parent\u{130}(?y) WHERE child(?z))"));
            println!("{}", mk_case("NH", "a(?x) WHERE (b\u{212A}(?y) WHERE\u{130} c(?z))"));
            println!("{}", mk_case("S", "ev\u{212A}: T\u{130} from \u{17f}tream(\"s\u{212B}\") over w\u{130}ndow(5 m\u{130}n, sl\u{130}ding)"));
            println!("{}", mk_case("SD", "5 m\u{130}n"));
            println!("{}", mk_case("ST", "\u{17f}liding"));
            println!("{}", mk_case("SC", "cl\u{130}ck.user_id == purcha\u{17f}e.user_\u{212A}"));
            println!("{}", mk_case("V", "\u{212A} + 1 - \u{130}\u{130} * \"\u{df}\""));
            println!("{}", mk_case("AT", "no-loop\u{212A} loc\u{212A}-on-active sal\u{130}ence 5"));
            println!("{}", mk_case("AC", "Order\u{212A}($amount\u{130}: amount, \u{17f}tatus == \"completed\"), \u{17f}um($amount)"));
            println!("{}", mk_case("MC", ";; M\u{2126}DULE: SENSORS\u{212A} - x\n"));
            println!("{}", mk_case("MC", ";; MODULE: \u{130}\u{212A}\n"));
            println!("{}", mk_case("R", "rule \"\u{212A}\" sal\u{130}ence 5 { w\u{212A}hen X\u{130}.s == \"a\u{212B}\" then SetWor\u{212A}flowData(\"\u{130}=\u{212A}\"); Y\u{23A} = 1; }"));
            println!("{}", mk_case("M", "defmodule S\u{212A} {\n export\u{130}: all\n}\n;; MODULE: S\u{212A} - x\nrule\u{212A} \"T\" {\n when t.v > 28\n then println\u{130}(\"Hot\");\n}"));
            println!("# evaluate_expression / find_operator: a sign right behind a leading exponent letter (look-behind two bytes)");
            for v in ["e+1", "E-1", "e-1", " e+1", "1e+1", "1e-0", "e+", "-e-1", "(e+1)", "xe-1"] {
                println!("{}", mk_case("V", v));
            }
        }
        Some("corpus4") => {
            // the lines of corpus/C05/cut_offsets.case
            println!("# C05 corpus: a COMPONENT longer than a plausible preview / truncation constant (8 .. 256) in which a multi-byte character lies");
            println!("# across that byte offset (printed by `c05 corpus4`); every line yields ok/err on the unchanged tree. A preview of a component");
            println!("# (`&s[..s.len().min(40)]`, `truncate(40)`) must be cut at a char boundary. Seeded change C05-11: parse_accumulate_function.");
            let f = "total of all the amounts of that order \u{e9}quip\u{e9}e en s\u{e9}rie";
            let acc = format!("Order($amount: amount, status == \"completed\"), {}", f);
            println!("{}", mk_case("AC", &acc));
            println!("{}", mk_case("W", &format!("accumulate({})", acc)));
            let rule = format!("rule \"BigSpender\" salience 10 {{\n    when\n        accumulate({})\n    then\n        log(\"big spender\");\n}}\n", acc);
            for e in ["R", "M", "PU"] {
                println!("{}", mk_case(e, &rule));
            }
            println!("# the second argument of accumulate: a call without parentheses / with a tail behind `)` / a long name, k ASCII bytes + a run of 4-, 3-, 2-byte characters");
            for n in CUT_N {
                let k = (n + 2) % 4;
                println!("{}", mk_case("AC", &format!("Order($a: a), {}", straddle(4, k, n + 1, false))));
                println!("{}", mk_case("AC", &format!("Order($a: a), sum($a){}", straddle(3, (n + 1) % 3, n + 1, false))));
                println!("{}", mk_case("AC", &format!("Order($a: a), {}($a)", straddle(2, (n + 1) % 2, n + 1, false))));
            }
            println!("# other components: pattern type, bound variable, field, condition, rule name, attribute string, value, function name, argument, module, import");
            for (e, a, z) in [
                ("AC", "", "($a: a), sum($a)"), ("AC", "Order($", ": a), sum($a)"), ("AC", "Order($a: ", "), sum($a)"), ("AC", "Order($a: a, ", " == 1), sum($a)"),
                ("PN", "", ""), ("AT", "agenda-group \"", "\" no-loop"), ("AT", "salience 5 ", ""), ("RV", "", ""), ("RV", "\"", "\""), ("RA", "", " + 1"),
                ("FN", "", "(\"a\")"), ("FN", "Log(\"", "\")"), ("FA", "1, ", ", 2"), ("MC", ";; MODULE: ", " - x\n"), ("IM", "", " (rules *)"), ("IM", "A (rules ", ")"),
                ("WF", "", "=v"), ("WF", "k=", ""), ("G", "query \"", "\" {\n goal: X == 1\n}"), ("G", "query \"Q\" {\n goal: ", "\n}"), ("G", "query \"Q\" {\n goal: X == 1\n strategy: ", "\n}"),
                ("A", "", "(?x) WHERE p(?x)"), ("A", "sum(?", ") WHERE p(?x)"), ("A", "sum(?x) WHERE ", "(?x)"), ("S", "", ": T from stream(\"s\")"), ("S", "e: ", " from stream(\"s\")"),
                ("S", "e: T from stream(\"", "\")"), ("S", "e: T from stream(\"s\") over window(5 ", ", sliding)"), ("X", "", " == 1"), ("X", "A == \"", "\""), ("Q", "NOT ", " == true"),
                ("V", "", " + 1"), ("D", "(", " OR b(?x))"), ("NP", "g(?x) WHERE (p(?x) WHERE ", "(?y))"), ("NV", "p(?", ")"), ("SC", "a.", " == b.c"), ("SD", "5 ", ""),
            ] {
                for (w, k) in [(4usize, 2usize), (4, 3), (3, 1), (2, 1)] {
                    println!("{}", mk_case(e, &format!("{}{}{}", a, straddle(w, k, if grl_text(e, "").is_some() && e != "AC" && e != "PN" { 44 } else { CUT_LONG }, false), z)));
                }
            }
        }
        Some("cutfam") => {
            // c05 cutfam [time]  — the cases of the CUT family; with `time`: `<micros> <case>` per case (generator tuning aid)
            let mut v = Vec::new();
            cut_family(&mut v);
            let timed = args.get(2).map(|s| s == "time").unwrap_or(false);
            std::panic::set_hook(Box::new(|_| {}));
            for c in v {
                if timed {
                    let t0 = std::time::Instant::now();
                    let c2 = c.clone();
                    let r = std::panic::catch_unwind(move || exec(&c2)).unwrap_or_else(|_| "panic".into());
                    println!("{} {} {}", t0.elapsed().as_micros(), r.split(' ').next().unwrap_or("?"), c);
                } else {
                    println!("{}", c);
                }
            }
        }
        Some("one") => {
            // c05 one <E> <hex>  — debugging aid
            let s = unhex(&args[3]).unwrap();
            println!("{}", run_entry(&args[2], &s));
        }
        _ => main_with(Prop { gen, exec, shrink }),
    }
}
