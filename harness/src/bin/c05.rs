//! C05 — no text makes a parser or the expression evaluator panic or hang.
//!
//! case := `<E> <hex utf-8 input> <cls>`
//!   E   entry point / kernel reached through the public API (see `run_entry`)
//!   cls `-` or `cp:f,cp:f,…` — for every distinct non-ASCII char of the input its code point (hex)
//!       and Rust's own classification f = 1·is_whitespace + 2·is_alphabetic + 4·is_numeric
//!       (the Lean model is parametric in the classification; std's Unicode tables are an input).
//! obs  := `ok[ detail]` | `err` | `panic:<hex msg>`        (detail is entry specific, canonical)
//!
//! Beside the generic `gen | exec | shrink` there is the robustness **search** (fuzzing-like, labelled
//! as such in the evidence):
//!   c05 robust <seed> <n> <tier>   parent: generates n strings, runs ALL seven entry points on each in
//!                                  a CHILD process (`c05 child`, default 8 MiB main-thread stack) with a
//!                                  per-input watchdog; reports panics, crashes (signal) and hangs.
//!   c05 child                      reads `<hex>` lines, prints `<idx> <E>=<ok|err|panic:..>;…` per line
use rre_harness::*;
use rust_rule_engine::backward::aggregation::{parse_aggregate_query, AggregateFunction};
use rust_rule_engine::backward::disjunction::DisjunctionParser;
use rust_rule_engine::backward::expression::{Expression, ExpressionParser};
use rust_rule_engine::backward::grl_query::GRLQueryParser;
use rust_rule_engine::backward::nested::NestedQueryParser;
use rust_rule_engine::backward::query::QueryParser;
use rust_rule_engine::engine::rule::ConditionGroup;
use rust_rule_engine::expression::evaluate_expression;
use rust_rule_engine::parser::grl::stream_syntax::{
    parse_duration, parse_join_condition, parse_stream_join_pattern, parse_stream_pattern, parse_stream_source,
    parse_window_spec, parse_window_type, JoinCondition, StreamPattern, TemporalOp, WindowSpec, WindowType,
};
use rust_rule_engine::parser::grl::GRLParser;
use rust_rule_engine::{ActionType, Facts, RuleEngineError, Value};
use std::io::{BufRead, Write};

// ------------------------------------------------------------------------------------------------
// canonical rendering of results
// ------------------------------------------------------------------------------------------------
fn val(v: &Value) -> String {
    match v {
        Value::String(s) => format!("S{}", hex(s)),
        Value::Number(_) => "N".into(),
        Value::Integer(i) => format!("I{}", i),
        Value::Boolean(b) => format!("B{}", *b as u8),
        Value::Null => "Null".into(),
        Value::Expression(s) => format!("E{}", hex(s)),
        Value::Array(a) => format!("A[{}]", a.iter().map(val).collect::<Vec<_>>().join(";")),
        Value::Object(_) => "Obj".into(),
    }
}

fn ast(e: &Expression) -> String {
    match e {
        Expression::Field(n) => format!("F({})", hex(n)),
        Expression::Literal(Value::Number(_)) => "L(#)".into(),
        Expression::Literal(v) => format!("L({})", val(v)),
        Expression::Comparison { left, operator, right } => {
            format!("C({:?},{},{})", operator, ast(left), ast(right))
        }
        Expression::And { left, right } => format!("A({},{})", ast(left), ast(right)),
        Expression::Or { left, right } => format!("O({},{})", ast(left), ast(right)),
        Expression::Not(x) => format!("N({})", ast(x)),
        Expression::Variable(v) => format!("V({})", hex(v)),
    }
}

fn hexlist(xs: &[String]) -> String {
    if xs.is_empty() {
        "-".into()
    } else {
        xs.iter().map(|s| hex(s)).collect::<Vec<_>>().join(",")
    }
}

fn win(w: &WindowSpec) -> String {
    let t = match w.window_type {
        WindowType::Sliding => "s",
        WindowType::Tumbling => "t",
        _ => "o",
    };
    format!("{}{}", w.duration.as_millis(), t)
}
fn spat(p: &StreamPattern) -> String {
    format!(
        "{} {} {} {}",
        hex(&p.var_name),
        p.event_type.as_deref().map(hex).unwrap_or_else(|| "-".into()),
        hex(&p.source.stream_name),
        p.source.window.as_ref().map(win).unwrap_or_else(|| "-".into())
    )
}
/// `ok <bytes left> <detail>` | `err` for a nom result
fn nomres<T, E>(r: Result<(&str, T), E>, f: impl Fn(&T) -> String) -> String {
    match r {
        Ok((rest, v)) => format!("ok {} {}", rest.len(), f(&v)),
        Err(_) => "err".into(),
    }
}
fn hx0(s: &str) -> String {
    if s.is_empty() { "-".into() } else { hex(s) }
}

pub const WRAP_PN: (&str, &str) = ("rule \"", "\" { when X == 1 then Y = 1; }");
pub const WRAP_AC: (&str, &str) = ("rule \"r\" { when accumulate(", ") then Y = 1; }");
pub const WRAP_MC: &str = "rule \"r\" { when X == 1 then Y = 1; }";
pub const WRAP_AT: (&str, &str) = ("rule \"r\" ", " { when X == 1 then Y = 1; }");
pub const WRAP_RV: (&str, &str) = ("rule \"r\" { when X == ", " then Y = 1; }");
pub const WRAP_RA: (&str, &str) = ("rule \"r\" { when X == 1 then Y = ", "; }");
pub const WRAP_W: (&str, &str) = ("rule \"r\" { when ", " then Y = 1; }");
pub const WRAP_WF: (&str, &str) = ("rule \"r\" { when X == 1 then SetWorkflowData(\"", "\"); }");
pub const WRAP_WG: (&str, &str) = ("rule \"r\" { when X == 1 then set_workflow_data(\"", "\"); }");

/// the fixed facts `evaluate_expression` is driven with (the driver's `vFacts` is the same table): flat keys,
/// integer corner values, a float, a float zero, strings, a non-numeric variant
fn v_facts() -> Facts {
    let f = Facts::new();
    f.set("Z", Value::Integer(0));
    f.set("I", Value::Integer(7));
    f.set("M", Value::Integer(i64::MIN));
    f.set("MX", Value::Integer(i64::MAX));
    f.set("N1", Value::Integer(-1));
    f.set("F", Value::Number(2.5));
    f.set("FZ", Value::Number(0.0));
    f.set("S", Value::String("x".into()));
    f.set("SN", Value::String("12".into()));
    f.set("SZ", Value::String("0".into()));
    f.set("B", Value::Boolean(true));
    f.set("Order.quantity", Value::Integer(10));
    f.set("Order.none", Value::Integer(0));
    f
}

/// arithmetic corner operands for `evaluate_expression` (both streams)
const ARITH_TOK: [&str; 56] = [
    "% 0", "/ 0", "0 % 0", "0", "1", "7", "-1", "* -1", "+ 1", "- 1", "9223372036854775807", "9223372036854775808",
    "-9223372036854775808", "1e308", "* 10", "1e308 * 10", "99999999999999999999999999999999999999", "0.0", "-0", "0e5", "00",
    "1e-400", "0.000", ".0", "2.5", "inf", "NaN", "Z", "I", "M", "MX", "N1", "F", "FZ", "S", "SN", "SZ", "B", "Order.quantity",
    "Order.none", "Nope", "%", "/", "*", "+", "-", " ", "\"3\"", "'0'", "\"x\"", "\"\"", "(", ")", "Z % Z", "M % N1", "M / N1",
];
const ARITH_OPERANDS: [&str; 22] = [
    "0", "1", "7", "9223372036854775807", "9223372036854775808", "0.0", "2.5", "1e308", "Z", "I", "M", "MX", "N1", "F", "FZ", "S", "SN",
    "SZ", "B", "Order.none", "\"0\"", "'a'",
];
fn arith(rng: &mut Rng) -> String {
    match rng.below(3) {
        0 => {
            // a op b [op c]
            let mut s = format!("{} {} {}", rng.pick(&ARITH_OPERANDS), rng.pick(&["+", "-", "*", "/", "%"]), rng.pick(&ARITH_OPERANDS));
            if rng.chance(1, 2) {
                s = format!("{} {} {}", s, rng.pick(&["+", "-", "*", "/", "%"]), rng.pick(&ARITH_OPERANDS));
            }
            s
        }
        _ => pick_soup(rng, &ARITH_TOK, 8, true),
    }
}

/// every entry: the real code through its public API; returns the observation (panics propagate)
fn run_entry(e: &str, s: &str) -> String {
    match e {
        // ---- the seven entry points of the property
        "R" => match GRLParser::parse_rules(s) {
            Ok(rs) => format!("ok {}", rs.len()),
            Err(_) => "err".into(),
        },
        "M" => match GRLParser::parse_with_modules(s) {
            Ok(p) => format!("ok {}", p.rules.len()),
            Err(_) => "err".into(),
        },
        "Q" => match QueryParser::parse(s) {
            Ok(g) => format!(
                "ok {} {}",
                g.is_negated as u8,
                g.expression.as_ref().map(ast).unwrap_or_else(|| "-".into())
            ),
            Err(_) => "err".into(),
        },
        "X" => match ExpressionParser::parse(s) {
            Ok(x) => format!("ok {}", ast(&x)),
            Err(_) => "err".into(),
        },
        "G" => match GRLQueryParser::parse(s) {
            Ok(q) => format!("ok {} {} {}", hex(&q.goal), q.max_depth, q.max_solutions),
            Err(_) => "err".into(),
        },
        // the twin of `Q`: QueryParser::validate (parse, result dropped)
        "QV" => match QueryParser::validate(s) {
            Ok(()) => "ok".into(),
            Err(_) => "err".into(),
        },
        "S" => nomres(parse_stream_pattern(s), spat),
        "V" => match evaluate_expression(s, &v_facts()) {
            Ok(_) => "ok".into(),
            Err(_) => "err".into(),
        },
        // ---- further public functions that reach modelled kernels
        "GQ" => match GRLQueryParser::parse_queries(s) {
            Ok(qs) => format!("ok {}", hexlist(&qs.iter().map(|q| q.goal.clone()).collect::<Vec<_>>())),
            Err(_) => "err".into(),
        },
        "D" => match DisjunctionParser::parse(s) {
            Some(d) => format!("ok {}", hexlist(&d.branches.iter().map(|g| g.pattern.clone()).collect::<Vec<_>>())),
            None => "ok none".into(),
        },
        "DC" => format!("ok {}", DisjunctionParser::contains_or(s) as u8),
        "A" => match parse_aggregate_query(s) {
            Ok(q) => {
                let f = match &q.function {
                    AggregateFunction::Count => "count".to_string(),
                    AggregateFunction::Sum(v) => format!("sum:{}", hex(v)),
                    AggregateFunction::Avg(v) => format!("avg:{}", hex(v)),
                    AggregateFunction::Min(v) => format!("min:{}", hex(v)),
                    AggregateFunction::Max(v) => format!("max:{}", hex(v)),
                    AggregateFunction::First => "first".to_string(),
                    AggregateFunction::Last => "last".to_string(),
                };
                format!("ok {} {} {}", f, hex(&q.pattern), q.filter.as_deref().map(hex).unwrap_or_else(|| "none".into()))
            }
            Err(_) => "err".into(),
        },
        "NH" => format!("ok {}", NestedQueryParser::has_nested(s) as u8),
        "NP" => {
            let q = NestedQueryParser::parse(s);
            format!("ok {}", hexlist(&q.goals.iter().map(|g| g.pattern.clone()).collect::<Vec<_>>()))
        }
        // parse_value reached through a condition value / an assignment value / a when clause
        "RV" => match GRLParser::parse_rules(&format!("{}{}{}", WRAP_RV.0, s, WRAP_RV.1)) {
            Ok(rs) => match rs.first().map(|r| &r.conditions) {
                Some(ConditionGroup::Single(c)) if rs.len() == 1 => format!("ok {}", val(&c.value)),
                _ => format!("ok other{}", rs.len()),
            },
            Err(_) => "err".into(),
        },
        "RA" => match GRLParser::parse_rules(&format!("{}{}{}", WRAP_RA.0, s, WRAP_RA.1)) {
            Ok(rs) => match rs.first().map(|r| r.actions.as_slice()) {
                Some([ActionType::Set { value, .. }]) if rs.len() == 1 => format!("ok {}", val(value)),
                _ => format!("ok other{}", rs.len()),
            },
            Err(_) => "err".into(),
        },
        "W" => match GRLParser::parse_rules(&format!("{}{}{}", WRAP_W.0, s, WRAP_W.1)) {
            Ok(rs) => format!("ok {}", rs.len()),
            Err(_) => "err".into(),
        },
        // ---- the stream-pattern grammar (nom): every public parser of stream_syntax.rs
        "SJ" => nomres(parse_stream_join_pattern(s), |j| format!("{} {}", spat(&j.left), spat(&j.right))),
        "SC" => nomres(parse_join_condition(s), |c| match c {
            JoinCondition::Equality { left_field, right_field } => format!("eq {} {}", hex(left_field), hex(right_field)),
            JoinCondition::Expression(e) => format!("ex {}", hex(e)),
            JoinCondition::Temporal { operator, left_field, right_field } => format!(
                "{} {} {}",
                match operator {
                    TemporalOp::Before => "before",
                    TemporalOp::After => "after",
                    TemporalOp::Within => "within",
                },
                hex(left_field),
                hex(right_field)
            ),
        }),
        "SD" => nomres(parse_duration(s), |d| format!("{}", d.as_millis())),
        "SW" => nomres(parse_window_spec(s), win),
        "SS" => nomres(parse_stream_source(s), |x| {
            format!("{} {}", hex(&x.stream_name), x.window.as_ref().map(win).unwrap_or_else(|| "-".into()))
        }),
        "ST" => nomres(parse_window_type(s), |t| match t {
            WindowType::Sliding => "s".to_string(),
            WindowType::Tumbling => "t".to_string(),
            _ => "o".to_string(),
        }),
        // ---- strip_comments -> mask_string_literals -> clean_text -> unmask, observed through the error
        // message of parse_rule on a text that is not a rule ("Invalid GRL rule format. Input: <unmasked>")
        "PU" => match GRLParser::parse_rule(s) {
            Ok(r) => format!("ok {}", hx0(&r.name)),
            Err(RuleEngineError::ParseError { message }) => format!("err {}", hx0(&message)),
            Err(_) => "err other".into(),
        },
        // the rule name goes through mask (table entry) and unmask (table lookup)
        "PN" => match GRLParser::parse_rule(&format!("{}{}{}", WRAP_PN.0, s, WRAP_PN.1)) {
            Ok(r) => format!("ok {}", hx0(&r.name)),
            Err(_) => "err".into(),
        },
        // parse_accumulate_condition / split_accumulate_parts / parse_accumulate_pattern / _function
        "AC" => match GRLParser::parse_rules(&format!("{}{}{}", WRAP_AC.0, s, WRAP_AC.1)) {
            Ok(rs) => match rs.first().map(|r| &r.conditions) {
                Some(ConditionGroup::Accumulate { source_pattern, extract_field, source_conditions, function, function_arg, .. })
                    if rs.len() == 1 =>
                {
                    format!(
                        "ok {} {} {} {} {}",
                        hx0(source_pattern),
                        hx0(extract_field),
                        hexlist(source_conditions),
                        hx0(function),
                        hx0(function_arg)
                    )
                }
                _ => format!("ok other{}", rs.len()),
            },
            Err(_) => "err".into(),
        },
        // the SetWorkflowData("key=value") / set_workflow_data(..) branch of parse_action_statement: the one text that is unmasked twice
        "WF" | "WG" => {
            let w = if e == "WF" { WRAP_WF } else { WRAP_WG };
            match GRLParser::parse_rules(&format!("{}{}{}", w.0, s, w.1)) {
                Ok(rs) => match rs.first().map(|r| r.actions.as_slice()) {
                    Some([ActionType::SetWorkflowData { key, value }]) if rs.len() == 1 => format!("ok {} {}", hx0(key), val(value)),
                    _ => format!("ok other{}", rs.len()),
                },
                Err(_) => "err".into(),
            }
        }
        // extract_module_from_context: <prefix> + one fixed rule through parse_with_modules
        "MC" => match GRLParser::parse_with_modules(&format!("{}{}", s, WRAP_MC)) {
            Ok(p) => {
                let mut v: Vec<String> = p.rule_modules.iter().map(|(k, m)| format!("{}={}", hx0(k), hx0(m))).collect();
                v.sort();
                format!("ok {}", if v.is_empty() { "-".to_string() } else { v.join(",") })
            }
            Err(_) => "err".into(),
        },
        // parse_rule_attributes: the attribute section of a fixed rule
        "AT" => match GRLParser::parse_rule(&format!("{}{}{}", WRAP_AT.0, s, WRAP_AT.1)) {
            Ok(r) => format!("ok {}{}", r.no_loop as u8, r.lock_on_active as u8),
            Err(_) => "err".into(),
        },
        _ => "bad-entry".into(),
    }
}

const SEVEN: [&str; 7] = ["R", "M", "Q", "X", "G", "S", "V"];
/// entries whose observation the Lean model predicts (see Driver/C05.lean)
const MODELLED: [&str; 27] = [
    "X", "Q", "V", "D", "DC", "G", "GQ", "A", "NH", "NP", "RV", "RA", "S", "SJ", "SC", "SD", "SW", "SS", "ST", "PU", "PN", "AC", "MC",
    "AT", "QV", "WF", "WG",
];
/// whole-rule entries without a prediction (oracle only): parse_rules, parse_with_modules, a when clause through parse_rules;
/// parse_rule on a whole rule is `PU` (predicted `-` as soon as the text contains `rule`)
const WHOLE: [&str; 4] = ["R", "M", "PU", "W"];

/// a token of `xs`; one in ten is a Unicode white space character or a look-alike separator instead (every alphabet has them)
fn pick_u<'a>(rng: &mut Rng, xs: &[&'a str]) -> &'a str {
    if rng.chance(1, 10) {
        if rng.chance(2, 3) { *rng.pick(&UWS) } else { *rng.pick(&USEP) }
    } else {
        *rng.pick(xs)
    }
}

fn pick_soup(rng: &mut Rng, toks: &[&str], max: u64, space: bool) -> String {
    let mut s = String::new();
    for _ in 0..rng.range(0, max) {
        s.push_str(pick_u(rng, toks));
        if space && rng.chance(1, 3) {
            s.push(' ');
        }
    }
    s
}

/// text with placeholder-looking pieces (`U+0001 <digits> U+0002`), quotes, comments, line breaks
const MASK_TOK: [&str; 40] = [
    "\u{1}", "\u{2}", "0", "1", "2", "5", "+", "+0", "00", "99999999999999999999", "18446744073709551615", "18446744073709551616",
    "\"", "'", "\n", "\r\n", "a", " ", "é", "日", "\u{a0}", "//", "/*", "*/", "/", "*", "\"ab\"", "'c'", "\"\"", "\u{1}0\u{2}", "\u{1}1\u{2}",
    "\u{1}2\u{2}", "\u{1}\u{1}", "\u{1}x\u{2}", "x y", "\"é\u{1}\"", "'\u{1}0\u{2}'", "-", "\t", "\"//\"",
];
const ACC_TOK: [&str; 36] = [
    "Order", "(", ")", ",", "$amount", ":", "amount", "status", "==", "\"completed\"", "'x,y'", "sum", "count", " ", "é", "日", "$", ">",
    "<", "!=", ">=", "\"", "'", "\u{1}0\u{2}", "\u{1}", "a", "\u{a0}", "1", "()", "($a: a)", "sum($a)", "$é:", "\"a)b\"", "((", "))", ", ",
];
const ACC_BASE: [&str; 4] = [
    "Order($amount: amount, status == \"completed\"), sum($amount)",
    "Order($a: a), count()",
    "Évén($x: é, y > 1, z != 'q,r'), average($x)",
    " T ( $v : f , g <= 2 ) , min( $v ) ",
];
const MC_TOK: [&str; 18] = [
    ";; MODULE:", ";; MODULE: ", ";;", "MODULE:", " ", "\n", "SENSORS", "- x", "é", "日", "\u{a0}", "A", ";", ":", "\t", "\u{1}", "\r", "\u{3000}",
];
const AT_TOK: [&str; 22] = [
    "no-loop", "lock-on-active", "rule", "rule x", "salience 5", "agenda-group \"g\"", "\"no-loop\"", "x", "-", " ", "_", "é", "\"",
    "activation-group \"a b\"", "no-loop1", "xno-loop", "rulelock-on-active", "no-loop-", "\"rule\"", "true", "lock-on-active,", "\u{1}0\u{2}",
];
/// the body of the literal of `SetWorkflowData("…")`: key, `=`, value forms, placeholder-looking pieces (no `"`, no line break)
const WF_TOK: [&str; 34] = [
    "k", "=", "v", " ", "1", "true", "null", "A.b", "+", "[", "]", ",", "'", "é", "\u{a0}", "\u{1}0\u{2}", "\u{1}1\u{2}", "\u{1}2\u{2}", "\u{1}7\u{2}",
    "\u{1}", "\u{2}", "0", "99999999999999999999", ";", ")", "(", "}", "-5", "2.5", "x y", "stage", "\u{1}18446744073709551616\u{2}", "//", "日",
];
const STREAM_TOK: [&str; 30] = [
    "ev", ":", " ", "T", "from", "stream", "(", ")", "\"", "s", "over", "window", ",", "5", "min", "hours", "ms", "sliding", "tumbling",
    "18446744073709551615", "307445734561825861", "é", "\u{a0}", "sec", "\n", "_", "99999999999999999999", "&&", "\t", "from stream(\"s\")",
];
const DUR_TOK: [&str; 24] = [
    "5", " ", "min", "ms", "hours", "hour", "sec", "seconds", "minutes", "milliseconds", "18446744073709551615", "18446744073709551616",
    "307445734561825860", "307445734561825861", "5124095576030431", "5124095576030432", "x", "é", "\t", "0", "007", "\n", "Min", "٣",
];
const JOIN_TOK: [&str; 20] = [
    "a", ".", "b", "time", "==", "!=", "<=", ">=", "<", ">", " ", "_", "é", "1", "x.y", "ts.time", "=", "\t", "٣", "a.b",
];
const STREAM_BASE: [&str; 6] = [
    "event: EventType from stream(\"events\") over window(5 min, sliding)",
    "reading : T from stream( \"s\" ) over window(18446744073709551615 hours, tumbling)",
    "e: from stream(\"x\")",
    "é٣_: Ünï from stream(\"日 本\")over window(307445734561825860 min,tumbling) tail",
    "a: A from stream(\"s\") over window(1 ms, sliding) && b: B from stream(\"t\")",
    "  from   stream  (  \"sensor-data\"  )  over window( 30 seconds , sliding ) ",
];


fn cls_of(s: &str) -> String {
    let mut cs: Vec<char> = s.chars().filter(|c| !c.is_ascii()).collect();
    cs.sort();
    cs.dedup();
    if cs.is_empty() {
        return "-".into();
    }
    cs.iter()
        .map(|c| {
            let f = (c.is_whitespace() as u8) + 2 * (c.is_alphabetic() as u8) + 4 * (c.is_numeric() as u8);
            format!("{:x}:{}", *c as u32, f)
        })
        .collect::<Vec<_>>()
        .join(",")
}

fn mk_case(e: &str, s: &str) -> String {
    format!("{} {} {}", e, hex(s), cls_of(s))
}

fn exec(case: &str) -> String {
    let t: Vec<&str> = case.split_whitespace().collect();
    if t.len() != 3 {
        return "bad-case".into();
    }
    let Some(s) = unhex(t[1]) else { return "bad-case".into() };
    run_entry(t[0], &s)
}

// ------------------------------------------------------------------------------------------------
// generators
// ------------------------------------------------------------------------------------------------
const MB: [&str; 30] = [
    "é", "ß", "日", "本", "😀", "²", "٣", "\u{a0}", "\u{3000}", "\u{2028}", "ñ", "Ω", "\u{fffd}", "\u{85}", "\u{2003}", "\u{1680}", "\u{202f}",
    "\u{2029}", "\u{200b}", "\u{feff}", "（", "）", "＂", "＝", "＆", "｜", "！", "，", "\u{b}", "\u{c}",
];
/// white space other than blank / tab / line break: multi-byte Unicode White_Space (char::is_whitespace: NBSP, NEL, EM SPACE,
/// IDEOGRAPHIC SPACE, LINE/PARAGRAPH SEPARATOR, OGHAM SPACE MARK, THIN SPACE, NARROW NBSP, MEDIUM MATHEMATICAL SPACE) and the ASCII VT / FF
/// (white space for `trim`, not for the regex engine's `\s` nor for nom's multispace)
const UWS: [&str; 12] =
    ["\u{a0}", "\u{85}", "\u{2003}", "\u{3000}", "\u{2028}", "\u{2029}", "\u{1680}", "\u{2009}", "\u{202f}", "\u{205f}", "\u{b}", "\u{c}"];
/// the four the seeded change names: 2-byte and 3-byte white space
const UWS_MAIN: [&str; 4] = ["\u{a0}", "\u{85}", "\u{2003}", "\u{3000}"];
/// multi-byte characters that LOOK like white space or like ASCII syntax but are neither: ZERO WIDTH SPACE, BOM / ZWNBSP, WORD JOINER,
/// MONGOLIAN VOWEL SEPARATOR, fullwidth parentheses / quotes / operators / separators
const USEP: [&str; 20] = [
    "\u{200b}", "\u{feff}", "\u{2060}", "\u{180e}", "（", "）", "＂", "＇", "＝", "＆", "｜", "！", "＋", "，", "；", "：", "｛", "｝", "＜", "．",
];
/// numbers at and beyond every integer width the parsers convert to (i32 / i64 / u64 = usize / f64), leading zeros, absurd lengths
const NUMS: [&str; 20] = [
    "0", "00", "007", "2147483647", "2147483648", "4294967295", "4294967296", "9223372036854775807", "9223372036854775808",
    "18446744073709551615", "18446744073709551616", "18446744073709551617", "99999999999999999999", "999999999999999999999999999999",
    "340282366920938463463374607431768211456", "00000000000000000000000000000000000007", "000000000000000000018446744073709551615",
    "000000000000000000018446744073709551616", "1", "10",
];
/// placeholder-looking text (`MASK_START <index> MASK_END`) to be put INSIDE string literals: indices inside / beyond the table,
/// beyond usize, signed, zero-padded, empty, unterminated, nested
const PH: [&str; 16] = [
    "\u{1}0\u{2}", "\u{1}1\u{2}", "\u{1}2\u{2}", "\u{1}7\u{2}", "\u{1}99\u{2}", "\u{1}18446744073709551615\u{2}", "\u{1}18446744073709551616\u{2}",
    "\u{1}99999999999999999999999999999\u{2}", "\u{1}\u{2}", "\u{1}", "\u{2}", "\u{1}+1\u{2}", "\u{1}-1\u{2}", "\u{1}007\u{2}", "\u{1}3", "\u{1}1\u{1}9\u{2}\u{2}",
];
const EXPR_TOK: [&str; 50] = [
    "User.Age", "X", "a", "b1", "_x", "Order.Total", "true", "false", "null", "0", "1", "42", "3.14", "-7", "1.", "-", ".",
    "9223372036854775808", "==", "!=", ">=", "<=", ">", "<", "&&", "||", "!", "(", ")", "\"s\"", "\"a b\"", "\"", "'", "'q'",
    "\\", "\\\"", "?x", "?", "+", "-", "*", "/", "%", " ", "  ", "\t", "NOT ", "=", "&", "|",
];
const GRL_TOK: [&str; 60] = [
    "rule", "when", "then", "salience", "no-loop", "lock-on-active", "agenda-group", "activation-group", "date-effective",
    "date-expires", "defmodule", "export:", "import:", "all", "exists(", "forall(", "accumulate(", "test(", "from stream(",
    "over window(", "query", "goal:", "strategy:", "on-success:", "when:", "{", "}", "(", ")", "[", "]", ";", ",", ":", ".",
    "\"", "'", "==", "!=", ">=", "<=", ">", "<", "=", "+=", "&&", "||", "!", "+", "-", "*", "/", "%", "$", "?", " ", "\n",
    "//", "X", "1",
];
const VALID_RULES: [&str; 10] = [
    "rule \"WF\" salience 5 { when X.s == \"a b\" && Y.n > 2 then SetWorkflowData(\"stage=done\"); set_workflow_data(\"k 1=v w\"); Log(\"msg 1\"); CompleteWorkflow(\"wf\"); }",
    "rule \"Calls\" no-loop { when f(\"p q\", 1) == 'r s' then $Car.setName(\"n 1\", 2); sendEmail(\"a@b\", 'Hi there', 3); Msg.t = \"Hello, \" + U.n + \"!\"; Tags += \"t=1\"; }",
    "rule \"CheckAge\" salience 10 {\n when\n  User.Age >= 18 && User.Country == \"US\"\n then\n  User.IsAdult = true;\n  Retract(\"User\");\n}",
    "rule R2 \"desc\" no-loop agenda-group \"g\" {\n when (A.x > 1 || B.y == \"s\") && !(C.z < 2.5)\n then A.x = A.x + 1; log(\"hi\");\n}",
    "rule \"Arr\" { when Product.tags contains \"e\" && X in [\"a\", 'b', 3] then Y += \"v\"; $Car.setSpeed($Car.Speed + 1); }",
    "rule \"Ex\" { when exists(Order.total > 100) && forall(Item.ok == true) then ActivateAgendaGroup(\"g\"); ScheduleRule(5000, \"n\"); }",
    "rule \"Acc\" { when accumulate(Order($amount: amount, status == \"completed\"), sum($amount)) then T.v = 1; }",
    "defmodule SENSORS {\n export: all\n}\ndefmodule CONTROL {\n import: SENSORS (rules * (templates temperature))\n}\n;; MODULE: SENSORS - x\nrule \"CheckTemp\" {\n when temperature.value > 28\n then println(\"Hot\");\n}",
    "rule \"St\" { when login: LoginEvent from stream(\"logins\") over window(10 min, sliding) then X = 1; }",
    "rule \"MF\" { when Order.items count > 0 && Queue.tasks first $t && test(f(a, b)) && $T : Car( speedUp == true && speed < max ) then SetWorkflowData(\"k=v\"); }",
];
const VALID_QUERIES: [&str; 4] = [
    "query \"Nums\" {\n goal: eligible(?x) && Order.Total > 100\n strategy: breadth-first\n max-depth: 25\n max-solutions: 3\n enable-memoization: true\n on-failure: { LogMessage(\"no 1\"); }\n}",
    "query \"CheckVIP\" {\n    goal: User.IsVIP == true\n    strategy: depth-first\n    max-depth: 10\n    on-success: {\n        User.DiscountRate = 0.2;\n        LogMessage(\"VIP confirmed\");\n    }\n}",
    "query \"Q2\" {\n goal: (A.x == 1 && B.y != \"s)\") || C.z > 2\n when: X.ready == true\n enable-memoization: false\n}\nquery \"Q3\" { goal: Y == 2\n}",
    "query \"Q4\" { goal: f(\"a\\\"b\") == true\n max-solutions: 5\n}",
];
const VALID_MISC: [&str; 11] = [
    "NOT User.IsBanned == true",
    "  NOT  (A == 1 || B == 2)  ",
    "NOT\tX.y != \"a b\" && !Z",
    "(manager(?p) OR senior(?p))",
    "(A OR (B AND C) OR \"x OR y\")",
    "count(?x) WHERE employee(?x)",
    "avg(?salary) WHERE salary(?name, ?salary) AND ?salary > 50000",
    "grandparent(?x, ?z) WHERE parent(?x, ?y) AND (parent(?y, ?z) WHERE child(?z, ?y))",
    "event: EventType from stream(\"events\") over window(5 min, sliding)",
    "reading : T from stream( \"s\" ) over window(18446744073709551615 hours, tumbling)",
    "Order.quantity * Order.price + 10 - \"a\" % 3 / 0",
];

fn soup(rng: &mut Rng, toks: &[&str], max: u64) -> String {
    let n = rng.range(0, max);
    let mut s = String::new();
    for _ in 0..n {
        if rng.chance(1, 9) {
            s.push_str(*rng.pick(&MB));
        } else {
            s.push_str(*rng.pick(toks));
        }
        if rng.chance(1, 3) {
            s.push(' ');
        }
    }
    s
}

fn char_positions(s: &str) -> Vec<usize> {
    let mut v: Vec<usize> = s.char_indices().map(|(i, _)| i).collect();
    v.push(s.len());
    v
}

/// splice / truncate / duplicate / multi-byte insertion at char boundaries (the result stays valid UTF-8)
fn mutate(rng: &mut Rng, base: &str, toks: &[&str]) -> String {
    let mut s = base.to_string();
    for _ in 0..rng.range(1, 4) {
        let pos = char_positions(&s);
        let a = *rng.pick(&pos);
        let b = *rng.pick(&pos);
        let (a, b) = (a.min(b), a.max(b));
        match rng.below(6) {
            0 => s.truncate(a),
            1 => s = format!("{}{}", &s[..a], &s[b..]),
            2 => s = format!("{}{}{}", &s[..b], &s[a..b], &s[b..]),
            3 => s.insert_str(a, *rng.pick(&MB)),
            4 => s.insert_str(a, *rng.pick(toks)),
            _ => {
                let other = *rng.pick(&VALID_RULES);
                let p2 = char_positions(other);
                let c = *rng.pick(&p2);
                let d = *rng.pick(&p2);
                s.insert_str(a, &other[c.min(d)..c.max(d)]);
            }
        }
        if s.len() > 4096 {
            let pos = char_positions(&s);
            let cut = *pos.iter().filter(|p| **p <= 4096).last().unwrap_or(&0);
            s.truncate(cut);
        }
    }
    s
}

fn raw_lossy(rng: &mut Rng) -> String {
    let hi = if rng.chance(1, 20) { 600 } else { 48 };
    let n = rng.range(0, hi) as usize;
    let bytes: Vec<u8> = (0..n)
        .map(|_| match rng.below(4) {
            0 => rng.below(256) as u8,
            1 => *rng.pick(b"(){}[]\"'!&|=<>+-*/%.,;:?$ \n"),
            _ => rng.range(0x20, 0x7e) as u8,
        })
        .collect();
    String::from_utf8_lossy(&bytes).into_owned()
}

fn chain(rng: &mut Rng) -> String {
    let n = *rng.pick(&[1usize, 7, 32, 200, 1000, 4000, 4096]);
    match rng.below(8) {
        0 => "!".repeat(n),
        1 => "(".repeat(n),
        2 => format!("{}x", "!".repeat(n.min(4095))),
        3 => {
            let d = rng.range(1, 32) as usize;
            format!("{}X == 1{}", "(".repeat(d), ")".repeat(d))
        }
        4 => {
            let d = rng.range(1, 32) as usize;
            format!("{}{}", "[".repeat(d), "]".repeat(d))
        }
        5 => "-".repeat(n),
        6 => {
            let k = n.min(2000);
            let mut s = String::from("1");
            for _ in 0..k {
                s.push_str("+1");
            }
            s
        }
        _ => ")".repeat(n),
    }
}

fn wrap_rule(body: &str) -> String {
    format!("rule \"r\" {{ when {} then Y = 1; }}", body)
}

/// F-C05h (known finding, probed separately by `growth`): `condition_regex().captures(leaf)` in
/// `parse_single_condition` is ~quartic in the leaf length (rexile backtracking), so a `when` leaf of a few
/// hundred bytes takes minutes. To keep the search from re-finding only that, leaves after the first `when`
/// are capped at `WHEN_LEAF_CAP` bytes in this stream (separators: `&&  ||  then  }  ;`).
pub const WHEN_LEAF_CAP: usize = 40;
fn cap_when_leaves(s: &str) -> String {
    let Some(w) = s.find("when") else { return s.to_string() };
    let (head, tail) = s.split_at(w + 4);
    let mut out = String::from(head);
    let mut run = 0usize;
    let mut depth = 0i64; // `&&` / `||` split a when clause only at parenthesis depth 0 (split_logical_operator)
    let mut rest = tail;
    while let Some(c) = rest.chars().next() {
        let sep = ["&&", "||", "then", "}", ";"].iter().find(|p| rest.starts_with(**p));
        if let Some(p) = sep {
            out.push_str(p);
            rest = &rest[p.len()..];
            if depth == 0 || !(*p == "&&" || *p == "||") {
                run = 0;
                if !(*p == "&&" || *p == "||") {
                    depth = 0;
                }
            } else {
                run += p.len();
            }
            continue;
        }
        if run + c.len_utf8() <= WHEN_LEAF_CAP {
            out.push(c);
            run += c.len_utf8();
            if c == '(' {
                depth += 1;
            } else if c == ')' {
                depth -= 1;
            }
        }
        rest = &rest[c.len_utf8()..];
    }
    out
}

/// one string of the robustness stream (search): raw / soup / mutated valid / chains
fn robust_string(rng: &mut Rng) -> (String, &'static str) {
    if rng.chance(1, 12) {
        return (arith(rng), "arith");
    }
    if rng.chance(1, 16) {
        return (pick_soup(rng, &MASK_TOK, 14, false), "masktext");
    }
    if rng.chance(1, 5) {
        // a valid rule / query / goal / stream pattern with blanks, numbers or literal bodies swapped (all seven entry points see it)
        let b: String = match rng.below(6) {
            0 | 1 | 2 => rng.pick(&VALID_RULES).to_string(),
            3 => rng.pick(&VALID_QUERIES).to_string(),
            4 => rng.pick(&VALID_MISC).to_string(),
            _ => {
                let e = *rng.pick(&["Q", "X", "V", "S", "G"]);
                rng.pick(&bases_for(e)).clone()
            }
        };
        let mut s = swap_any(rng, &b, 39);
        if rng.chance(1, 4) {
            s = mutate(rng, &s, &GRL_TOK);
        }
        return (s, "swapped");
    }
    match rng.below(10) {
        0 | 1 => (raw_lossy(rng), "raw"),
        2 | 3 => (soup(rng, &GRL_TOK, 40), "soup"),
        4 => (soup(rng, &EXPR_TOK, 30), "soup"),
        5 | 6 => {
            let b = *rng.pick(&VALID_RULES);
            (mutate(rng, b, &GRL_TOK), "mutated")
        }
        7 => {
            let b = if rng.chance(1, 2) { *rng.pick(&VALID_QUERIES) } else { *rng.pick(&VALID_MISC) };
            (mutate(rng, b, &EXPR_TOK), "mutated")
        }
        8 => {
            let c = chain(rng);
            if rng.chance(1, 2) {
                (wrap_rule(&c), "chain")
            } else {
                (c, "chain")
            }
        }
        _ => {
            let c = soup(rng, &EXPR_TOK, 12);
            (wrap_rule(&c), "soup")
        }
    }
}

/// restricted payload for RV/RA: no `= < > ! & | ( ) { } ; $ : newline`, never the word `then`
fn value_payload(rng: &mut Rng) -> String {
    const T: [&str; 40] = [
        "a", "b", "c", "_", "ab", "a.b", "A.b_c", "true", "false", "null", "TRUE", "inf", "NaN", "1", "0", "-5", "+3", "2.5", "1e5",
        "9223372036854775807", "9223372036854775808", "\"", "'", "\"x\"", "'y'", "[", "]", "[]", ",", ".", " ", "  ", "+", "-", "*",
        "/", "%", "\t", "e", "E",
    ];
    let n = rng.range(0, 6);
    let mut s = String::new();
    for _ in 0..n {
        if rng.chance(1, 6) {
            s.push_str(*rng.pick(&MB));
        } else {
            s.push_str(*rng.pick(&T));
        }
    }
    // `//` and `/*` start a comment (stripped by the parser before anything else since the C04 comment fix):
    // they are layout, not part of a value
    while s.contains("//") || s.contains("/*") {
        s = s.replace("//", "/ /").replace("/*", "/ *");
    }
    s
}

// ------------------------------------------------------------------------------------------------
// structured mutations of VALID inputs: white space, numbers, string-literal bodies
// ------------------------------------------------------------------------------------------------
/// byte ranges of the ASCII blanks (blank, tab, CR, LF), one range per character
fn blank_slots(s: &str) -> Vec<(usize, usize)> {
    s.char_indices().filter(|(_, c)| matches!(c, ' ' | '\t' | '\n' | '\r')).map(|(i, _)| (i, i + 1)).collect()
}
/// byte ranges of the maximal ASCII digit runs (every numeric position of the grammar the text belongs to)
fn digit_slots(s: &str) -> Vec<(usize, usize)> {
    let b = s.as_bytes();
    let mut v = Vec::new();
    let mut i = 0;
    while i < b.len() {
        if b[i].is_ascii_digit() {
            let a = i;
            while i < b.len() && b[i].is_ascii_digit() {
                i += 1;
            }
            v.push((a, i));
        } else {
            i += 1;
        }
    }
    v
}
/// byte ranges of the string-literal BODIES (between a quote character and the next same quote on the same line; `\"` is skipped
/// the way the query grammar does)
fn literal_slots(s: &str) -> Vec<(usize, usize)> {
    let b = s.as_bytes();
    let mut v = Vec::new();
    let mut i = 0;
    while i < b.len() {
        if b[i] == b'"' || b[i] == b'\'' {
            let q = b[i];
            let a = i + 1;
            let mut j = a;
            while j < b.len() && b[j] != q && b[j] != b'\n' {
                j += if b[j] == b'\\' && j + 1 < b.len() && b[j + 1] != b'\n' { 2 } else { 1 };
            }
            if j < b.len() && b[j] == q {
                v.push((a, j));
                i = j + 1;
                continue;
            }
        }
        i += 1;
    }
    v
}
fn subst(s: &str, slot: (usize, usize), rep: &str) -> String {
    format!("{}{}{}", &s[..slot.0], rep, &s[slot.1..])
}
/// a placeholder-looking piece put inside the literal body `slot`: 0 replace the body, 1 append, 2 prepend, 3 after the first `=`
/// of the body (the value part of `SetWorkflowData("key=value")`, which is unmasked twice), 4 in the middle
fn lit_ph(s: &str, slot: (usize, usize), ph: &str, mode: usize) -> String {
    let body = &s[slot.0..slot.1];
    let new = match mode {
        0 => ph.to_string(),
        1 => format!("{}{}", body, ph),
        2 => format!("{}{}", ph, body),
        3 => match body.find('=') {
            Some(p) => format!("{}{}{}", &body[..=p], ph, &body[p + 1..]),
            None => format!("k={}", ph),
        },
        _ => {
            let cp = char_positions(body);
            let m = cp[cp.len() / 2];
            format!("{}{}{}", &body[..m], ph, &body[m..])
        }
    };
    subst(s, slot, &new)
}
/// ASCII blanks replaced by unusual white space / look-alike separators: one blank, every blank by the same character, or each
/// blank with probability 1/3 by a random one
fn blank_swap(rng: &mut Rng, s: &str) -> String {
    let slots = blank_slots(s);
    if slots.is_empty() {
        return format!("{}{}", s, rng.pick(&UWS));
    }
    let pickc = |rng: &mut Rng| if rng.chance(3, 4) { *rng.pick(&UWS) } else { *rng.pick(&USEP) };
    match rng.below(3) {
        0 => {
            let sl = *rng.pick(&slots);
            subst(s, sl, pickc(rng))
        }
        1 => {
            let c = pickc(rng);
            s.chars().map(|x| if matches!(x, ' ' | '\t' | '\n' | '\r') { c.to_string() } else { x.to_string() }).collect()
        }
        _ => s.chars().map(|x| if matches!(x, ' ' | '\t' | '\n' | '\r') && rng.chance(1, 3) { pickc(rng).to_string() } else { x.to_string() }).collect(),
    }
}
/// a digit run of `max` bytes at most (a `when` leaf must stay short: F-C05h)
fn big_number(rng: &mut Rng, max: usize) -> String {
    let n = match rng.below(8) {
        0 => "9".repeat(*rng.pick(&[19usize, 20, 21, 30, 64, 200, 400])),
        1 => format!("{}{}", "0".repeat(*rng.pick(&[1usize, 17, 30, 100])), rng.pick(&NUMS)),
        _ => rng.pick(&NUMS).to_string(),
    };
    if n.len() > max { n[..max].to_string() } else { n }
}
/// one or every digit run replaced by a boundary / absurd number; a text without digits gets one appended
fn num_swap(rng: &mut Rng, s: &str, max: usize) -> String {
    let slots = digit_slots(s);
    if slots.is_empty() {
        return format!("{} {}", s, big_number(rng, max));
    }
    if rng.chance(1, 4) {
        let mut out = s.to_string();
        for sl in slots.iter().rev() {
            out = subst(&out, *sl, &big_number(rng, max));
        }
        out
    } else {
        let sl = *rng.pick(&slots);
        subst(s, sl, &big_number(rng, max))
    }
}
/// placeholder-looking text inside one (or every) string literal; a text without literal gets one
fn lit_swap(rng: &mut Rng, s: &str) -> String {
    let slots = literal_slots(s);
    if slots.is_empty() {
        return format!("{} \"{}\"", s, rng.pick(&PH));
    }
    if rng.chance(1, 5) {
        let mut out = s.to_string();
        for sl in slots.iter().rev() {
            out = lit_ph(&out, *sl, *rng.pick(&PH), rng.below(5) as usize);
        }
        out
    } else {
        let sl = *rng.pick(&slots);
        lit_ph(s, sl, *rng.pick(&PH), rng.below(5) as usize)
    }
}
/// one of the three structured mutations (`max_num`: longest digit run)
fn swap_any(rng: &mut Rng, s: &str, max_num: usize) -> String {
    match rng.below(5) {
        0 | 1 => blank_swap(rng, s),
        2 => num_swap(rng, s, max_num),
        3 => lit_swap(rng, s),
        _ => {
            let t = blank_swap(rng, s);
            if rng.chance(1, 2) { num_swap(rng, &t, max_num) } else { lit_swap(rng, &t) }
        }
    }
}

/// valid inputs of every entry (the documented forms): the seeds of the structured mutations
fn bases_for(e: &str) -> Vec<String> {
    let v = |xs: &[&str]| xs.iter().map(|x| x.to_string()).collect::<Vec<_>>();
    match e {
        "X" => v(&[
            "User.IsVIP == true && (Order.Amount > 1000 || !(X != \"a\\\"b\"))",
            "a.b >= 3.14 || ?x == 'q r' && !flag",
            "( A == 1 ) && ( B != \"two words\" )",
        ]),
        "Q" | "QV" => v(&[
            "NOT User.IsBanned == true",
            "  NOT  (A == 1 || B == 2)  ",
            "NOT\tX.y != \"a b\" && !Z",
            "NOT !Y",
            "NOT NOT X == 1",
            "User.IsVIP == true && Order.Amount > 1000",
        ]),
        "V" => v(&[
            "Order.quantity * Order.price + 10 - \"a\" % 3 / 0",
            "I + 1",
            "( MX - 1 ) * 2",
            "\"a b\" + S",
            "F / 2.5 + Order.quantity % 7",
        ]),
        "D" | "DC" => v(&VALID_MISC[3..5]),
        "G" | "GQ" => v(&VALID_QUERIES),
        "A" => v(&VALID_MISC[5..7]),
        "NH" | "NP" => v(&VALID_MISC[7..8]),
        "S" | "SJ" => v(&STREAM_BASE),
        "SS" => STREAM_BASE.iter().filter_map(|b| b.split_once("from").map(|x| format!("from{}", x.1))).collect(),
        "SW" => STREAM_BASE.iter().filter_map(|b| b.split_once("over").map(|x| format!("over{}", x.1))).collect(),
        "SD" => v(&["5 min", "18446744073709551615 hours", "30 seconds", "1 ms", "10 minutes", "2 hour"]),
        "ST" => v(&["sliding", "tumbling ", "sliding, x"]),
        "SC" => v(&["click.user_id == purchase.user_id", "purchase.timestamp > click.timestamp", "a.time <= b.time + 5"]),
        "PU" => {
            let mut b = v(&["\"ab\" \u{1}0\u{2} 'c' // x\n y /* z */ \"\u{1}1\u{2}\"", "a \"b c\" \u{1}1\u{2} d 'e=f' 12"]);
            b.extend(v(&VALID_RULES)); // parse_rule on whole rules (no prediction: oracle only)
            b
        }
        "PN" => v(&["Check Age 1", "a \u{1}0\u{2} b", "x = 1 y"]),
        "AC" => v(&ACC_BASE),
        "MC" => v(&[";; MODULE: SENSORS - x\n", ";; MODULE: A 1\n;; MODULE: B 2\n "]),
        "AT" => v(&[
            "no-loop lock-on-active salience 5",
            "salience -10 agenda-group \"g 1\" no-loop true",
            "date-effective \"2025-01-01\" lock-on-active activation-group 'a 2'",
        ]),
        "RV" | "RA" => v(&["\"a b\"", "[1, 2.5, \"x y\", 'z w']", "A.b + 1", "true", " 42 ", "-7.25", "x_1", "\"Hello, \" + U.n + \"!\"", "'k=v 1'"]),
        "WF" | "WG" => v(&[
            "stage=done", "k 1=v w", "key = 42", "a=true", "k=[1, \u{1}7\u{2}, x y]", "n=A.b + 1", "no equals", "=x", "k=", "é=日本 語", "k='q r'", "a=b=c 2",
        ]),
        "W" => v(&[
            "User.Age >= 18 && User.Country == \"US\"",
            "(A.x > 1 || B.y == \"s t\") && !(C.z < 2.5)",
            "exists(Order.total > 100) && forall(Item.ok == true)",
            "Order.items count > 0 && test(f(a, b)) && X in [\"a b\", 3]",
            "accumulate(Order($amount: amount, status == \"completed\"), sum($amount))",
        ]),
        "R" | "M" => v(&VALID_RULES),
        _ => vec![],
    }
}
/// longest digit run a structured mutation may write: text that ends up in a `when` leaf stays short (F-C05h)
fn max_num_for(e: &str) -> usize {
    match e {
        "R" | "M" | "W" | "PU" | "AC" | "RV" | "AT" | "PN" | "MC" | "WF" | "WG" => 39,
        _ => 400,
    }
}
const FAMILY_ENTRIES: [&str; 30] = [
    "X", "Q", "QV", "V", "D", "DC", "G", "GQ", "A", "NH", "NP", "RV", "RA", "S", "SJ", "SC", "SD", "SW", "SS", "ST", "PU", "PN", "AC", "MC", "AT",
    "WF", "WG", "R", "M", "W",
];
/// the systematic part: every blank of every valid input replaced by a multi-byte white space character (small entries: each of the
/// four NBSP / NEL / EM SPACE / IDEOGRAPHIC SPACE; whole rules: one, rotating through all twelve), every blank at once, look-alike
/// separators; every digit run replaced by every boundary number; every placeholder form inside every string literal
fn family(out_all: &mut Vec<String>) {
    let mut rot = 0usize;
    let mut all: Vec<String> = Vec::new();
    for e in FAMILY_ENTRIES {
        let maxn = max_num_for(e);
        for (bi, b) in bases_for(e).into_iter().enumerate() {
            let big = WHOLE.contains(&e) && b.contains("rule");
            let out = &mut Vec::new();
            // (i) white space
            let bl = blank_slots(&b);
            for (i, sl) in bl.iter().enumerate() {
                if big {
                    // indentation runs: the first blank of a run and one in three of the others
                    if i > 0 && bl[i - 1].1 == sl.0 && (i + rot) % 3 != 0 {
                        continue;
                    }
                    rot += 1;
                    out.push(mk_case(e, &subst(&b, *sl, UWS[rot % UWS.len()])));
                } else {
                    for c in UWS_MAIN {
                        out.push(mk_case(e, &subst(&b, *sl, c)));
                    }
                    rot += 1;
                    out.push(mk_case(e, &subst(&b, *sl, UWS[4 + rot % (UWS.len() - 4)])));
                    out.push(mk_case(e, &subst(&b, *sl, USEP[rot % USEP.len()])));
                }
            }
            for c in UWS_MAIN.iter().chain(["\u{2028}", "\u{b}", "\u{200b}", "\u{feff}"].iter()) {
                let all: String = b.chars().map(|x| if matches!(x, ' ' | '\t' | '\n' | '\r') { c.to_string() } else { x.to_string() }).collect();
                out.push(mk_case(e, &all));
                // … and in front of / behind the whole input
                out.push(mk_case(e, &format!("{}{}{}", c, b, c)));
            }
            // (ii) numbers
            for sl in digit_slots(&b) {
                for n in NUMS {
                    if n.len() <= maxn {
                        out.push(mk_case(e, &subst(&b, sl, n)));
                    }
                }
                for k in [20usize, 30, 64, 400] {
                    if k <= maxn {
                        out.push(mk_case(e, &subst(&b, sl, &"9".repeat(k))));
                        out.push(mk_case(e, &subst(&b, sl, &format!("{}7", "0".repeat(k)))));
                    }
                }
            }
            // (iii) placeholder-looking text inside string literals (the WF / WG payload IS the body of a literal)
            if e == "WF" || e == "WG" {
                for ph in PH {
                    for mode in 0..5 {
                        out.push(mk_case(e, &lit_ph(&b, (0, b.len()), ph, mode)));
                    }
                }
            }
            for sl in literal_slots(&b) {
                let has_eq = b[sl.0..sl.1].contains('=');
                for ph in PH {
                    rot += 1;
                    out.push(mk_case(e, &lit_ph(&b, sl, ph, if has_eq { [0usize, 1, 2, 4][rot % 4] } else { rot % 5 })));
                    if has_eq || (big && b[..sl.0].ends_with("(\"")) {
                        // the value part of a `key=value` literal / the first argument of a call: every form
                        out.push(mk_case(e, &lit_ph(&b, sl, ph, 3)));
                    }
                }
            }
            // whole rules are expensive to parse: parse_rules sees every case, parse_with_modules and parse_rule a third each
            if big && e != "R" {
                let k = if e == "M" { bi % 3 } else { (bi + 1) % 3 };
                all.extend(out.drain(..).enumerate().filter(|(i, _)| i % 3 == k).map(|(_, c)| c));
            } else {
                all.append(out);
            }
        }
    }
    out_all.extend(all);
}

fn gen(rng: &mut Rng, n: usize, _tier: &str) -> Vec<String> {
    let mut out = Vec::new();
    // exhaustive short strings over a tiny alphabet for the two most hazardous slicing kernels
    let alpha = ["é", "\"", "'", "a", "+", " ", "1"];
    let mut frontier: Vec<String> = vec![String::new()];
    for _ in 0..3 {
        let mut next = Vec::new();
        for s in &frontier {
            for a in alpha {
                next.push(format!("{}{}", s, a));
            }
        }
        for s in &next {
            out.push(mk_case("V", s));
            out.push(mk_case("RV", s));
        }
        frontier = next;
    }
    // every `a op b` over the arithmetic corner operands (zero divisors, i64 extremes, floats, strings, facts)
    for a in ARITH_OPERANDS {
        for op in ["+", "-", "*", "/", "%"] {
            for b in ARITH_OPERANDS {
                out.push(mk_case("V", &format!("{} {} {}", a, op, b)));
            }
        }
    }
    // exhaustive short strings for the text layer: placeholder-looking text, and comment/quote markers
    for (alpha, len) in [(["\u{1}", "\u{2}", "0", "\"", "a", "\n"], 4usize), (["/", "*", "\"", "\n", "a", "'"], 4usize)] {
        let mut frontier: Vec<String> = vec![String::new()];
        for _ in 0..len {
            let mut next = Vec::new();
            for s in &frontier {
                for a in alpha {
                    next.push(format!("{}{}", s, a));
                }
            }
            for s in &next {
                out.push(mk_case("PU", s));
            }
            frontier = next;
        }
    }
    // structured mutations of every valid input of every entry: white space, numbers, literal bodies
    family(&mut out);
    let entries: Vec<&str> = MODELLED.iter().chain(["R", "M", "W"].iter()).copied().collect();
    for _ in 0..n {
        let e = *rng.pick(&entries);
        let bases = bases_for(e);
        if !bases.is_empty() && (WHOLE.contains(&e) && e != "PU" || rng.chance(1, 5)) {
            // a valid input with blanks / numbers / literal bodies swapped, sometimes spliced as well
            let b = rng.pick(&bases).clone();
            let mut s = swap_any(rng, &b, max_num_for(e));
            if rng.chance(1, 4) && !matches!(e, "RV" | "RA" | "WF" | "WG") {
                s = mutate(rng, &s, if WHOLE.contains(&e) { &GRL_TOK } else { &EXPR_TOK });
            }
            // text that reaches the GRL parser: `when` leaves stay short (F-C05h is probed separately)
            if e == "W" {
                s = cap_when_leaves(&format!("when {}", s))[5..].to_string();
            } else if matches!(e, "R" | "M" | "PU" | "AT" | "PN" | "AC" | "MC" | "RV" | "RA" | "WF" | "WG") {
                s = cap_when_leaves(&s);
            }
            out.push(mk_case(e, &s));
            continue;
        }
        let s = match e {
            "V" if rng.chance(1, 2) => arith(rng),
            "X" | "Q" | "QV" | "V" => match rng.below(6) {
                0 => chain(rng),
                1 => mutate(rng, "User.IsVIP == true && (Order.Amount > 1000 || !(X != \"a\\\"b\"))", &EXPR_TOK),
                2 => { let b = *rng.pick(&VALID_MISC); mutate(rng, b, &EXPR_TOK) },
                _ => {
                    let s = soup(rng, &EXPR_TOK, 14);
                    if e != "X" && e != "V" && rng.chance(1, 4) { format!("NOT{}{}", if rng.chance(1, 3) { *rng.pick(&UWS) } else { " " }, s) } else { s }
                }
            },
            "D" | "DC" => match rng.below(3) {
                0 => { let b = *rng.pick(&VALID_MISC[3..5]); mutate(rng, b, &EXPR_TOK) },
                _ => {
                    let mut s = String::new();
                    for _ in 0..rng.range(0, 8) {
                        s.push_str(pick_u(rng, &[" OR ", "OR", " ", "(", ")", "\"", "a", "b(c)", "é", "日", " OR", "OR ", " AND ", "😀"]));
                    }
                    if e == "D" && rng.chance(2, 3) { format!("({})", s) } else { s }
                }
            },
            "G" | "GQ" => match rng.below(3) {
                0 => { let b = *rng.pick(&VALID_QUERIES); mutate(rng, b, &EXPR_TOK) },
                1 => {
                    let mut g = String::new();
                    for _ in 0..rng.range(0, 8) {
                        g.push_str(pick_u(rng, &["a", " ", "(", ")", "\"", "\\", "\n", "é", "日", "==", "1", "}", "{", "😀", "goal:", "query"]));
                    }
                    format!("query \"{}\" {{\n goal: {}\n strategy: depth-first\n}}", rng.pick(&["Q", "é", "a b"]), g)
                }
                _ => soup(rng, &GRL_TOK, 20),
            },
            "A" => match rng.below(3) {
                0 => { let b = *rng.pick(&VALID_MISC[5..7]); mutate(rng, b, &EXPR_TOK) },
                _ => {
                    let mut s = String::new();
                    for _ in 0..rng.range(0, 9) {
                        s.push_str(pick_u(rng, &[" WHERE ", " AND ", "count", "SUM", "avg", "min", "Max", "first", "last", "(", ")", "?", "x", " ", "é", "日", "p(?x)", "K"]));
                    }
                    s
                }
            },
            "NH" | "NP" => match rng.below(3) {
                0 => mutate(rng, VALID_MISC[7], &EXPR_TOK),
                _ => {
                    let mut s = String::new();
                    for _ in 0..rng.range(0, 9) {
                        s.push_str(pick_u(rng, &[" WHERE ", "WHERE", "W", " AND ", "(", ")", "a(?x)", " ", "é", "日", "WHER", "E"]));
                    }
                    s
                }
            },
            "S" => match rng.below(3) {
                0 => { let b = *rng.pick(&STREAM_BASE); mutate(rng, b, &STREAM_TOK) },
                _ => {
                    let mut s = String::new();
                    for _ in 0..rng.range(0, 14) {
                        s.push_str(pick_u(rng, &[
                            "ev", ":", " ", "T", "from", "stream", "(", ")", "\"", "s", "over", "window", ",", "5", "min", "hours", "ms",
                            "sliding", "tumbling", "18446744073709551615", "307445734561825861", "é", "\u{a0}", "sec", "\n", "_", "99999999999999999999",
                        ]));
                        if rng.chance(1, 2) {
                            s.push(' ');
                        }
                    }
                    s
                }
            },
            "SJ" | "SS" | "SW" => match rng.below(3) {
                0 => {
                    let b = *rng.pick(&STREAM_BASE);
                    let b = if e == "SS" { b.split_once("from").map(|x| format!("from{}", x.1)).unwrap_or_default() }
                        else if e == "SW" { b.split_once("over").map(|x| format!("over{}", x.1)).unwrap_or_default() }
                        else { b.to_string() };
                    mutate(rng, &b, &STREAM_TOK)
                }
                _ => pick_soup(rng, &STREAM_TOK, 16, true),
            },
            "SD" | "ST" => pick_soup(rng, if e == "SD" { &DUR_TOK } else { &["sliding", "tumbling", "s", " ", "é", "Sliding", "1", "x"] }, 5, false),
            "SC" => match rng.below(4) {
                0 => mutate(rng, "click.user_id == purchase.user_id", &JOIN_TOK),
                1 => mutate(rng, "purchase.timestamp > click.timestamp", &JOIN_TOK),
                _ => pick_soup(rng, &JOIN_TOK, 10, false),
            },
            "PU" | "PN" => pick_soup(rng, &MASK_TOK, if e == "PU" { 12 } else { 6 }, false),
            "AC" => match rng.below(3) {
                0 => { let b = *rng.pick(&ACC_BASE); mutate(rng, b, &ACC_TOK) },
                _ => pick_soup(rng, &ACC_TOK, 12, false),
            },
            "WF" | "WG" => pick_soup(rng, &WF_TOK, 9, false).replace('"', "'").replace('\n', " "),
            "MC" => pick_soup(rng, &MC_TOK, 10, false),
            "AT" => pick_soup(rng, &AT_TOK, 6, true),
            _ => value_payload(rng), // RV, RA
        };
        // any generated text: some ASCII blanks replaced by unusual white space
        let s = if rng.chance(1, 10) && !matches!(e, "RV" | "RA") { blank_swap(rng, &s) } else { s };
        let s = if matches!(e, "WF" | "WG") { s.replace('"', "'") } else { s };
        out.push(mk_case(e, &s));
    }
    out
}

fn shrink(case: &str) -> Vec<String> {
    let t: Vec<&str> = case.split_whitespace().collect();
    if t.len() != 3 {
        return vec![];
    }
    let Some(s) = unhex(t[1]) else { return vec![] };
    let cs: Vec<char> = s.chars().collect();
    shrink_list(&cs)
        .into_iter()
        .take(200)
        .map(|v| mk_case(t[0], &v.into_iter().collect::<String>()))
        .collect()
}

// ------------------------------------------------------------------------------------------------
// robustness search: child process + watchdog
// ------------------------------------------------------------------------------------------------
fn child() {
    std::panic::set_hook(Box::new(|_| {}));
    let stdin = std::io::stdin();
    let out = std::io::stdout();
    for line in stdin.lock().lines() {
        let line = line.unwrap();
        let mut it = line.split_whitespace();
        let (Some(idx), Some(h)) = (it.next(), it.next()) else { continue };
        let Some(s) = unhex(h) else { continue };
        // announce the input before running it: a crash/hang is attributed to it
        {
            let mut o = out.lock();
            writeln!(o, "start {}", idx).unwrap();
            o.flush().unwrap();
        }
        let mut parts = Vec::new();
        for e in SEVEN {
            let t0 = std::time::Instant::now();
            let s2 = s.clone();
            let r = match std::panic::catch_unwind(move || run_entry(e, &s2)) {
                Ok(o) => o.split(' ').next().unwrap_or("?").to_string(),
                Err(p) => {
                    let m = if let Some(x) = p.downcast_ref::<&str>() {
                        x.to_string()
                    } else if let Some(x) = p.downcast_ref::<String>() {
                        x.clone()
                    } else {
                        "?".into()
                    };
                    format!("panic:{}", hex(&m))
                }
            };
            parts.push(format!("{}={}@{}", e, r, t0.elapsed().as_millis()));
        }
        let mut o = out.lock();
        writeln!(o, "done {} {}", idx, parts.join(";")).unwrap();
        o.flush().unwrap();
    }
}

fn robust(seed: u64, n: usize, tier: &str) {
    use std::process::{Command, Stdio};
    use std::sync::mpsc;
    use std::time::Duration;
    let watchdog = Duration::from_secs(if tier == "thorough" { 120 } else { 30 });
    let mut rng = Rng::new(seed ^ 0xC05);
    let mut inputs: Vec<(String, &'static str)> = Vec::new();
    // fixed deep cases first: the property's prefix chains and nesting bound, every run
    for c in [
        "!".repeat(4096),
        "(".repeat(4096),
        format!("{}x", "!".repeat(4095)),
        "-".repeat(4096),
        wrap_rule(&"!".repeat(4000)),
        wrap_rule(&"(".repeat(WHEN_LEAF_CAP)), // longer `(((…` leaves inside a rule: F-C05h, see `growth`
        wrap_rule(&format!("{}X == 1{}", "(".repeat(32), ")".repeat(32))),
        wrap_rule(&format!("X == {}{}", "[".repeat(32), "]".repeat(32))),
        format!("{}1", "1+".repeat(2047)),
        format!("query \"q\" {{\n goal: {}\n}}", "(".repeat(4000)),
    ] {
        inputs.push((c, "chain"));
    }
    while inputs.len() < n {
        let (s, kind) = robust_string(&mut rng);
        inputs.push((cap_when_leaves(&s), kind));
    }
    let exe = std::env::current_exe().unwrap();
    let mut next = 0usize;
    let mut counts: std::collections::BTreeMap<String, u64> = Default::default();
    let mut fails: Vec<String> = Vec::new();
    let mut slowest: (u128, usize, String, String) = (0, 0, String::new(), String::new());
    let mut children = 0;
    let t_start = std::time::Instant::now();
    let budget = Duration::from_secs(std::env::var("C05_ROBUST_BUDGET_S").ok().and_then(|v| v.parse().ok()).unwrap_or(100000));
    let mut out_of_budget = false;
    while next < inputs.len() {
        if t_start.elapsed() > budget {
            out_of_budget = true;
            break;
        }
        children += 1;
        let mut ch = Command::new(&exe)
            .arg("child")
            .stdin(Stdio::piped())
            .stdout(Stdio::piped())
            .stderr(Stdio::null())
            .spawn()
            .expect("spawn child");
        let mut cin = ch.stdin.take().unwrap();
        let cout = ch.stdout.take().unwrap();
        let batch: Vec<usize> = (next..inputs.len()).collect();
        let payload: String = batch.iter().map(|i| format!("{} {}\n", i, hex(&inputs[*i].0))).collect();
        let writer = std::thread::spawn(move || {
            let _ = cin.write_all(payload.as_bytes());
        });
        let (tx, rx) = mpsc::channel::<String>();
        let reader = std::thread::spawn(move || {
            for l in std::io::BufReader::new(cout).lines() {
                match l {
                    Ok(l) => {
                        if tx.send(l).is_err() {
                            break;
                        }
                    }
                    Err(_) => break,
                }
            }
        });
        let mut in_flight: Option<usize> = None;
        let mut hang = false;
        loop {
            match rx.recv_timeout(watchdog) {
                Ok(l) => {
                    let t: Vec<&str> = l.splitn(3, ' ').collect();
                    if t[0] == "start" {
                        in_flight = t[1].parse().ok();
                    } else if t[0] == "done" && t.len() == 3 {
                        let idx: usize = t[1].parse().unwrap();
                        in_flight = None;
                        next = idx + 1;
                        *counts.entry(format!("stream_{}", inputs[idx].1)).or_default() += 1;
                        for p in t[2].split(';') {
                            let (e, rest) = p.split_once('=').unwrap();
                            let (r, ms) = rest.rsplit_once('@').unwrap();
                            let ms: u128 = ms.parse().unwrap_or(0);
                            if ms > slowest.0 {
                                slowest = (ms, inputs[idx].0.len(), e.to_string(), hex(&inputs[idx].0));
                            }
                            let kind = r.split(':').next().unwrap();
                            *counts.entry(format!("{}_{}", e, kind)).or_default() += 1;
                            if kind == "panic" {
                                fails.push(format!("FAIL {} {} {}", e, hex(&inputs[idx].0), r));
                            }
                        }
                    }
                }
                Err(mpsc::RecvTimeoutError::Timeout) => {
                    hang = true;
                    let _ = ch.kill();
                    break;
                }
                Err(mpsc::RecvTimeoutError::Disconnected) => break,
            }
        }
        let status = ch.wait().ok();
        let _ = writer.join();
        let _ = reader.join();
        if let Some(i) = in_flight {
            // the child died or was killed while working on input i
            let what = if hang {
                "hang".to_string()
            } else {
                use std::os::unix::process::ExitStatusExt;
                match status.and_then(|s| s.signal()) {
                    Some(sig) => format!("crash:signal{}", sig),
                    None => format!("crash:exit{}", status.and_then(|s| s.code()).unwrap_or(-1)),
                }
            };
            *counts.entry(what.split(':').next().unwrap().to_string()).or_default() += 1;
            fails.push(format!("FAIL ? {} {}", hex(&inputs[i].0), what));
            next = i + 1;
        } else if next < inputs.len() && !hang {
            // child ended without finishing and without an input in flight: do not loop forever
            if status.map(|s| s.success()).unwrap_or(false) {
                break;
            }
        }
    }
    println!("strings {}", next);
    println!("generated {}", inputs.len());
    println!("out_of_budget {}", out_of_budget as u8);
    println!("children {}", children);
    println!("slowest_ms {} len={} entry={} input={}", slowest.0, slowest.1, slowest.2, slowest.3);
    for (k, v) in &counts {
        println!("count {} {}", k, v);
    }
    for f in fails.iter().take(200) {
        println!("{}", f);
    }
    println!("fails {}", fails.len());
}

/// time of the GRL parser on balanced parenthesis nesting (observation recorded in the evidence)
fn nesting(depths: &[usize]) {
    for d in depths {
        let s = wrap_rule(&format!("{}X == 1{}", "(".repeat(*d), ")".repeat(*d)));
        let t0 = std::time::Instant::now();
        let r = GRLParser::parse_rules(&s).is_ok();
        println!("nest {} {} {}", d, r, t0.elapsed().as_millis());
    }
}

fn rng_free_pick<'a>(xs: &'a [&'a str], k: usize) -> &'a &'a str {
    &xs[k % xs.len()]
}

fn main() {
    let args: Vec<String> = std::env::args().collect();
    match args.get(1).map(|s| s.as_str()) {
        Some("child") => child(),
        Some("robust") => {
            let seed: u64 = args.get(2).and_then(|s| s.parse().ok()).unwrap_or(1);
            let n: usize = args.get(3).and_then(|s| s.parse().ok()).unwrap_or(1000);
            robust(seed, n, args.get(4).map(|s| s.as_str()).unwrap_or("quick"));
        }
        Some("nesting") => {
            let ds: Vec<usize> = args[2..].iter().filter_map(|s| s.parse().ok()).collect();
            nesting(&ds);
        }
        Some("growth") => {
            // F-C05h probe: time of the GRL parser on a non-matching `when` leaf `(((…` of n bytes
            for n in args[2..].iter().filter_map(|s| s.parse::<usize>().ok()) {
                let s = wrap_rule(&"(".repeat(n));
                let t0 = std::time::Instant::now();
                let r = GRLParser::parse_rules(&s).is_ok();
                println!("growth {} {} {}", n, r, t0.elapsed().as_micros());
            }
        }
        Some("corpus2") => {
            // the lines of corpus/C05/unicode_ws_bignum_litph.case: witnesses of three classes of situation (all fine on the unchanged tree)
            println!("# C05 corpus: multi-byte white space after a keyword, numbers beyond usize in numeric attributes, placeholder-looking");
            println!("# text inside string literals (printed by `c05 corpus2`); every line must yield ok/err on the unchanged tree");
            println!("# NOT + multi-byte white space (QueryParser::parse / validate): a separator must never be skipped by a fixed byte offset");
            for ws in UWS {
                for e in ["Q", "QV"] {
                    println!("{}", mk_case(e, &format!("NOT{}User.IsBanned == true", ws)));
                }
            }
            println!("{}", mk_case("Q", "  NOT\u{a0}\u{a0}(A == 1 || B == 2)  "));
            println!("{}", mk_case("Q", "\u{3000}NOT\u{3000}X == 1\u{3000}"));
            println!("{}", mk_case("Q", "NOT\u{200b}X == 1"));
            println!("{}", mk_case("Q", "NOT\u{feff}X == 1"));
            println!("# max-depth / max-solutions: usize::MAX, usize::MAX + 1, 30 nines, leading zeros, 400 digits");
            for n in ["18446744073709551615", "18446744073709551616", "999999999999999999999999999999", "000000000000000000000000000000000000007", &"9".repeat(400)] {
                for key in ["max-depth", "max-solutions"] {
                    let q = format!("query \"Q\" {{\n goal: X == 1\n {}: {}\n}}", key, n);
                    println!("{}", mk_case("G", &q));
                    println!("{}", mk_case("GQ", &format!("{}\nquery \"Q2\" {{ goal: Y == 2\n}}", q)));
                }
            }
            println!("# other numeric positions: salience, window duration, ScheduleRule delay, placeholder index");
            println!("{}", mk_case("R", "rule \"r\" salience 99999999999999999999 { when X == 1 then Y = 1; }"));
            println!("{}", mk_case("R", "rule \"r\" { when X == 1 then ScheduleRule(18446744073709551616, \"n\"); }"));
            println!("{}", mk_case("S", "e: T from stream(\"s\") over window(18446744073709551616 ms, sliding)"));
            println!("{}", mk_case("SD", "999999999999999999999999999999 hours"));
            println!("{}", mk_case("PU", "\"a\" \u{1}18446744073709551616\u{2} \u{1}000000000000000000000\u{2}"));
            println!("# placeholder-looking text INSIDE a string literal; SetWorkflowData / set_workflow_data unmask their argument twice");
            for ph in PH {
                for f in ["SetWorkflowData", "set_workflow_data"] {
                    let r = format!("rule \"r\" {{ when X == 1 then {}(\"stage={}\"); }}", f, ph);
                    println!("{}", mk_case(*rng_free_pick(&["R", "M", "PU"], ph.len() + f.len()), &r));
                }
            }
            println!("{}", mk_case("R", "rule \"r\" { when X == \"\u{1}7\u{2}\" then Log(\"\u{1}7\u{2}\"); $C.m(\"\u{1}8\u{2}\"); f(\"a=\u{1}9\u{2}\", '\u{1}5\u{2}'); Y = \"\u{1}6\u{2}\"; }"));
        }
        Some("one") => {
            // c05 one <E> <hex>  — debugging aid
            let s = unhex(&args[3]).unwrap();
            println!("{}", run_entry(&args[2], &s));
        }
        _ => main_with(Prop { gen, exec, shrink }),
    }
}
