//! C10 (part A) — the undo-frame API of `Facts` (src/engine/facts.rs).
//! case := `<init> <ops>`
//!   init := `-` | `k=val,k=val…`          (installed with `add_value`, so they carry a type entry)
//!   val  := `i<int>` | `o` | `o<f>:<int>+<f>:<int>…`
//!   ops  := `-` | op,op,…   op := `B` begin | `C` commit | `R` rollback | `S<k>=<val>` set
//!           | `N<k>[.<f>]*=<int>` set_nested | `D<k>` remove
//! obs  := step;step;…   step := `<res>/<depth>/<cell0>,<cell1>,<cell2>`
//!   res := ok | fnf | tm | r1 | r0 ; cell := (`~` | val) followed by `t`/`n` (type entry present or not)
use rre_harness::*;
use rust_rule_engine::engine::facts::Facts;
use rust_rule_engine::errors::RuleEngineError;
use rust_rule_engine::types::Value;
use std::collections::HashMap;

const NKEYS: usize = 3;

fn key(k: usize) -> String {
    format!("k{}", k)
}

fn parse_val(s: &str) -> Option<Value> {
    if let Some(r) = s.strip_prefix('i') {
        return Some(Value::Integer(r.parse().ok()?));
    }
    let r = s.strip_prefix('o')?;
    let mut m = HashMap::new();
    if !r.is_empty() {
        for fv in r.split('+') {
            let (f, v) = fv.split_once(':')?;
            let f: usize = f.parse().ok()?;
            m.insert(format!("f{}", f), Value::Integer(v.parse().ok()?));
        }
    }
    Some(Value::Object(m))
}

fn show_val(v: &Value) -> String {
    match v {
        Value::Integer(n) => format!("i{}", n),
        Value::Object(m) => {
            let mut fs: Vec<(usize, String)> = Vec::new();
            for (f, v) in m {
                let idx = f.strip_prefix('f').and_then(|x| x.parse::<usize>().ok());
                match (idx, v) {
                    (Some(i), Value::Integer(n)) => fs.push((i, format!("{}:{}", i, n))),
                    _ => return "?".into(),
                }
            }
            fs.sort();
            format!("o{}", fs.into_iter().map(|x| x.1).collect::<Vec<_>>().join("+"))
        }
        _ => "?".into(),
    }
}

fn observe(f: &Facts) -> String {
    let all = f.get_all_facts();
    let snap = f.snapshot();
    // `get_all_facts` and `snapshot().data` must agree, and nothing outside k0..k2 may appear
    if all != snap.data {
        return "snapshot-mismatch".into();
    }
    for k in all.keys().chain(snap.fact_types.keys()) {
        if !(0..NKEYS).any(|i| key(i) == *k) {
            return format!("stray:{}", hex(k));
        }
    }
    (0..NKEYS)
        .map(|i| {
            let k = key(i);
            let v = all.get(&k).map(show_val).unwrap_or_else(|| "~".into());
            format!("{}{}", v, if snap.fact_types.contains_key(&k) { "t" } else { "n" })
        })
        .collect::<Vec<_>>()
        .join(",")
}

fn exec(case: &str) -> String {
    let t: Vec<&str> = case.split_whitespace().collect();
    if t.len() != 2 {
        return "bad-case".into();
    }
    let f = Facts::new();
    if t[0] != "-" {
        for kv in t[0].split(',') {
            let Some((k, v)) = kv.split_once('=') else { return "bad-case".into() };
            let (Ok(k), Some(v)) = (k.parse::<usize>(), parse_val(v)) else { return "bad-case".into() };
            if f.add_value(&key(k), v).is_err() {
                return "err".into();
            }
        }
    }
    let mut steps = Vec::new();
    if t[1] != "-" {
        for op in t[1].split(',') {
            let res: String = match op.chars().next() {
                Some('B') => {
                    f.begin_undo_frame();
                    "ok".into()
                }
                Some('C') => {
                    f.commit_undo_frame();
                    "ok".into()
                }
                Some('R') => {
                    f.rollback_undo_frame();
                    "ok".into()
                }
                Some('S') => {
                    let Some((k, v)) = op[1..].split_once('=') else { return "bad-case".into() };
                    let (Ok(k), Some(v)) = (k.parse::<usize>(), parse_val(v)) else { return "bad-case".into() };
                    f.set(&key(k), v);
                    "ok".into()
                }
                Some('N') => {
                    let Some((p, v)) = op[1..].split_once('=') else { return "bad-case".into() };
                    let Ok(v) = v.parse::<i64>() else { return "bad-case".into() };
                    let parts: Vec<&str> = p.split('.').collect();
                    let Ok(k) = parts[0].parse::<usize>() else { return "bad-case".into() };
                    let mut path = key(k);
                    for q in &parts[1..] {
                        path.push_str(&format!(".f{}", q));
                    }
                    match f.set_nested(&path, Value::Integer(v)) {
                        Ok(()) => "ok".into(),
                        Err(RuleEngineError::FieldNotFound { .. }) => "fnf".into(),
                        Err(RuleEngineError::TypeMismatch { .. }) => "tm".into(),
                        Err(_) => "e?".into(),
                    }
                }
                Some('D') => {
                    let Ok(k) = op[1..].parse::<usize>() else { return "bad-case".into() };
                    if f.remove(&key(k)).is_some() { "r1".into() } else { "r0".into() }
                }
                _ => return "bad-case".into(),
            };
            steps.push(format!("{}/{}/{}", res, f.verif_undo_depth(), observe(&f)));
        }
    }
    if steps.is_empty() { "-".into() } else { steps.join(";") }
}

const INIT: &str = "0=o0:0,1=i7";

fn alphabet(tier: &str) -> Vec<&'static str> {
    // k0 starts as an object (nested set succeeds), S0 makes it an integer (TypeMismatch), D0 removes
    // it (FieldNotFound on the root); k2 starts absent.
    let mut a = vec!["B", "C", "R", "S0=i1", "N0.0=2", "D0", "S2=o"];
    if tier == "thorough" {
        a.push("D1");
        a.push("N0.1.0=3");
    }
    a
}

fn rand_val(rng: &mut Rng) -> String {
    match rng.below(4) {
        0 => "o".to_string(),
        1 => format!("o{}:{}", rng.below(2), rng.below(5)),
        _ => format!("i{}", rng.below(6) as i64 - 1),
    }
}

fn rand_op(rng: &mut Rng) -> String {
    let k = rng.below(NKEYS as u64);
    match rng.below(20) {
        0..=3 => "B".into(),
        4..=5 => "C".into(),
        6..=8 => "R".into(),
        9..=12 => format!("S{}={}", k, rand_val(rng)),
        13..=16 => {
            let mut p = format!("{}", k);
            for _ in 0..*rng.pick(&[0usize, 1, 1, 1, 2]) {
                p.push_str(&format!(".{}", rng.below(2)));
            }
            format!("N{}={}", p, rng.below(9))
        }
        _ => format!("D{}", k),
    }
}

fn gen(rng: &mut Rng, n: usize, tier: &str) -> Vec<String> {
    let mut out = Vec::new();
    // exhaustive part: every sequence of length <= 6 over the alphabet
    let alpha = alphabet(tier);
    let mut frontier: Vec<String> = vec![String::new()];
    out.push(format!("{} -", INIT));
    for _ in 0..6 {
        let mut next = Vec::with_capacity(frontier.len() * alpha.len());
        for s in &frontier {
            for a in &alpha {
                next.push(if s.is_empty() { a.to_string() } else { format!("{},{}", s, a) });
            }
        }
        for s in &next {
            out.push(format!("{} {}", INIT, s));
        }
        frontier = next;
    }
    // sampled part: length 7..10 (and some shorter), all six operations, three keys, random stores
    for _ in 0..n {
        let len = if rng.chance(1, 5) { rng.range(1, 6) } else { rng.range(7, 10) } as usize;
        let mut init = Vec::new();
        for k in 0..NKEYS {
            if rng.chance(1, 2) {
                init.push(format!("{}={}", k, rand_val(rng)));
            }
        }
        let ops: Vec<String> = (0..len).map(|_| rand_op(rng)).collect();
        out.push(format!("{} {}", if init.is_empty() { "-".to_string() } else { init.join(",") }, ops.join(",")));
    }
    // nested-frame family: well-bracketed nests of depth 2..3 whose frames write the SAME one or two keys, with
    // the inner frames holding more entries than the outer ones as often as fewer (what a merge on commit must
    // get right: the outermost recorded value per key wins, whatever the relative frame sizes)
    for _ in 0..n / 2 {
        let mut init = Vec::new();
        for k in 0..NKEYS {
            if rng.chance(1, 2) {
                init.push(format!("{}={}", k, rand_val(rng)));
            }
        }
        let nk = rng.range(1, 2);
        let mut mutator = |rng: &mut Rng| -> String {
            let k = rng.below(nk);
            match rng.below(6) {
                0..=3 => format!("S{}={}", k, rand_val(rng)),
                4 => format!("N{}.{}={}", k, rng.below(2), rng.below(9)),
                _ => format!("D{}", k),
            }
        };
        let depth = rng.range(2, 3);
        let mut ops: Vec<String> = Vec::new();
        for _ in 0..depth {
            ops.push("B".into());
            for _ in 0..rng.below(4) {
                ops.push(mutator(rng));
            }
        }
        for lvl in 0..depth {
            // the outermost frame is rolled back (that is what the property is about); inner ones mostly committed
            let close = if lvl + 1 == depth { "R" } else if rng.chance(3, 4) { "C" } else { "R" };
            ops.push(close.into());
            if lvl + 1 < depth && rng.chance(1, 3) {
                ops.push(mutator(rng));
            }
        }
        out.push(format!("{} {}", if init.is_empty() { "-".to_string() } else { init.join(",") }, ops.join(",")));
    }
    out
}

fn shrink(case: &str) -> Vec<String> {
    let t: Vec<&str> = case.split_whitespace().collect();
    if t.len() != 2 {
        return vec![];
    }
    let ops: Vec<String> = if t[1] == "-" { vec![] } else { t[1].split(',').map(|s| s.to_string()).collect() };
    let init: Vec<String> = if t[0] == "-" { vec![] } else { t[0].split(',').map(|s| s.to_string()).collect() };
    let j = |v: &Vec<String>| if v.is_empty() { "-".to_string() } else { v.join(",") };
    let mut out = Vec::new();
    for v in shrink_list(&ops) {
        out.push(format!("{} {}", t[0], j(&v)));
    }
    for v in shrink_list(&init) {
        out.push(format!("{} {}", j(&v), t[1]));
    }
    out
}

fn main() {
    main_with(Prop { gen, exec, shrink });
}
