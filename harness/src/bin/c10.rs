//! C10 (part A) — the undo-frame API of `Facts` (src/engine/facts.rs).
//! case := `<init> <ops>`
//!   init := `-` | `k=val,k=val…`          (installed with `add_value`, so they carry a type entry)
//!   val  := `i<int>` | `o` | `o<f>:<int>+<f>:<int>…`
//!   ops  := `-` | op,op,…   op := `B` begin | `C` commit | `R` rollback | `S<k>=<val>` set
//!           | `N<k>[.<f>]*=<int>` set_nested | `D<k>` remove
//! obs  := step;step;…   step := `<res>/<depth>/<cell0>,<cell1>,<cell2>`
//!   res := ok | fnf | tm | r1 | r0 ; cell := (`~` | val) followed by `t`/`n` (type entry present or not)
use rre_harness::*;
use rust_rule_engine::engine::facts::Facts;
use rust_rule_engine::errors::RuleEngineError;
use rust_rule_engine::types::Value;
use std::collections::HashMap;

const NKEYS: usize = 3;

fn key(k: usize) -> String {
    format!("k{}", k)
}

/// number of observed keys of a case: k0..k2, and every further key (k3, k4 …) the initial store or an
/// operation names (the wide families); the driver computes the same number (`caseKeys`)
fn case_keys(init: &str, ops: &str) -> usize {
    let mut n = NKEYS;
    let mut see = |t: &str| {
        let d: String = t.chars().take_while(|c| c.is_ascii_digit()).collect();
        if let Ok(k) = d.parse::<usize>() {
            n = n.max(k + 1);
        }
    };
    if init != "-" {
        for kv in init.split(',') {
            see(kv);
        }
    }
    if ops != "-" {
        for op in ops.split(',') {
            if op.starts_with('S') || op.starts_with('N') || op.starts_with('D') {
                see(&op[1..]);
            }
        }
    }
    n
}

// value text (same grammar as lean/Driver/C10.lean):
//   val    := `z` null | `b0`/`b1` | `i<int>` | `n<hex bits>` float | `s<hex>` string | `e<hex>` expression
//           | `a` [scalar (`+` scalar)*] | `o` [<f>`:`member (`+` <f>`:`member)*]
//   member := <int> (legacy, = i<int>) | scalar | `(` val `)` for arrays and objects
fn parse_scalar(t: &str) -> Option<Value> {
    match t {
        "z" => return Some(Value::Null),
        "b0" => return Some(Value::Boolean(false)),
        "b1" => return Some(Value::Boolean(true)),
        _ => {}
    }
    let (tag, r) = (t.chars().next()?, &t[1..]);
    let text = |r: &str| if r.is_empty() { Some(String::new()) } else { unhex(r) };
    match tag {
        'i' => Some(Value::Integer(r.parse().ok()?)),
        'n' => Some(Value::Number(f64::from_bits(u64::from_str_radix(r, 16).ok()?))),
        's' => Some(Value::String(text(r)?)),
        'e' => Some(Value::Expression(text(r)?)),
        _ => None,
    }
}

fn is_stop(c: u8) -> bool {
    c == b'+' || c == b')' || c == b'('
}

fn parse_pv(b: &[u8], pos: &mut usize) -> Option<Value> {
    let tok = |pos: &mut usize| -> String {
        let st = *pos;
        while *pos < b.len() && !is_stop(b[*pos]) {
            *pos += 1;
        }
        String::from_utf8_lossy(&b[st..*pos]).to_string()
    };
    match b.get(*pos) {
        Some(b'o') => {
            *pos += 1;
            let mut m = HashMap::new();
            while *pos < b.len() && b[*pos] != b')' {
                if b[*pos] == b'+' {
                    *pos += 1;
                }
                let st = *pos;
                while *pos < b.len() && b[*pos] != b':' {
                    *pos += 1;
                }
                let f: usize = std::str::from_utf8(&b[st..*pos]).ok()?.parse().ok()?;
                if *pos >= b.len() {
                    return None;
                }
                *pos += 1; // ':'
                let v = if b.get(*pos) == Some(&b'(') {
                    *pos += 1;
                    let v = parse_pv(b, pos)?;
                    if b.get(*pos) != Some(&b')') {
                        return None;
                    }
                    *pos += 1;
                    v
                } else {
                    let t = tok(pos);
                    match t.parse::<i64>() {
                        Ok(n) => Value::Integer(n),
                        Err(_) => parse_scalar(&t)?,
                    }
                };
                m.insert(format!("f{}", f), v);
            }
            Some(Value::Object(m))
        }
        Some(b'a') => {
            *pos += 1;
            let mut xs = Vec::new();
            while *pos < b.len() && b[*pos] != b')' {
                if b[*pos] == b'+' {
                    *pos += 1;
                }
                let t = tok(pos);
                xs.push(parse_scalar(&t)?);
            }
            Some(Value::Array(xs))
        }
        _ => {
            let t = tok(pos);
            parse_scalar(&t)
        }
    }
}

fn parse_val(s: &str) -> Option<Value> {
    let mut pos = 0;
    let v = parse_pv(s.as_bytes(), &mut pos)?;
    if pos == s.len() { Some(v) } else { None }
}

/// value written by `set_nested`: a bare integer (legacy) or any value text
fn parse_nested_val(s: &str) -> Option<Value> {
    match s.parse::<i64>() {
        Ok(n) => Some(Value::Integer(n)),
        Err(_) => parse_val(s),
    }
}

fn show_scalar(v: &Value) -> Option<String> {
    let text = |s: &str| if s.is_empty() { String::new() } else { hex(s) };
    Some(match v {
        Value::Null => "z".into(),
        Value::Boolean(b) => if *b { "b1".into() } else { "b0".into() },
        Value::Integer(n) => format!("i{}", n),
        Value::Number(x) => format!("n{:x}", x.to_bits()),
        Value::String(s) => format!("s{}", text(s)),
        Value::Expression(s) => format!("e{}", text(s)),
        _ => return None,
    })
}

/// canonical rendering: object members sorted by field index; a present `Null` is `z`, an absent key `~`
fn show_val(v: &Value) -> String {
    if let Some(s) = show_scalar(v) {
        return s;
    }
    match v {
        Value::Array(xs) => {
            let mut items = Vec::new();
            for x in xs {
                match show_scalar(x) {
                    Some(s) => items.push(s),
                    None => return "?".into(),
                }
            }
            format!("a{}", items.join("+"))
        }
        Value::Object(m) => {
            let mut fs: Vec<(usize, String)> = Vec::new();
            for (f, v) in m {
                let Some(i) = f.strip_prefix('f').and_then(|x| x.parse::<usize>().ok()) else { return "?".into() };
                let mv = match v {
                    Value::Integer(n) => format!("{}", n),
                    Value::Array(_) | Value::Object(_) => format!("({})", show_val(v)),
                    _ => show_val(v),
                };
                fs.push((i, format!("{}:{}", i, mv)));
            }
            fs.sort();
            format!("o{}", fs.into_iter().map(|x| x.1).collect::<Vec<_>>().join("+"))
        }
        _ => "?".into(),
    }
}

fn observe(f: &Facts, nkeys: usize) -> String {
    let all = f.get_all_facts();
    let snap = f.snapshot();
    // `get_all_facts` and `snapshot().data` must agree, and nothing outside the observed keys may appear
    if all != snap.data {
        return "snapshot-mismatch".into();
    }
    for k in all.keys().chain(snap.fact_types.keys()) {
        if !(0..nkeys).any(|i| key(i) == *k) {
            return format!("stray:{}", hex(k));
        }
    }
    (0..nkeys)
        .map(|i| {
            let k = key(i);
            let v = all.get(&k).map(show_val).unwrap_or_else(|| "~".into());
            format!("{}{}", v, if snap.fact_types.contains_key(&k) { "t" } else { "n" })
        })
        .collect::<Vec<_>>()
        .join(",")
}

fn exec(case: &str) -> String {
    let t: Vec<&str> = case.split_whitespace().collect();
    if t.len() != 2 {
        return "bad-case".into();
    }
    let nkeys = case_keys(t[0], t[1]);
    let f = Facts::new();
    if t[0] != "-" {
        for kv in t[0].split(',') {
            let Some((k, v)) = kv.split_once('=') else { return "bad-case".into() };
            let (Ok(k), Some(v)) = (k.parse::<usize>(), parse_val(v)) else { return "bad-case".into() };
            if f.add_value(&key(k), v).is_err() {
                return "err".into();
            }
        }
    }
    let mut steps = Vec::new();
    if t[1] != "-" {
        for op in t[1].split(',') {
            let res: String = match op.chars().next() {
                Some('B') => {
                    f.begin_undo_frame();
                    "ok".into()
                }
                Some('C') => {
                    f.commit_undo_frame();
                    "ok".into()
                }
                Some('R') => {
                    f.rollback_undo_frame();
                    "ok".into()
                }
                Some('S') => {
                    let Some((k, v)) = op[1..].split_once('=') else { return "bad-case".into() };
                    let (Ok(k), Some(v)) = (k.parse::<usize>(), parse_val(v)) else { return "bad-case".into() };
                    f.set(&key(k), v);
                    "ok".into()
                }
                Some('N') => {
                    let Some((p, v)) = op[1..].split_once('=') else { return "bad-case".into() };
                    let Some(v) = parse_nested_val(v) else { return "bad-case".into() };
                    let parts: Vec<&str> = p.split('.').collect();
                    let Ok(k) = parts[0].parse::<usize>() else { return "bad-case".into() };
                    let mut path = key(k);
                    for q in &parts[1..] {
                        path.push_str(&format!(".f{}", q));
                    }
                    match f.set_nested(&path, v) {
                        Ok(()) => "ok".into(),
                        Err(RuleEngineError::FieldNotFound { .. }) => "fnf".into(),
                        Err(RuleEngineError::TypeMismatch { .. }) => "tm".into(),
                        Err(_) => "e?".into(),
                    }
                }
                Some('D') => {
                    let Ok(k) = op[1..].parse::<usize>() else { return "bad-case".into() };
                    if f.remove(&key(k)).is_some() { "r1".into() } else { "r0".into() }
                }
                _ => return "bad-case".into(),
            };
            steps.push(format!("{}/{}/{}", res, f.verif_undo_depth(), observe(&f, nkeys)));
        }
    }
    if steps.is_empty() { "-".into() } else { steps.join(";") }
}

const INIT: &str = "0=o0:0,1=i7";

fn alphabet(tier: &str) -> Vec<&'static str> {
    // k0 starts as an object (nested set succeeds), S0 makes it an integer (TypeMismatch), D0 removes
    // it (FieldNotFound on the root); k2 starts absent.
    let mut a = vec!["B", "C", "R", "S0=i1", "N0.0=2", "D0", "S2=o"];
    if tier == "thorough" {
        a.push("D1");
        a.push("N0.1.0=3");
    }
    a
}

fn rand_val(rng: &mut Rng) -> String {
    match rng.below(4) {
        0 => "o".to_string(),
        1 => format!("o{}:{}", rng.below(2), rng.below(5)),
        _ => format!("i{}", rng.below(6) as i64 - 1),
    }
}

fn rand_op(rng: &mut Rng) -> String {
    let k = rng.below(NKEYS as u64);
    match rng.below(20) {
        0..=3 => "B".into(),
        4..=5 => "C".into(),
        6..=8 => "R".into(),
        9..=12 => format!("S{}={}", k, rand_val(rng)),
        13..=16 => {
            let mut p = format!("{}", k);
            for _ in 0..*rng.pick(&[0usize, 1, 1, 1, 2]) {
                p.push_str(&format!(".{}", rng.below(2)));
            }
            format!("N{}={}", p, rng.below(9))
        }
        _ => format!("D{}", k),
    }
}

fn gen(rng: &mut Rng, n: usize, tier: &str) -> Vec<String> {
    let mut out = Vec::new();
    // exhaustive part: every sequence of length <= 6 over the alphabet
    let alpha = alphabet(tier);
    let mut frontier: Vec<String> = vec![String::new()];
    out.push(format!("{} -", INIT));
    for _ in 0..6 {
        let mut next = Vec::with_capacity(frontier.len() * alpha.len());
        for s in &frontier {
            for a in &alpha {
                next.push(if s.is_empty() { a.to_string() } else { format!("{},{}", s, a) });
            }
        }
        for s in &next {
            out.push(format!("{} {}", INIT, s));
        }
        frontier = next;
    }
    // sampled part: length 7..10 (and some shorter), all six operations, three keys, random stores
    for _ in 0..n {
        let len = if rng.chance(1, 5) { rng.range(1, 6) } else { rng.range(7, 10) } as usize;
        let mut init = Vec::new();
        for k in 0..NKEYS {
            if rng.chance(1, 2) {
                init.push(format!("{}={}", k, rand_val(rng)));
            }
        }
        let ops: Vec<String> = (0..len).map(|_| rand_op(rng)).collect();
        out.push(format!("{} {}", if init.is_empty() { "-".to_string() } else { init.join(",") }, ops.join(",")));
    }
    // nested-frame family: well-bracketed nests of depth 2..3 whose frames write the SAME one or two keys, with
    // the inner frames holding more entries than the outer ones as often as fewer (what a merge on commit must
    // get right: the outermost recorded value per key wins, whatever the relative frame sizes)
    for _ in 0..n / 2 {
        let mut init = Vec::new();
        for k in 0..NKEYS {
            if rng.chance(1, 2) {
                init.push(format!("{}={}", k, rand_val(rng)));
            }
        }
        let nk = rng.range(1, 2);
        let mut mutator = |rng: &mut Rng| -> String {
            let k = rng.below(nk);
            match rng.below(6) {
                0..=3 => format!("S{}={}", k, rand_val(rng)),
                4 => format!("N{}.{}={}", k, rng.below(2), rng.below(9)),
                _ => format!("D{}", k),
            }
        };
        let depth = rng.range(2, 3);
        let mut ops: Vec<String> = Vec::new();
        for _ in 0..depth {
            ops.push("B".into());
            for _ in 0..rng.below(4) {
                ops.push(mutator(rng));
            }
        }
        for lvl in 0..depth {
            // the outermost frame is rolled back (that is what the property is about); inner ones mostly committed
            let close = if lvl + 1 == depth { "R" } else if rng.chance(3, 4) { "C" } else { "R" };
            ops.push(close.into());
            if lvl + 1 < depth && rng.chance(1, 3) {
                ops.push(mutator(rng));
            }
        }
        out.push(format!("{} {}", if init.is_empty() { "-".to_string() } else { init.join(",") }, ops.join(",")));
    }
    gen_falsy(rng, n, tier, &mut out);
    gen_merge(rng, n, tier, &mut out);
    gen_long(rng, n, &mut out);
    out
}

/// values an implementation may confuse with "absent" / "nothing to restore" / "not an object yet": null, "", 0, 0.0,
/// false, [], {}, an object whose only member is null / an empty object / an empty array
const FALSY: [&str; 11] = ["z", "s", "i0", "b0", "n0", "a", "o", "o0:z", "o0:(o)", "o0:(a)", "o1:z"];
const PLAIN: [&str; 9] = ["i1", "i-1", "b1", "s78", "ai0", "az", "o0:0", "o0:(o1:z)", "o0:s+1:(o0:b0)"];
/// non-object values `set_nested` writes
const LEAVES: [&str; 8] = ["2", "z", "0", "s", "b0", "a", "n0", "s79"];

fn wide_val(rng: &mut Rng) -> String {
    if rng.chance(3, 5) { rng.pick(&FALSY).to_string() } else { rng.pick(&PLAIN).to_string() }
}

fn wide_mutator(rng: &mut Rng, k: u64) -> String {
    match rng.below(10) {
        0..=3 => format!("S{}={}", k, wide_val(rng)),
        4 => format!("N{}={}", k, rng.pick(&LEAVES)),
        5..=6 => format!("N{}.{}={}", k, rng.below(2), rng.pick(&LEAVES)),
        7 => format!("N{}.{}.{}={}", k, rng.below(2), rng.below(2), rng.pick(&LEAVES)),
        _ => format!("D{}", k),
    }
}

/// family "present but looks like nothing": a key holds a FALSY value (installed with `add_value` — type entry — or with
/// `set` — no type entry) when a frame begins, is then written / removed / nested-set inside the frame (directly, in a
/// committed child, in a rolled-back child, after a committed child), and the frame is rolled back: the key must come
/// back to exactly that value — present, not absent.  Every FALSY value x every mutator x every wrapper, then an
/// exhaustive enumeration of short sequences over a null-centred alphabet, then random sequences over the wide pool.
fn gen_falsy(rng: &mut Rng, n: usize, tier: &str, out: &mut Vec<String>) {
    let muts = ["S0=i1", "S0=z", "S0=o", "D0", "N0=5", "N0=z", "N0.0=2", "N0.0=z", "N0.0.1=3", "N0.1.0=z"];
    let wraps: [&dyn Fn(&str) -> String; 6] = [
        &|m| format!("B,{},R", m),
        &|m| format!("B,B,{},C,R", m),
        &|m| format!("B,B,{},R,R", m),
        &|m| format!("B,S1=i3,B,{},C,D1,R", m),
        &|m| format!("B,{},B,S0=i9,C,R", m),
        &|m| format!("B,B,B,{},C,C,R", m),
    ];
    for v in FALSY.iter().chain(PLAIN.iter()) {
        for m in &muts {
            for (wi, w) in wraps.iter().enumerate() {
                // with a type entry (add_value) and without one (set before the frame)
                out.push(format!("0={} {}", v, w(m)));
                if wi < 3 {
                    out.push(format!("- S0={},{}", v, w(m)));
                    // the falsy value is itself written inside an outer frame that is committed / rolled back afterwards
                    out.push(format!("- B,S0={},{},C", v, w(m)));
                    out.push(format!("0=i4 B,S0={},{},R", v, w(m)));
                }
            }
        }
    }
    // exhaustive: every sequence of length <= 4 (thorough 5) over a null-centred alphabet; k0 is a present null,
    // k1 an object whose only member is null, k2 absent
    let alpha = ["B", "C", "R", "S0=i1", "S0=z", "D0", "N1.0.0=2", "N1.0=z", "S2=z", "N0.0=1"];
    let init = "0=z,1=o0:z";
    let mut frontier: Vec<String> = vec![String::new()];
    for _ in 0..(if tier == "thorough" { 5 } else { 4 }) {
        let mut next = Vec::with_capacity(frontier.len() * alpha.len());
        for s in &frontier {
            for a in &alpha {
                next.push(if s.is_empty() { a.to_string() } else { format!("{},{}", s, a) });
            }
        }
        for s in &next {
            out.push(format!("{} {}", init, s));
        }
        frontier = next;
    }
    // random: the wide value pool at frame begin and inside frames, 3 keys, length 3..10
    for _ in 0..n / 2 {
        let mut init = Vec::new();
        for k in 0..NKEYS {
            if rng.chance(2, 3) {
                init.push(format!("{}={}", k, wide_val(rng)));
            }
        }
        let len = rng.range(3, 10) as usize;
        let mut depth = 0;
        let mut ops: Vec<String> = Vec::new();
        for i in 0..len {
            let k = rng.below(NKEYS as u64);
            let op = match rng.below(20) {
                0..=3 => "B".to_string(),
                4..=5 => "C".into(),
                6..=8 => "R".into(),
                _ => wide_mutator(rng, k),
            };
            // keep most sequences meaningful: open a frame early, close with a rollback
            let op = if i == 0 && rng.chance(2, 3) { "B".to_string() } else if i + 1 == len && depth > 0 { "R".to_string() } else { op };
            match op.as_str() {
                "B" => depth += 1,
                "C" | "R" => depth = if depth > 0 { depth - 1 } else { 0 },
                _ => {}
            }
            ops.push(op);
        }
        out.push(format!("{} {}", if init.is_empty() { "-".to_string() } else { init.join(",") }, ops.join(",")));
    }
}

fn permutations(n: usize) -> Vec<Vec<usize>> {
    fn go(cur: &mut Vec<usize>, used: &mut Vec<bool>, n: usize, out: &mut Vec<Vec<usize>>) {
        if cur.len() == n {
            out.push(cur.clone());
            return;
        }
        for i in 0..n {
            if !used[i] {
                used[i] = true;
                cur.push(i);
                go(cur, used, n, out);
                cur.pop();
                used[i] = false;
            }
        }
    }
    let mut out = Vec::new();
    go(&mut Vec::new(), &mut vec![false; n], n, &mut out);
    out
}

/// family "a commit merges a child frame into a parent that already holds entries, the parent keeps recording, then
/// is rolled back" (constructive, 8-20 operations): for every order of first use of 3 and of 4 keys (key names sort
/// k0 < k1 < k2 < k3, so the order in which a frame RECORDS keys differs from their sort order in every way), every
/// nesting depth 2..4 of committed children (each child touches the next key of the order — before/after, in sort
/// order, the keys its parent touched), optionally a committed sibling, then the parent writes every key again (in
/// ascending, descending and first-use order) and is rolled back — directly, or committed into an outermost frame that
/// is rolled back.  Every write stores a distinct integer, so a rollback to any intermediate value is visible.
fn gen_merge(rng: &mut Rng, _n: usize, tier: &str, out: &mut Vec<String>) {
    for nk in [3usize, 4] {
        for perm in permutations(nk) {
            for depth in 2..=4usize {
                for post in 0..3 {
                    for close in 0..2 {
                        for sibling in 0..2 {
                            for init_mode in 0..2 {
                                if tier != "thorough" && nk == 4 && (sibling + init_mode + post) % 2 == 1 {
                                    continue; // quick: half of the 4-key combinations
                                }
                                let mut ctr = 10i64;
                                let mut w = |rng: &mut Rng, k: usize| -> String {
                                    ctr += 1;
                                    match rng.below(12) {
                                        0 => format!("D{}", k),
                                        1 => format!("N{}={}", k, ctr),
                                        _ => format!("S{}=i{}", k, ctr),
                                    }
                                };
                                // initial store: every key present (distinct values) / only the keys of odd position
                                let init: Vec<String> = (0..nk)
                                    .filter(|k| init_mode == 0 || perm.iter().position(|x| x == k).unwrap() % 2 == 1)
                                    .map(|k| format!("{}=i{}", k, k))
                                    .collect();
                                let mut ops: Vec<String> = Vec::new();
                                if close == 1 {
                                    ops.push("B".into()); // outermost frame, rolled back at the very end
                                }
                                ops.push("B".into()); // the parent
                                ops.push(w(rng, perm[0])); // … already holds an entry
                                // chain of children, each touching the next key in first-use order (cyclically)
                                for lvl in 1..depth {
                                    ops.push("B".into());
                                    ops.push(w(rng, perm[lvl % nk]));
                                    if lvl >= 2 && rng.chance(1, 2) {
                                        ops.push(w(rng, perm[(lvl + 1) % nk]));
                                    }
                                }
                                for lvl in (1..depth).rev() {
                                    ops.push("C".into());
                                    if lvl > 1 && rng.chance(1, 3) {
                                        ops.push(w(rng, perm[(lvl + 1) % nk]));
                                    }
                                }
                                if sibling == 1 {
                                    ops.push("B".into());
                                    ops.push(w(rng, perm[2 % nk]));
                                    ops.push(w(rng, perm[1]));
                                    ops.push("C".into());
                                }
                                // the parent keeps recording: every key again
                                let mut order: Vec<usize> = match post {
                                    0 => (0..nk).collect(),
                                    1 => (0..nk).rev().collect(),
                                    _ => perm.clone(),
                                };
                                if post == 2 {
                                    order.rotate_left(1);
                                }
                                for k in order {
                                    ops.push(w(rng, k));
                                }
                                if close == 1 {
                                    ops.push("C".into());
                                    if rng.chance(1, 2) {
                                        ops.push(w(rng, perm[nk - 1]));
                                    }
                                }
                                ops.push("R".into());
                                out.push(format!("{} {}", if init.is_empty() { "-".to_string() } else { init.join(",") }, ops.join(",")));
                            }
                        }
                    }
                }
            }
        }
    }
}

/// second stream: long random sequences (12..30 operations) over 4 or 5 keys and the wide value pool, biased towards
/// deep nests of committed frames, every open frame closed by a rollback at the end
fn gen_long(rng: &mut Rng, n: usize, out: &mut Vec<String>) {
    for _ in 0..n / 4 {
        let nk = rng.range(4, 5);
        let mut init = Vec::new();
        for k in 0..nk {
            if rng.chance(1, 2) {
                init.push(format!("{}={}", k, if rng.chance(1, 2) { wide_val(rng) } else { format!("i{}", 90 + k) }));
            }
        }
        let len = rng.range(12, 30) as usize;
        let mut depth = 0usize;
        let mut ctr = 10i64;
        let mut ops: Vec<String> = Vec::new();
        while ops.len() < len {
            let k = rng.below(nk);
            let op = match rng.below(20) {
                0..=3 if depth < 5 => "B".to_string(),
                4..=6 => "C".into(),
                7 => "R".into(),
                8..=14 => {
                    ctr += 1;
                    format!("S{}=i{}", k, ctr)
                }
                _ => wide_mutator(rng, k),
            };
            match op.as_str() {
                "B" => depth += 1,
                "C" | "R" => depth = depth.saturating_sub(1),
                _ => {}
            }
            ops.push(op);
        }
        for _ in 0..depth {
            ops.push(if rng.chance(1, 4) { "C" } else { "R" }.into());
        }
        out.push(format!("{} {}", if init.is_empty() { "-".to_string() } else { init.join(",") }, ops.join(",")));
    }
}

fn shrink(case: &str) -> Vec<String> {
    let t: Vec<&str> = case.split_whitespace().collect();
    if t.len() != 2 {
        return vec![];
    }
    let ops: Vec<String> = if t[1] == "-" { vec![] } else { t[1].split(',').map(|s| s.to_string()).collect() };
    let init: Vec<String> = if t[0] == "-" { vec![] } else { t[0].split(',').map(|s| s.to_string()).collect() };
    let j = |v: &Vec<String>| if v.is_empty() { "-".to_string() } else { v.join(",") };
    let mut out = Vec::new();
    for v in shrink_list(&ops) {
        out.push(format!("{} {}", t[0], j(&v)));
    }
    for v in shrink_list(&init) {
        out.push(format!("{} {}", j(&v), t[1]));
    }
    out
}

fn main() {
    main_with(Prop { gen, exec, shrink });
}
