//! C06 — IncrementalEngine histories (insert / update / retract / fire_all / reset) over single-type rules of the typed
//! core, with a recorder inside every action closure.  No hook is needed: `TypedReteUlRule` has public fields, so the
//! harness builds each rule with exactly the node `GrlReteLoader` builds (`UlAlpha`/`UlAnd`/`UlOr`/`UlNot` over
//! `AlphaNode { field: "T.f", operator, value }`) and an action closure that does what the GRL closure does for
//! `T.f = literal;` (`facts.set`) and `retract(T);` (`get_fact_handle` → `ActionResult::Retract`), after recording
//! (rule, matched handle, contents of the matched fact in the flattened copy).
//!
//! case  := `<rule>/<rule>/… <op> <op> …`      names: type k = "T<k>", field k = "f<k>", string k = "s<k>", rule i = "R<i>"
//!   rule := `<ty>:<prio>:<noloop>:<node>:<action>`
//!   node := `A.<ty>.<field>.<eq|ne|lt|le|gt|ge>.<rhs>` | `&(<node>,<node>)` | `+(<node>,<node>)` | `!(<node>)`
//!   rhs  := `i<int>` | `b<0|1>` | `s<k>` | `v<ty>_<field>`          action := `-` | `<field>=<val>;…[;R]` | `R`
//!   op   := `I<ty>:<data>` | `U<h>:<data>` | `X<h>` | `F` | `Z`      data := `-` | `<field>=<val>,…`
//!         | `E<ty>:<data>` insert_explicit | `T<ty>:<data>` insert_with_template | `S<k>` set_conflict_resolution_strategy(k-th)
//!         | `D` load_deffacts | `N<k>` load_deffacts_by_name("d<k>") | `W` reset_with_deffacts      (see `new_engine`)
//!   more of the node grammar: operators `ct` contains, `sw` startsWith, `ew` endsWith, `in`; rhs `w<letters a..c>` (the string
//!   <letters>) and `[v|v|…]` (array literal); no-loop flag `1v` / `0v`: the rule's alpha nodes are built with
//!   `AlphaNode::with_typed_value`.  New results: `t0` (template Err), `s<k>` (strategy read back), `d<1|0><handles>` (deffacts
//!   loaded: Ok / Err and the new handles); every token ends in `/<rules>.<total>.<active>.<retracted>.<types>.<deps>` = stats().
//!   ARITHMETIC (reach audit 2): node `X.<expr>.<cmp>.<atom>` = the GRL condition `<expr> <cmp> <atom>` (an arithmetic left-hand side:
//!   `Condition::with_test`, alpha node `test(<text>) == true`); action item `<field>@<expr>` = `T.f<field> = <expr>;` (after the
//!   literal items).  atom := `n<twice>` (the number twice/2, written `n` or `n.5`) | `f<ty>_<field>` | `w<letters a..c>` (quoted);
//!   expr := atom (<p|m|t|d|r> atom)* for + - * / %.  A value `s<900+i>` = the text of the i-th distinct expression of the case
//!   (what `evaluate_expression_for_rete` stores when the evaluation fails).  `DX …` = a value outside the modelled domain showed up.
//! obs   := `D<0|1> tok tok …`; tok := `<res>/<get>/<T0>/<T1>/<T2>/<all_facts>/<all_handles>/<contents>`
//!   res  := `i<h>` | `u<0|1>` | `x<0|1>` | `z` | `F<fired names>~<rule>@<handle>@<f=v,…>~…`
//!   D1 = at every moment at most one live fact per type (then nothing depends on HashMap iteration order).
//!   values: `i<int>` | `b<0|1>` | `s<k>` | `h<2x>` (the float x) | `n` (FactValue::Null)
//!
//! Loader path: every rule of the case is also rendered as GRL text and loaded with the real `GrlReteLoader::load_from_string`
//! into a SECOND IncrementalEngine, which is driven through the same calls.  Its closures are the loader's own (no recorder), so
//! its observation carries the fired names without the recorder log: `… G tok tok …` (tok := `<res>/<views>` as above, res of a
//! fire_all = `F<fired names>`), `… G=` when it is token for token the first engine's observation with the logs removed, or
//! `… G!<hex error>` when the loader rejected the text.  The GRL closures print to stdout (`retract`), so fd 1 points at
//! /dev/null while cases run and the observations go to a duplicate of the original fd 1 (as in c02.rs).
use rre_harness::*;
use rust_rule_engine::rete::facts::{FactValue, TypedFacts};
use rust_rule_engine::rete::network::{ReteUlNode, TypedReteUlRule};
use rust_rule_engine::rete::propagation::IncrementalEngine;
use rust_rule_engine::rete::working_memory::FactHandle;
use rust_rule_engine::rete::agenda::ConflictResolutionStrategy;
use rust_rule_engine::rete::deffacts::DeffactsBuilder;
use rust_rule_engine::rete::template::{FieldDef, FieldType, Template};
use rust_rule_engine::rete::{ActionResult, AlphaNode, GrlReteLoader};
use std::sync::{Arc, Mutex};

const NTYPES: u64 = 3;

/// `q<k>`: strings with leading / trailing / only blanks, the empty string, and texts that look like a number, a boolean or null
/// (with and without blanks around them).  As a FACT value `q<k>` is the string itself; as a condition LITERAL it is the alpha
/// node's value text, which `AlphaNode::parse_value_string` classifies WITHOUT trimming: "7" is Integer 7, "7 " stays the string
/// "7 ", "1.5" is Float 1.5, "true" Boolean, "null" Null (Lean: `C06.oddStrings`, `C06.classifyLit`, identifiers 5000 + k).
const QS: [&str; 22] = ["", " ", "  ", "7 ", " 7", "7", " 7 ", "1.5", "1.5 ", "true", " true", "null", "null ", "a ", " a", "a b", " a ",
    "a\t", "-4", "15", "b ", " ab"];

fn parse_val(s: &str) -> Option<FactValue> {
    match s.as_bytes().first()? {
        b'i' => s[1..].parse().ok().map(FactValue::Integer),
        b'b' => Some(FactValue::Boolean(&s[1..] == "1")),
        b's' => Some(FactValue::String(s.to_string())),
        b'q' => s[1..].parse::<usize>().ok().and_then(|k| QS.get(k)).map(|t| FactValue::String(t.to_string())),
        // h<2x>: the float x, an exact half-integer (no rounding on either side of the wire)
        b'h' => s[1..].parse::<i64>().ok().map(|t| FactValue::Float(t as f64 / 2.0)),
        b'n' if s == "n" => Some(FactValue::Null),
        // w<letters a..c>: the string <letters> (substring structure for contains / startsWith / endsWith)
        b'w' if s.len() > 1 && s[1..].bytes().all(|c| (b'a'..=b'c').contains(&c)) => Some(FactValue::String(s[1..].to_string())),
        _ => None,
    }
}
/// texts of the distinct expressions of the case that is running (a failed evaluation stores the text), and whether a value
/// outside the modelled domain was seen
static EXPR_TEXTS: Mutex<Vec<String>> = Mutex::new(Vec::new());
static OUT_OF_DOMAIN: std::sync::atomic::AtomicBool = std::sync::atomic::AtomicBool::new(false);
fn out_of_domain() -> String { OUT_OF_DOMAIN.store(true, std::sync::atomic::Ordering::SeqCst); "?".into() }
fn show_val(v: &FactValue) -> String {
    match v {
        FactValue::Integer(i) => format!("i{}", i),
        FactValue::Boolean(b) => format!("b{}", if *b { 1 } else { 0 }),
        FactValue::String(s) if s.len() > 1 && s.starts_with('s') && s[1..].bytes().all(|c| c.is_ascii_digit()) => s.clone(),
        FactValue::String(s) if !s.is_empty() && s.bytes().all(|c| (b'a'..=b'c').contains(&c)) => format!("w{}", s),
        FactValue::String(s) if QS.contains(&s.as_str()) => format!("q{}", QS.iter().position(|t| t == s).unwrap()),
        FactValue::String(s) => match EXPR_TEXTS.lock().unwrap().iter().position(|t| t == s) {
            // the text of a bare field reference `T<t>.f<k>` is the string a dangling variable reference degrades to: s<1000+100t+k>
            Some(i) => match s.strip_prefix('T').and_then(|r| r.split_once(".f")).and_then(|(t, k)| Some((t.parse::<u64>().ok()?, k.parse::<u64>().ok()?))) {
                Some((t, k)) => format!("s{}", 1000 + 100 * t + k),
                None => format!("s{}", 900 + i),
            },
            // anything else (a concatenation with an `s<k>` string or with a stored expression text, …) is outside the domain
            None => out_of_domain(),
        },
        FactValue::Float(f) if (f * 2.0).fract() == 0.0 && f.abs() < 1e15 => format!("h{}", (f * 2.0) as i64),
        FactValue::Null => "n".into(),
        _ => out_of_domain(),
    }
}

// ------------------------------------------------------------------------------------------------ arithmetic
/// one atom of the expression grammar: (GRL text, rest of the input)
fn atom_text(s: &str) -> Option<(String, &str)> {
    let digits = |t: &str| t.bytes().take_while(|c| c.is_ascii_digit()).count();
    match s.as_bytes().first()? {
        b'n' => { let n = digits(&s[1..]); let t: u64 = s[1..1 + n].parse().ok()?;
                  Some((if t % 2 == 0 { format!("{}", t / 2) } else { format!("{}.5", t / 2) }, &s[1 + n..])) }
        b'f' => { let n = digits(&s[1..]); let r = s[1 + n..].strip_prefix('_')?; let m = digits(r);
                  if n == 0 || m == 0 { return None; }
                  Some((format!("T{}.f{}", &s[1..1 + n], &r[..m]), &r[m..])) }
        b'w' => { let n = s[1..].bytes().take_while(|c| (b'a'..=b'c').contains(c)).count(); if n == 0 { return None; }
                  Some((format!("\"{}\"", &s[1..1 + n]), &s[1 + n..])) }
        _ => None,
    }
}
/// `<atom> (<op> <atom>)*` as GRL text: operands and operators separated by single blanks
fn expr_text(s: &str) -> Option<String> {
    let (mut out, mut rest) = atom_text(s)?;
    while !rest.is_empty() {
        let op = match rest.as_bytes()[0] { b'p' => "+", b'm' => "-", b't' => "*", b'd' => "/", b'r' => "%", _ => return None };
        let (a, r) = atom_text(&rest[1..])?;
        out.push_str(&format!(" {} {}", op, a));
        rest = r;
    }
    Some(out)
}
fn atom_only(s: &str) -> Option<String> { let (t, r) = atom_text(s)?; if r.is_empty() { Some(t) } else { None } }
/// the field of the alpha node the loader builds for an arithmetic condition (`Condition::with_test`)
fn test_field(p: &[&str]) -> Option<String> {
    Some(format!("test({} {} {})", expr_text(p[1])?, op_text(p[2])?, atom_only(p[3])?))
}
/// what the GRL closure does for `T.f = <expr>;` (`execute_action` → `evaluate_expression_for_rete` → `value_to_fact_value`), through
/// the public evaluator `rust_rule_engine::expression::evaluate_expression`
fn eval_like_loader(expr: &str, facts: &TypedFacts) -> FactValue {
    use rust_rule_engine::types::Value;
    fn fv_to_v(v: &FactValue) -> Value {
        match v {
            FactValue::String(s) => if let Ok(i) = s.parse::<i64>() { Value::Integer(i) } else if let Ok(f) = s.parse::<f64>() { Value::Number(f) }
                else if s == "true" { Value::Boolean(true) } else if s == "false" { Value::Boolean(false) } else { Value::String(s.clone()) },
            FactValue::Integer(i) => Value::Integer(*i),
            FactValue::Float(f) => Value::Number(*f),
            FactValue::Boolean(b) => Value::Boolean(*b),
            FactValue::Array(a) => Value::Array(a.iter().map(fv_to_v).collect()),
            FactValue::Null => Value::Null,
        }
    }
    fn v_to_fv(v: &Value) -> FactValue {
        match v {
            Value::Number(n) => if n.fract() == 0.0 { FactValue::Integer(*n as i64) } else { FactValue::Float(*n) },
            Value::Integer(i) => FactValue::Integer(*i),
            Value::String(s) => FactValue::String(s.clone()),
            Value::Boolean(b) => FactValue::Boolean(*b),
            Value::Null => FactValue::Null,
            Value::Array(a) => FactValue::Array(a.iter().map(v_to_fv).collect()),
            Value::Object(_) => FactValue::String("object".to_string()),
            Value::Expression(e) => FactValue::String(format!("[EXPR: {}]", e)),
        }
    }
    let f = rust_rule_engine::engine::facts::Facts::new();
    for (k, v) in facts.get_all() { f.set(k, fv_to_v(v)); }
    match rust_rule_engine::expression::evaluate_expression(expr, &f) {
        Ok(v) => v_to_fv(&v),
        Err(_) => FactValue::String(expr.to_string()),
    }
}

/// recursive-descent parser for the node grammar; returns the node and the rest of the input
fn op_text(code: &str) -> Option<&'static str> {
    Some(match code { "eq" => "==", "ne" => "!=", "lt" => "<", "le" => "<=", "gt" => ">", "ge" => ">=",
        "ct" => "contains", "sw" => "startsWith", "ew" => "endsWith", "in" => "in", _ => return None })
}
/// the text of one literal as `GrlReteLoader::value_to_string` / the alpha node carries it (floats keep their fraction here:
/// "15.0" is parsed back as Float; the loader and `with_typed_value` print "15")
fn alpha_val(v: &str) -> Option<String> {
    Some(match v.as_bytes().first()? {
        b'i' => v[1..].parse::<i64>().ok()?.to_string(),
        b'b' => (if &v[1..] == "1" { "true" } else { "false" }).to_string(),
        b's' => v.to_string(),
        b'w' | b'q' => match parse_val(v)? { FactValue::String(t) => t, _ => return None },
        b'h' => format!("{:?}", v[1..].parse::<i64>().ok()? as f64 / 2.0),
        b'n' if v == "n" => "null".to_string(),
        _ => return None,
    })
}
/// `typed` = build the alpha nodes with the public constructor `AlphaNode::with_typed_value` (literal right-hand sides only;
/// an array literal always goes in as text: `with_typed_value` prints an array in `Debug` form, which no loader produces)
fn parse_node(s: &str, typed: bool) -> Option<(ReteUlNode, &str)> {
    if let Some(r) = s.strip_prefix("&(") {
        let (l, r) = parse_node(r, typed)?;
        let (rr, r) = parse_node(r.strip_prefix(',')?, typed)?;
        return Some((ReteUlNode::UlAnd(Box::new(l), Box::new(rr)), r.strip_prefix(')')?));
    }
    if let Some(r) = s.strip_prefix("+(") {
        let (l, r) = parse_node(r, typed)?;
        let (rr, r) = parse_node(r.strip_prefix(',')?, typed)?;
        return Some((ReteUlNode::UlOr(Box::new(l), Box::new(rr)), r.strip_prefix(')')?));
    }
    if let Some(r) = s.strip_prefix("!(") {
        let (n, r) = parse_node(r, typed)?;
        return Some((ReteUlNode::UlNot(Box::new(n)), r.strip_prefix(')')?));
    }
    let end = s.find([',', ')']).unwrap_or(s.len());
    let p: Vec<&str> = s[..end].split('.').collect();
    if p.len() == 4 && p[0] == "X" {
        let field = test_field(&p)?;
        let node = if typed { AlphaNode::with_typed_value(field, "==".into(), FactValue::Boolean(true)) }
            else { AlphaNode { field, operator: "==".into(), value: "true".into() } };
        return Some((ReteUlNode::UlAlpha(node), &s[end..]));
    }
    if p.len() != 5 || p[0] != "A" {
        return None;
    }
    let op = op_text(p[3])?;
    let field = format!("T{}.f{}", p[1], p[2]);
    if typed && !p[4].starts_with('v') && !p[4].starts_with('[') {
        return Some((ReteUlNode::UlAlpha(AlphaNode::with_typed_value(field, op.into(), parse_val(p[4])?)), &s[end..]));
    }
    let value = match p[4].as_bytes().first()? {
        b'v' => { let (t, f) = p[4][1..].split_once('_')?; format!("T{}.f{}", t, f) }
        // [v|v|…]: array literal, as `value_to_string(Value::Array)` renders it
        b'[' => {
            let inner = p[4].strip_prefix('[')?.strip_suffix(']')?;
            let items = if inner.is_empty() { Vec::new() } else { inner.split('|').map(alpha_val).collect::<Option<Vec<_>>>()? };
            format!("[{}]", items.join(","))
        }
        _ => alpha_val(p[4])?,
    };
    Some((ReteUlNode::UlAlpha(AlphaNode { field, operator: op.into(), value }), &s[end..]))
}

struct RuleSpec { ty: u64, prio: i32, no_loop: bool, node: ReteUlNode, sets: Vec<(String, FactValue)>, xsets: Vec<(String, String)>, retract: bool }

fn parse_rule(s: &str) -> Option<RuleSpec> {
    let p: Vec<&str> = s.splitn(4, ':').collect();
    if p.len() != 4 { return None; }
    let (node_s, act_s) = p[3].rsplit_once(':')?;
    let (node, rest) = parse_node(node_s, p[2].ends_with('v'))?;
    if !rest.is_empty() { return None; }
    let ty: u64 = p[0].parse().ok()?;
    let mut sets = Vec::new();
    let mut xsets = Vec::new();
    let mut retract = false;
    if act_s != "-" {
        for a in act_s.split(';') {
            if a == "R" { retract = true; continue; }
            if let Some((f, e)) = a.split_once('@') {
                f.parse::<u64>().ok()?;
                xsets.push((format!("T{}.f{}", ty, f), expr_text(e)?));
                continue;
            }
            if !xsets.is_empty() { return None; }                  // literal assignments come first
            let (f, v) = a.split_once('=')?;
            sets.push((format!("T{}.f{}", ty, f), parse_val(v)?));
        }
    }
    Some(RuleSpec { ty, prio: p[1].parse().ok()?, no_loop: p[2].starts_with('1'), node, sets, xsets, retract })
}

fn parse_data(s: &str) -> Option<TypedFacts> {
    let mut d = TypedFacts::new();
    if s != "-" {
        for kv in s.split(',') {
            let (f, v) = kv.split_once('=')?;
            d.set(format!("f{}", f), parse_val(v)?);
        }
    }
    Some(d)
}

fn show_data(items: &mut Vec<(u64, String)>) -> String {
    items.sort();
    if items.is_empty() { "-".into() } else { items.iter().map(|(f, v)| format!("{}={}", f, v)).collect::<Vec<_>>().join(",") }
}
fn fnum(k: &str) -> u64 { k.trim_start_matches('f').parse().unwrap_or(999) }

fn views(e: &IncrementalEngine, max_h: &mut u64, d1: &mut bool) -> String {
    let wm = e.working_memory();
    for h in wm.get_all_handles() { *max_h = (*max_h).max(h.id()); }
    let max_h = *max_h;
    let get: Vec<u64> = (1..=max_h + 1).filter(|h| wm.get(&FactHandle::new(*h)).map(|f| f.handle.id() == *h).unwrap_or(false)).collect();
    let mut parts = vec![join_nums(&get)];
    for t in 0..NTYPES {
        let mut hs: Vec<u64> = wm.get_by_type(&format!("T{}", t)).iter().map(|f| f.handle.id()).collect();
        hs.sort();
        if hs.len() > 1 { *d1 = false; }
        parts.push(join_nums(&hs));
    }
    let mut all: Vec<u64> = wm.get_all_facts().iter().map(|f| f.handle.id()).collect();
    all.sort();
    parts.push(join_nums(&all));
    let mut hs: Vec<u64> = wm.get_all_handles().iter().map(|h| h.id()).collect();
    hs.sort();
    parts.push(join_nums(&hs));
    let mut facts: Vec<(u64, String)> = wm.get_all_facts().iter().map(|f| {
        let mut items: Vec<(u64, String)> = f.data.get_all().iter().map(|(k, v)| (fnum(k), show_val(v))).collect();
        (f.handle.id(), format!("{}:{}:{}", f.handle.id(), f.fact_type.trim_start_matches('T'), show_data(&mut items)))
    }).collect();
    facts.sort();
    parts.push(if facts.is_empty() { "-".into() } else { facts.into_iter().map(|(_, s)| s).collect::<Vec<_>>().join("+") });
    // the counting twins: IncrementalEngine::stats() (wraps WorkingMemory::stats())
    let st = e.stats();
    parts.push(format!("{}.{}.{}.{}.{}.{}", st.rules, st.working_memory.total_facts, st.working_memory.active_facts,
        st.working_memory.retracted_facts, st.working_memory.types, st.dependencies));
    parts.join("/")
}

// ------------------------------------------------------------------------------------------------ GRL rendering
fn grl_val(v: &str) -> Option<String> {
    Some(match v.as_bytes().first()? {
        b'i' => v[1..].parse::<i64>().ok()?.to_string(),
        b'b' => (if &v[1..] == "1" { "true" } else { "false" }).to_string(),
        b's' => format!("\"{}\"", v),
        b'w' | b'q' => format!("\"{}\"", alpha_val(v)?),
        b'h' => format!("{:?}", v[1..].parse::<i64>().ok()? as f64 / 2.0),
        b'n' if v == "n" => "null".to_string(),
        _ => return None,
    })
}
/// the when-clause text of a node: every compound is parenthesised, a negation is written `!(…)`
fn grl_node(s: &str) -> Option<(String, &str)> {
    for (pre, op) in [("&(", "&&"), ("+(", "||")] {
        if let Some(r) = s.strip_prefix(pre) {
            let (l, r) = grl_node(r)?;
            let (rr, r) = grl_node(r.strip_prefix(',')?)?;
            return Some((format!("({} {} {})", l, op, rr), r.strip_prefix(')')?));
        }
    }
    if let Some(r) = s.strip_prefix("!(") {
        let (n, r) = grl_node(r)?;
        return Some((format!("!({})", n), r.strip_prefix(')')?));
    }
    let end = s.find([',', ')']).unwrap_or(s.len());
    let p: Vec<&str> = s[..end].split('.').collect();
    if p.len() == 4 && p[0] == "X" {
        return Some((format!("{} {} {}", expr_text(p[1])?, op_text(p[2])?, atom_only(p[3])?), &s[end..]));
    }
    if p.len() != 5 || p[0] != "A" { return None; }
    let op = op_text(p[3])?;
    let rhs = if let Some(v) = p[4].strip_prefix('v') { let (t, f) = v.split_once('_')?; format!("T{}.f{}", t, f) }
        else if let Some(inner) = p[4].strip_prefix('[') {
            let inner = inner.strip_suffix(']')?;
            let items = if inner.is_empty() { Vec::new() } else { inner.split('|').map(grl_val).collect::<Option<Vec<_>>>()? };
            format!("[{}]", items.join(", "))
        } else { grl_val(p[4])? };
    Some((format!("T{}.f{} {} {}", p[1], p[2], op, rhs), &s[end..]))
}
/// `rule "R<i>" salience <p> [no-loop] { when <node> then <T.f = literal;>* [retract(T);] }` (`Log("x");` for an empty action list)
fn grl_rule(i: usize, s: &str) -> Option<String> {
    let p: Vec<&str> = s.splitn(4, ':').collect();
    if p.len() != 4 { return None; }
    let (node_s, act_s) = p[3].rsplit_once(':')?;
    let (cond, rest) = grl_node(node_s)?;
    if !rest.is_empty() { return None; }
    let mut acts = Vec::new();
    if act_s != "-" {
        for a in act_s.split(';') {
            if a == "R" { acts.push(format!("retract(T{});", p[0])); continue; }
            if let Some((f, e)) = a.split_once('@') { acts.push(format!("T{}.f{} = {};", p[0], f, expr_text(e)?)); continue; }
            let (f, v) = a.split_once('=')?;
            acts.push(format!("T{}.f{} = {};", p[0], f, grl_val(v)?));
        }
    }
    if acts.is_empty() { acts.push("Log(\"x\");".to_string()); }
    Some(format!("rule \"R{}\" salience {}{} {{\n    when\n        {}\n    then\n        {}\n}}\n", i, p[1].parse::<i32>().ok()?,
        if p[2].starts_with('1') { " no-loop" } else { "" }, cond, acts.join("\n        ")))
}

// ------------------------------------------------------------------------------------------------ execution
/// drives one engine through the calls of the case; `log` = the recorder of the directly built rules (none for GRL-loaded rules)
fn run_ops(e: &mut IncrementalEngine, ops: &[&str], log: Option<&Arc<Mutex<Vec<String>>>>) -> Option<(Vec<String>, bool)> {
    let mut toks = Vec::new();
    let mut max_h = 0u64;
    let mut d1 = true;
    for op in ops {
        let res = match op.as_bytes()[0] {
            b'I' => {
                let (ty, data) = op[1..].split_once(':')?;
                let h = e.insert(format!("T{}", ty), parse_data(data)?).id();
                max_h = max_h.max(h);
                format!("i{}", h)
            }
            // the twin entry points
            b'E' => {
                let (ty, data) = op[1..].split_once(':')?;
                let h = e.insert_explicit(format!("T{}", ty), parse_data(data)?).id();
                max_h = max_h.max(h);
                format!("i{}", h)
            }
            b'T' => {
                let (ty, data) = op[1..].split_once(':')?;
                match e.insert_with_template(&format!("T{}", ty), parse_data(data)?) {
                    Ok(h) => { max_h = max_h.max(h.id()); format!("i{}", h.id()) }
                    Err(_) => "t0".to_string(),
                }
            }
            b'S' => {
                let k: usize = op[1..].parse().ok()?;
                e.set_conflict_resolution_strategy(*STRATEGIES.get(k)?);
                let now = e.conflict_resolution_strategy();
                format!("s{}", STRATEGIES.iter().position(|s| *s == now).unwrap_or(99))
            }
            b'D' | b'W' | b'N' => {
                let before: Vec<u64> = e.working_memory().get_all_handles().iter().map(|h| h.id()).collect();
                let (ok, mut hs): (bool, Vec<u64>) = match op.as_bytes()[0] {
                    b'D' => (true, e.load_deffacts().iter().map(|h| h.id()).collect()),
                    b'W' => (true, e.reset_with_deffacts().iter().map(|h| h.id()).collect()),
                    _ => {
                        let k: u64 = op[1..].parse().ok()?;
                        match e.load_deffacts_by_name(&format!("d{}", k)) {
                            Ok(v) => (true, v.iter().map(|h| h.id()).collect()),
                            // Err: the handles that are new in working memory all the same
                            Err(_) => (false, e.working_memory().get_all_handles().iter().map(|h| h.id()).filter(|h| !before.contains(h)).collect()),
                        }
                    }
                };
                if !ok { hs.sort(); }
                format!("d{}{}", if ok { 1 } else { 0 }, join_nums(&hs))
            }
            b'U' => {
                let (h, data) = op[1..].split_once(':')?;
                format!("u{}", if e.update(FactHandle::new(h.parse::<u64>().ok()?), parse_data(data)?).is_ok() { 1 } else { 0 })
            }
            b'X' => format!("x{}", if e.retract(FactHandle::new(op[1..].parse::<u64>().ok()?)).is_ok() { 1 } else { 0 }),
            b'F' => {
                if let Some(lg) = log { lg.lock().unwrap().clear(); }
                let fired = e.fire_all();
                let names: Vec<String> = fired.iter().map(|n| n.trim_start_matches('R').to_string()).collect();
                let mut s = format!("F{}", if names.is_empty() { "-".to_string() } else { names.join(",") });
                if let Some(lg) = log { for r in lg.lock().unwrap().iter() { s.push('~'); s.push_str(r); } }
                s
            }
            b'Z' => { e.reset(); "z".into() }
            _ => return None,
        };
        let v = views(e, &mut max_h, &mut d1);
        toks.push(format!("{}/{}", res, v));
    }
    Some((toks, d1))
}

const STRATEGIES: [ConflictResolutionStrategy; 8] = [ConflictResolutionStrategy::Salience, ConflictResolutionStrategy::LEX,
    ConflictResolutionStrategy::MEA, ConflictResolutionStrategy::Depth, ConflictResolutionStrategy::Breadth,
    ConflictResolutionStrategy::Simplicity, ConflictResolutionStrategy::Complexity, ConflictResolutionStrategy::Random];

/// every engine of every case: template `T1` (f0 Integer required, f1 String optional) and the deffacts set `d0`
/// (T0 {f0 = 25}; T1 {f0 = 1, f1 = "s1"}; T1 {f0 = "s0"} — violates the template; T2 {f1 = true}) — lean/RreModel/C06/Ext.lean
fn new_engine() -> IncrementalEngine {
    let mut e = IncrementalEngine::new();
    let mut t = Template::new("T1");
    t.add_field(FieldDef { name: "f0".into(), field_type: FieldType::Integer, default_value: None, required: true });
    t.add_field(FieldDef { name: "f1".into(), field_type: FieldType::String, default_value: None, required: false });
    e.templates_mut().register(t);
    let d = DeffactsBuilder::new("d0")
        .add_fact("T0", parse_data("0=i25").unwrap())
        .add_fact("T1", parse_data("0=i1,1=s1").unwrap())
        .add_fact("T1", parse_data("0=s0").unwrap())
        .add_fact("T2", parse_data("1=b1").unwrap())
        .build();
    e.deffacts_mut().register(d).unwrap();
    e
}

fn exec(case: &str) -> String {
    let t: Vec<&str> = case.split_whitespace().collect();
    if t.is_empty() { return "bad-case".into(); }
    let Some(rules) = t[0].split('/').map(parse_rule).collect::<Option<Vec<_>>>() else { return "bad-case".into() };
    let Some(grl) = t[0].split('/').enumerate().map(|(i, r)| grl_rule(i, r)).collect::<Option<Vec<_>>>() else { return "bad-case".into() };
    let log: Arc<Mutex<Vec<String>>> = Arc::new(Mutex::new(Vec::new()));
    {
        let mut tab = EXPR_TEXTS.lock().unwrap();
        tab.clear();
        for r in &rules { for (_, t) in &r.xsets { if !tab.contains(t) { tab.push(t.clone()); } } }
        OUT_OF_DOMAIN.store(false, std::sync::atomic::Ordering::SeqCst);
    }
    let mut e = new_engine();
    for (i, r) in rules.into_iter().enumerate() {
        let (lg, ty, sets, xsets, retract) = (log.clone(), r.ty, r.sets, r.xsets, r.retract);
        let tname = format!("T{}", ty);
        e.add_rule(
            TypedReteUlRule {
                name: format!("R{}", i), node: r.node, priority: r.prio, no_loop: r.no_loop,
                action: Arc::new(move |facts: &mut TypedFacts, results| {
                    // recorder: matched handle of the rule's type and that fact's contents in the flattened copy
                    let h = facts.get_fact_handle(&tname).map(|h| h.id());
                    let rec = match h {
                        Some(h) => {
                            let prefix = format!("{}.{}.", tname, h);
                            let mut items: Vec<(u64, String)> = facts.get_all().iter()
                                .filter_map(|(k, v)| k.strip_prefix(&prefix).map(|f| (fnum(f), show_val(v)))).collect();
                            format!("{}@{}@{}", i, h, show_data(&mut items))
                        }
                        None => format!("{}@?@-", i),
                    };
                    lg.lock().unwrap().push(rec);
                    // what the GRL-generated closure does for `T.f = literal;` and `retract(T);`
                    for (k, v) in &sets { facts.set(k.clone(), v.clone()); }
                    // … and for `T.f = <expr>;`: evaluated on the copy as the earlier assignments left it
                    for (k, x) in &xsets { let v = eval_like_loader(x, facts); facts.set(k.clone(), v); }
                    if retract {
                        match facts.get_fact_handle(&tname) {
                            Some(h) => results.add(ActionResult::Retract(h)),
                            None => results.add(ActionResult::RetractByType(tname.clone())),
                        }
                    }
                }),
            },
            vec![format!("T{}", ty)],
        );
    }
    let Some((toks, d1)) = run_ops(&mut e, &t[1..], Some(&log)) else { return "bad-case".into() };
    // the loader path: the same rules as GRL text through the real GrlReteLoader into a second engine, same calls
    let mut e2 = new_engine();
    // every other case (by its length) goes through the file twin of the loader entry point
    let text = grl.join("\n");
    let loaded = if case.len() % 2 == 0 { GrlReteLoader::load_from_string(&text, &mut e2) } else {
        let path = std::env::temp_dir().join(format!("rre_c06_{}.grl", std::process::id()));
        match std::fs::write(&path, &text) {
            Ok(()) => { let r = GrlReteLoader::load_from_file(&path, &mut e2); let _ = std::fs::remove_file(&path); r }
            Err(_) => GrlReteLoader::load_from_string(&text, &mut e2),
        }
    };
    let g = match loaded {
        Err(err) => format!("G!{}", hex(&format!("{}", err))),
        Ok(n) if n != grl.len() => format!("G!{}", hex(&format!("loaded {} of {} rules", n, grl.len()))),
        Ok(_) => {
            let Some((toks2, _)) = run_ops(&mut e2, &t[1..], None) else { return "bad-case".into() };
            // first engine's tokens with the recorder log removed
            let stripped: Vec<String> = toks.iter().map(|tk| match tk.split_once('/') {
                Some((res, rest)) if res.starts_with('F') => format!("{}/{}", res.split('~').next().unwrap_or(res), rest),
                _ => tk.clone(),
            }).collect();
            if toks2 == stripped { "G=".to_string() } else { format!("G {}", if toks2.is_empty() { "-".to_string() } else { toks2.join(" ") }) }
        }
    };
    if OUT_OF_DOMAIN.load(std::sync::atomic::Ordering::SeqCst) { return format!("DX {}", if toks.is_empty() { "-".to_string() } else { toks.join(" ") }); }
    format!("D{} {} {}", if d1 { 1 } else { 0 }, if toks.is_empty() { "-".to_string() } else { toks.join(" ") }, g)
}

// the same exec loop as `rre_harness::main_with`, with fd 1 pointed at /dev/null while the cases run (the loader's action
// closures and `process_action_results` print to stdout); observations go to a duplicate of the original fd 1
extern "C" {
    fn dup(fd: i32) -> i32;
    fn dup2(a: i32, b: i32) -> i32;
}
fn exec_main() {
    use std::io::{BufRead, Write};
    use std::os::fd::{AsRawFd, FromRawFd};
    let saved = unsafe { dup(1) };
    let null = std::fs::OpenOptions::new().write(true).open("/dev/null").unwrap();
    unsafe { dup2(null.as_raw_fd(), 1) };
    let mut out = std::io::BufWriter::new(unsafe { std::fs::File::from_raw_fd(saved) });
    std::panic::set_hook(Box::new(|_| {}));
    let stdin = std::io::stdin();
    for line in stdin.lock().lines() {
        let line = line.unwrap();
        let line = line.trim_end();
        if line.is_empty() { continue; }
        writeln!(out, "{}", exec_guarded(exec, line)).unwrap();
        out.flush().unwrap(); // per case: if the process dies or hangs, check.py knows which case did it
    }
    out.flush().unwrap();
}

// ------------------------------------------------------------------------------------------------ generation
fn gen_val(rng: &mut Rng) -> String {
    match rng.below(20) {
        0 | 1 => format!("b{}", rng.below(2)),
        2 | 3 => format!("s{}", rng.below(2)),
        // floats: the same numbers as the integers (boundary of <=, >= across representations) and halves
        4..=7 => format!("h{}", *rng.pick(&[0i64, 2, 4, 6, 30, 36, 50, -8, 1, 37, -7])),
        8 => "n".to_string(),
        _ => format!("i{}", *rng.pick(&[0i64, 1, 2, 3, 15, 18, 25, -4])),
    }
}
/// values for the family "negated comparison": mostly NOT numbers (null, strings, booleans)
fn gen_val_odd(rng: &mut Rng) -> String {
    match rng.below(8) {
        0 | 1 => "n".to_string(),
        2 | 3 => format!("s{}", rng.below(2)),
        4 => format!("b{}", rng.below(2)),
        5 => format!("h{}", *rng.pick(&[1i64, 37, -7, 30])),
        _ => format!("i{}", *rng.pick(&[0i64, 3, 15, 18, 25, -4])),
    }
}
/// facts with many absent fields
fn gen_data_sparse(rng: &mut Rng) -> String {
    let mut items = Vec::new();
    for f in 0..3 {
        if rng.chance(3, 5) { items.push(format!("{}={}", f, gen_val_odd(rng))); }
    }
    if items.is_empty() { "-".into() } else { items.join(",") }
}
fn gen_alpha(rng: &mut Rng, ty: u64) -> String {
    let op = *rng.pick(&["eq", "ne", "lt", "le", "gt", "ge"]);
    let rhs = match rng.below(10) {
        0 => format!("v{}_{}", ty, rng.below(3)),
        1 | 2 => gen_val_odd(rng),
        _ => format!("i{}", *rng.pick(&[0i64, 3, 5, 15, 18])),
    };
    format!("A.{}.{}.{}.{}", ty, rng.below(3), op, rhs)
}
/// a node in which `!` is applied directly to one comparison (what a loader could be tempted to fold into the complementary
/// comparison), alone or inside a conjunction / disjunction / second negation
fn gen_negcmp_node(rng: &mut Rng, ty: u64) -> String {
    let neg = format!("!({})", gen_alpha(rng, ty));
    match rng.below(10) {
        0 => format!("&({},{})", neg, gen_alpha(rng, ty)),
        1 => format!("+({},{})", gen_alpha(rng, ty), neg),
        2 => format!("!({})", neg),
        3 => format!("&({},!({}))", neg, gen_alpha(rng, ty)),
        _ => neg,
    }
}
fn gen_node(rng: &mut Rng, ty: u64, depth: u32, allow_not: bool, ntypes: u64) -> String {
    let k = rng.below(10);
    if depth > 0 && k < 2 {
        format!("&({},{})", gen_node(rng, ty, depth - 1, allow_not, ntypes), gen_node(rng, ty, depth - 1, allow_not, ntypes))
    } else if depth > 0 && k < 4 {
        format!("+({},{})", gen_node(rng, ty, depth - 1, allow_not, ntypes), gen_node(rng, ty, depth - 1, allow_not, ntypes))
    } else if depth > 0 && k < 5 && allow_not {
        format!("!({})", gen_node(rng, ty, depth - 1, allow_not, ntypes))
    } else {
        let op = *rng.pick(&["eq", "ne", "lt", "le", "gt", "ge", "gt", "lt", "ge"]);
        let rhs = if rng.chance(1, 8) { format!("v{}_{}", ty, rng.below(3)) } else { gen_val(rng) };
        format!("A.{}.{}.{}.{}", ty, rng.below(2), op, rhs)
    }
}
fn gen_data(rng: &mut Rng) -> String {
    let mut items = Vec::new();
    for f in 0..3 {
        if f == 0 && !rng.chance(1, 10) || f > 0 && rng.chance(1, 2) { items.push(format!("{}={}", f, gen_val(rng))); }
    }
    if items.is_empty() { "-".into() } else { items.join(",") }
}

fn gen_case(rng: &mut Rng) -> String { gen_case_with(rng, false, false) }

/// `neg` = family "negated rules on a multi-type store": 2–3 fact types, rules negated at the top, a fact of every type
/// inserted first.  A negated condition is vacuously true on a fact of a foreign type (all its fields are missing): before
/// fix-C06c the re-propagation inside `fire_all` matched such a rule against facts of the other types (F-C06c).
///
/// `negcmp` = family "negated comparison on an absent / null / non-numeric field": every rule contains `!` applied directly to
/// one comparison, the facts have many absent fields and values that are not numbers.  Such a comparison is false, so its
/// negation is true and the rule has to fire — which `!(a > b)` rewritten as `a <= b` would not do.  Most of these rule sets
/// are quiet (exactness clause), and every case runs through the GRL loader as well as through the directly built nodes.
fn gen_case_with(rng: &mut Rng, neg: bool, negcmp: bool) -> String {
    let ntypes = if neg { rng.range(2, NTYPES) } else if rng.chance(1, 3) { 1 } else { rng.range(2, NTYPES) };
    let allow_not = true;
    let single = rng.chance(1, 2); // at most one live fact per type (deterministic histories)
    let nrules = rng.range(1, 3) as usize;
    let mut prios: Vec<i64> = vec![-5, 0, 1, 7, 20];
    rng.shuffle(&mut prios);
    let quiet = rng.chance(1, 3) || negcmp && rng.chance(1, 2); // all actions no-ops and all rules no-loop: the exactness clause applies
    let gen_data = |rng: &mut Rng| if negcmp { gen_data_sparse(rng) } else { gen_data(rng) };
    let mut rules = Vec::new();
    for i in 0..nrules {
        let ty = rng.below(ntypes);
        let action = if quiet { "-".to_string() } else {
            match rng.below(6) {
                0 | 1 => "-".to_string(),
                2 => "R".to_string(),
                3 => format!("{}={};R", rng.below(3), gen_val(rng)),
                _ => (0..rng.range(1, 2)).map(|_| format!("{}={}", rng.below(3), gen_val(rng))).collect::<Vec<_>>().join(";"),
            }
        };
        let nl = if quiet || !rng.chance(1, 8) { 1 } else { 0 };
        let mut node = gen_node(rng, ty, 2, allow_not, ntypes);
        if neg && (i == 0 || rng.chance(1, 2)) { node = format!("!({})", gen_node(rng, ty, 1, allow_not, ntypes)); }
        if negcmp { node = gen_negcmp_node(rng, ty); }
        // one rule in eight is built with the public constructor AlphaNode::with_typed_value (flag `v`)
        rules.push(format!("{}:{}:{}{}:{}:{}", ty, prios[i], nl, if rng.chance(1, 8) { "v" } else { "" }, node, action));
    }
    let nops = rng.range(2, 12) as usize;
    let mut ops = Vec::new();
    let mut inserted = 0u64;
    let mut live: Vec<(u64, u64)> = Vec::new(); // (handle, type), as far as the generator can tell
    let rule_types: Vec<u64> = rules.iter().map(|r: &String| r.split(':').next().unwrap().parse().unwrap()).collect();
    if neg {
        for ty in 0..ntypes {
            inserted += 1;
            live.push((inserted, ty));
            ops.push(format!("I{}:{}", ty, gen_data(rng)));
        }
    }
    for opi in 0..nops {
        let k = if opi == 0 && rng.chance(3, 4) { 0 } else { rng.below(11) };
        if k < 3 && inserted < 6 {
            let mut ty = if rng.chance(2, 3) { *rng.pick(&rule_types) } else { rng.below(ntypes) };
            if single {
                let free: Vec<u64> = (0..ntypes).filter(|t| !live.iter().any(|(_, lt)| lt == t)).collect();
                if free.is_empty() {
                    // no free type: update instead
                    let (h, _) = *rng.pick(&live);
                    ops.push(format!("U{}:{}", h, gen_data(rng)));
                    continue;
                }
                ty = *rng.pick(&free);
            }
            inserted += 1;
            live.push((inserted, ty));
            ops.push(format!("I{}:{}", ty, gen_data(rng)));
        } else if k < 6 && inserted > 0 {
            let h = if rng.chance(1, 8) || live.is_empty() { rng.range(1, inserted + 1) } else { rng.pick(&live).0 };
            ops.push(format!("U{}:{}", h, gen_data(rng)));
        } else if k < 7 && inserted > 0 {
            let h = if rng.chance(1, 6) || live.is_empty() { rng.range(1, inserted + 1) } else { rng.pick(&live).0 };
            live.retain(|(lh, _)| *lh != h);
            ops.push(format!("X{}", h));
        } else if k < 10 {
            ops.push("F".to_string());
        } else {
            ops.push("Z".to_string());
        }
    }
    if rng.chance(2, 3) { ops.push("F".to_string()); }
    format!("{} {}", rules.join("/"), ops.join(" "))
}

/// family "many stale / duplicate activations" (F-C06b): every insert / update re-creates the activations of ALL matching
/// facts of the type, so a few dozen updates on 3–6 facts put more than 1000 activations of the high-salience rules into the
/// agenda; then every fact is made to falsify those rules (updated, or retracted and replaced).  The stale activations are
/// popped first (higher salience / older); before fix-C06b each of them was counted against `max_iterations` and the
/// low-salience rule, which the live facts satisfy, never fired.  All rules are quiet and no-loop: the exactness clause applies.
fn gen_stale_case(rng: &mut Rng) -> String {
    let k = if rng.chance(1, 4) { 1 } else { rng.range(3, 6) };          // facts (k = 1: a D1 history, compared with the model in full)
    let nh = rng.range(2, 4);                                             // high-salience rules, true for f0 = 25, false for f0 = 3
    let highs = ["A.0.0.gt.i18", "A.0.0.ge.i18", "&(A.0.0.gt.i15,A.0.0.ne.i3)", "+(A.0.0.gt.i20,A.0.0.eq.i25)"];
    let mut rules: Vec<String> = (0..nh as usize).map(|i| format!("0:{}:1:{}:-", [20, 7, 5, 3][i], highs[i])).collect();
    rules.push(format!("0:{}:1:{}:-", -5, *rng.pick(&["A.0.0.lt.i100", "A.0.0.le.i3", "!(A.0.0.gt.i18)"])));
    let n = 1000 / (k * nh) + rng.range(2, 8);                            // updates: n * k * nh > 1000 stale activations
    let mut ops: Vec<String> = (0..k).map(|_| "I0:0=i25".to_string()).collect();
    if rng.chance(1, 3) { ops.push("F".into()); ops.push("Z".into()); }
    for _ in 0..n {
        ops.push(format!("U{}:0=i25,1=i{}", rng.range(1, k), rng.below(4)));
    }
    if rng.chance(1, 2) {
        for h in 1..=k { ops.push(format!("U{}:0=i3", h)); }
    } else {
        for h in 1..=k { ops.push(format!("X{}", h)); }
        for _ in 0..k { ops.push("I0:0=i3".to_string()); }
    }
    ops.push("F".into());
    if rng.chance(1, 2) { ops.push("Z".into()); ops.push(format!("U{}:0=i25", if ops.iter().any(|o| o.starts_with('X')) { k + 1 } else { 1 })); ops.push("F".into()); }
    format!("{} {}", rules.join("/"), ops.join(" "))
}

/// family "many rules, handles of two digits" (seeded change C06-4: an agenda that identifies a queued (rule, fact) pair by the
/// concatenation `rule_name + handle` confuses R1 / handle 12 with R11 / handle 2).  11..13 quiet no-loop rules
/// `R<k>: T0.f0 == 100 + k` (names that differ in trailing digits only), 11..24 facts of one type.  Two designated facts: handle
/// `c` satisfies R1b (b = 1 or 2), handle `bc` satisfies R1, so that name + handle read the same.  One of the two becomes
/// true first (its activation is queued first), then that fact is retracted or updated away before fire_all: the other rule
/// is satisfied by a live fact that was inserted / updated since the last fire_all and must fire (exactness clause).  A few
/// other facts satisfy other rules, with any salience, so that firings happen before and after the stale activation is popped.
fn gen_collide_case(rng: &mut Rng) -> String {
    let nrules = *rng.pick(&[11u64, 12, 12, 13, 13, 13]);
    let mut rules = Vec::new();
    for k in 0..nrules {
        rules.push(format!("0:{}:1:A.0.0.eq.i{}:-", *rng.pick(&[0i64, 0, 0, 1, 7, -5]), 100 + k));
    }
    let b = if nrules >= 13 && rng.chance(1, 2) { 2 } else { 1 }; // the long name is R1b
    let c = rng.range(1, 9);
    let (h_short, h_long) = (c, 10 * b + c);                      // R1b + "c" == R1 + "bc"
    let nfacts = h_long + rng.below(3);
    let long_rule = 10 + b;
    let first_long = rng.chance(1, 2);                            // which of the two activations is queued first
    let mut ops = Vec::new();
    let mut noise: Vec<u64> = Vec::new();
    for h in 1..=nfacts {
        let v = if h == h_long { 101 }
            else if h == h_short { if first_long { 100 + long_rule } else { 0 } }
            else if rng.chance(1, 6) { let k = *rng.pick(&[0u64, 2, 3, 5, 9, 10]); noise.push(h); 100 + k }
            else { rng.below(3) };
        ops.push(format!("I0:0=i{}", v));
    }
    if !first_long { ops.push(format!("U{}:0=i{}", h_short, 100 + long_rule)); }
    // the pair queued first becomes stale
    let stale = if first_long { h_short } else { h_long };
    if rng.chance(1, 2) { ops.push(format!("X{}", stale)); } else { ops.push(format!("U{}:0=i{}", stale, rng.below(3))); }
    if rng.chance(1, 4) && !noise.is_empty() { ops.push(format!("X{}", *rng.pick(&noise))); }
    ops.push("F".into());
    if rng.chance(1, 3) { ops.push("Z".into()); ops.push(format!("U{}:0=i{}", if first_long { h_long } else { h_short }, 100 + rng.below(nrules))); ops.push("F".into()); }
    format!("{} {}", rules.join("/"), ops.join(" "))
}

/// family "rules of another fact type are re-activated by the re-propagation after a firing" (seeded change C06-6): quiet
/// no-loop rules over 2..3 fact types, a fact of every type, fire_all, reset — and then only ONE type is touched before the next
/// fire_all.  insert / update propagate to the rules of the touched type only; the rules of the other types have no pending
/// activation after the reset and come back through the global `propagate_changes` that follows the first firing: every rule
/// that has not fired since the reset and is satisfied by a live fact must fire (clause quiescent_fire_all_exact_after_firing).
fn gen_repropagate_case(rng: &mut Rng) -> String {
    let ntypes = rng.range(2, NTYPES);
    let mut prios: Vec<i64> = vec![-5, 0, 1, 7, 20, 3];
    rng.shuffle(&mut prios);
    let nrules = rng.range(ntypes, ntypes + 1) as usize;
    let mut rules = Vec::new();
    for i in 0..nrules {
        let ty = if (i as u64) < ntypes { i as u64 } else { rng.below(ntypes) };
        // mostly satisfied by the facts below (f0 in 15..25)
        let node = match rng.below(5) {
            0 => gen_node(rng, ty, 1, true, ntypes),
            1 => format!("!(A.{}.1.gt.i3)", ty),
            2 => format!("A.{}.0.ge.i{}", ty, *rng.pick(&[15i64, 18])),
            _ => format!("A.{}.0.gt.i{}", ty, *rng.pick(&[3i64, 15])),
        };
        rules.push(format!("{}:{}:1:{}:-", ty, prios[i], node));
    }
    let mut ops = Vec::new();
    for ty in 0..ntypes { ops.push(format!("I{}:0=i{}", ty, *rng.pick(&[18i64, 25, 25, 2]))); }
    ops.push("F".into());
    for _ in 0..rng.range(1, 2) {
        if rng.chance(5, 6) { ops.push("Z".into()); }
        let ty = rng.below(ntypes);
        match rng.below(3) {
            0 => ops.push(format!("I{}:0=i{}", ty, *rng.pick(&[18i64, 25, 2]))),               // a second fact of the type (D0)
            _ => ops.push(format!("U{}:0=i{}{}", ty + 1, *rng.pick(&[18i64, 25, 25, 2]), if rng.chance(1, 3) { ",1=i1" } else { "" })),
        }
        if rng.chance(1, 5) { ops.push(format!("X{}", rng.range(1, ntypes))); }
        ops.push("F".into());
    }
    format!("{} {}", rules.join("/"), ops.join(" "))
}

/// family "an action changes only the TYPE of a field" (seeded change C06-7: a write-back that compares the values before and
/// after the action by their printed form drops such an assignment).  Integer n and Float n.0 print alike (`15`) and are
/// different values for `==` / `!=`.  A writer rule, true of the inserted fact, assigns the other representation of the number
/// the field already holds (Integer → Float or Float → Integer; sometimes together with a second assignment that does change
/// the printed form, or to a field that was absent); one or two reader rules are type-sensitive (`==` / `!=` against either
/// representation, alone, negated, or next to a numeric comparison that cannot tell them apart), with a salience above or
/// below the writer's.  After the writer fired, working memory holds the new representation: the readers that are false of it
/// must not fire, the ones that became true must (re-propagation), and the views show the typed value.  Mostly one live fact
/// per type (D1: compared with the model in full).
fn gen_typealike_case(rng: &mut Rng) -> String {
    let ntypes = if rng.chance(2, 3) { 1 } else { 2 };
    let ty = rng.below(ntypes);
    let n = *rng.pick(&[0i64, 1, 2, 3, 15, 18, 25, -4]);
    let (iv, fv) = (format!("i{}", n), format!("h{}", 2 * n));
    let (from, to) = if rng.chance(1, 2) { (iv, fv) } else { (fv, iv) };
    let fld = rng.below(2);
    let other = 2u64;
    let mut prios: Vec<i64> = vec![-5, 0, 1, 7, 20];
    rng.shuffle(&mut prios);
    let mut rules = Vec::new();
    // the writer
    let wnode = match rng.below(6) {
        0 | 1 => format!("A.{}.{}.eq.{}", ty, fld, from),
        2 => format!("A.{}.{}.ge.i{}", ty, fld, n),                    // numeric: true of both representations
        3 => format!("!(A.{}.{}.eq.{})", ty, fld, to),
        4 => format!("A.{}.{}.ne.s0", ty, fld),
        _ => format!("&(A.{}.{}.le.i{},A.{}.{}.ne.{})", ty, fld, n, ty, fld, to),
    };
    let waction = match rng.below(6) {
        0 => format!("{}={};{}=i{}", fld, to, other, rng.below(3)),   // plus a change that shows in the printed form
        1 => format!("{}=i{};{}={}", other, rng.below(3), fld, to),
        _ => format!("{}={}", fld, to),
    };
    rules.push(format!("{}:{}:{}:{}:{}", ty, prios[0], if rng.chance(7, 8) { 1 } else { 0 }, wnode, waction));
    // the readers
    for i in 0..rng.range(1, 2) as usize {
        let v = if rng.chance(1, 2) { &from } else { &to };
        let rnode = match rng.below(7) {
            0 | 1 => format!("A.{}.{}.eq.{}", ty, fld, v),
            2 => format!("A.{}.{}.ne.{}", ty, fld, v),
            3 => format!("!(A.{}.{}.eq.{})", ty, fld, v),
            4 => format!("&(A.{}.{}.ge.i{},A.{}.{}.eq.{})", ty, fld, n, ty, fld, v),
            5 => format!("+(A.{}.{}.gt.i{},A.{}.{}.eq.{})", ty, fld, n, ty, fld, v),
            _ => format!("&(A.{}.{}.le.h{},!(A.{}.{}.eq.{}))", ty, fld, 2 * n, ty, fld, v),
        };
        let raction = match rng.below(8) {
            0 => "R".to_string(),
            1 => format!("{}=i{}", other, rng.below(3)),
            _ => "-".to_string(),
        };
        // one reader in three is built with AlphaNode::with_typed_value: its Float n.0 literal is carried as "n" = Integer n
        rules.push(format!("{}:{}:{}{}:{}:{}", ty, prios[1 + i], if rng.chance(7, 8) { 1 } else { 0 }, if rng.chance(1, 3) { "v" } else { "" }, rnode, raction));
    }
    let mut ops = Vec::new();
    let data = |rng: &mut Rng, v: &str| {
        let mut d = format!("{}={}", fld, v);
        if rng.chance(1, 3) { d.push_str(&format!(",{}=i{}", other, rng.below(3))); }
        d
    };
    if ntypes == 2 && rng.chance(1, 2) { ops.push(format!("I{}:{}", 1 - ty, gen_data(rng))); }
    let h = ops.len() as u64 + 1;
    ops.push(format!("I{}:{}", ty, data(rng, &from)));
    if rng.chance(1, 6) { ops.push(format!("I{}:{}", ty, data(rng, &from))); }           // a second fact of the type (D0)
    ops.push("F".into());
    for _ in 0..rng.below(3) {
        match rng.below(5) {
            0 => { ops.push("Z".into()); }
            1 => { ops.push(format!("U{}:{}", h, data(rng, &from))); }
            2 => { ops.push("Z".into()); ops.push(format!("U{}:{}", h, data(rng, &from))); }
            3 => { ops.push(format!("U{}:{}", h, data(rng, &to))); }
            _ => {}
        }
        ops.push("F".into());
    }
    format!("{} {}", rules.join("/"), ops.join(" "))
}

/// family "every public way a fact enters" (reach audit): the rule sets of the general family; histories in which `insert` is
/// interleaved with its twins — `E` insert_explicit, `T` insert_with_template (type T1 has a template: f0 Integer required, f1
/// String optional; valid facts, facts that violate it, types without template: an `Err` must leave working memory, the handle
/// counter and the agenda untouched), `D` load_deffacts, `N0` / `N5` load_deffacts_by_name (the registered set stops with `Err` at
/// its invalid fact, the facts before it stay; an unknown name), `W` reset_with_deffacts (a new working memory: numbering restarts,
/// pending activations and fired flags are gone) — and with `S<k>` set_conflict_resolution_strategy (re-sorts the pending
/// activations: none may be lost or duplicated), then update / retract / fire_all / reset as usual.  State survives across calls.
fn gen_entry_case(rng: &mut Rng) -> String {
    let base = gen_case_with(rng, false, false);
    let mut rules = base.split(' ').next().unwrap().to_string();
    // one case in three: quiet no-loop rules that the registered deffacts (and most generated facts) satisfy
    let deff_rules = rng.chance(1, 3);
    if deff_rules {
        let mut prios: Vec<i64> = vec![-5, 0, 1, 7, 20];
        rng.shuffle(&mut prios);
        let pool = ["0:{}:1:A.0.0.gt.i18:-", "1:{}:1:A.1.1.eq.s1:-", "2:{}:1:A.2.1.eq.b1:-", "1:{}:1:!(A.1.0.gt.i3):-", "0:{}:1:+(A.0.0.ge.i25,A.0.1.eq.n):-",
            "2:{}:1:!(A.2.0.lt.i0):-"];
        let mut idx: Vec<usize> = (0..pool.len()).collect();
        rng.shuffle(&mut idx);
        rules = (0..rng.range(2, 4) as usize).map(|i| pool[idx[i]].replace("{}", &prios[i].to_string())).collect::<Vec<_>>().join("/");
    }
    let rule_types: Vec<u64> = rules.split('/').map(|r| r.split(':').next().unwrap().parse().unwrap()).collect();
    let single = rng.chance(1, 3);
    let mut next = 1u64;
    let mut live: Vec<(u64, u64)> = Vec::new();
    let mut ops: Vec<String> = Vec::new();
    let t1_data = |rng: &mut Rng, valid: bool| -> String {
        if valid {
            let mut d = format!("0=i{}", *rng.pick(&[0i64, 1, 3, 15, 18, 25, -4]));
            if rng.chance(1, 3) { d.push_str(&format!(",1=s{}", rng.below(2))); }
            if rng.chance(1, 4) { d.push_str(&format!(",2={}", gen_val(rng))); }
            d
        } else {
            match rng.below(5) {
                0 => "-".to_string(),                                          // required field missing
                1 => format!("1=s{}", rng.below(2)),
                2 => format!("0={}", *rng.pick(&["s0", "h30", "b1", "n", "h3"])), // wrong type (Float 15.0 is not an Integer)
                3 => format!("0=i{},1={}", rng.below(20), *rng.pick(&["i1", "b0", "n", "h2"])), // optional field of the wrong type
                _ => format!("0=n,1=s{}", rng.below(2)),
            }
        }
    };
    let nops = rng.range(3, 12) as usize;
    for opi in 0..nops {
        let k = if opi == 0 { rng.below(4) } else { rng.below(16) };
        let free: Vec<u64> = (0..NTYPES).filter(|t| !live.iter().any(|(_, lt)| lt == t)).collect();
        match k {
            0..=3 if next <= 8 && !(single && free.is_empty()) => {
                let ty = if single { *rng.pick(&free) } else if rng.chance(2, 3) { *rng.pick(&rule_types) } else { rng.below(NTYPES) };
                match rng.below(4) {
                    0 => { ops.push(format!("I{}:{}", ty, gen_data(rng))); live.push((next, ty)); next += 1; }
                    1 => { ops.push(format!("E{}:{}", ty, gen_data(rng))); live.push((next, ty)); next += 1; }
                    _ => {
                        // insert_with_template: on T1 mostly (the templated type), valid 2 in 3
                        let tty = if single { ty } else if rng.chance(4, 5) { 1 } else { ty };
                        if tty == 1 {
                            let valid = rng.chance(2, 3);
                            ops.push(format!("T1:{}", t1_data(rng, valid)));
                            if valid { live.push((next, 1)); next += 1; }
                        } else {
                            ops.push(format!("T{}:{}", tty, gen_data(rng)));         // no template of that name: Err
                        }
                    }
                }
            }
            4 | 5 if !live.is_empty() => {
                let (h, ty) = *rng.pick(&live);
                ops.push(format!("U{}:{}", h, if ty == 1 && rng.chance(1, 2) { t1_data(rng, true) } else { gen_data(rng) }));
            }
            6 if next > 1 => {
                let h = if rng.chance(1, 6) || live.is_empty() { rng.range(1, next) } else { rng.pick(&live).0 };
                live.retain(|(lh, _)| *lh != h);
                ops.push(format!("X{}", h));
            }
            7 | 8 => ops.push(format!("S{}", rng.below(8))),
            9 if !single && next <= 6 => {
                if rng.chance(1, 2) { ops.push("D".into()); live.extend([(next, 0), (next + 1, 1), (next + 2, 2)]); next += 3; }
                else if rng.chance(3, 4) { ops.push("N0".into()); live.extend([(next, 0), (next + 1, 1)]); next += 2; }
                else { ops.push("N5".into()); }
            }
            10 if rng.chance(1, 2) => { ops.push("W".into()); live = vec![(1, 0), (2, 1), (3, 2)]; next = 4; }
            11 => ops.push("Z".into()),
            _ => {
                // the strategy setter with activations pending, right before they are fired
                if rng.chance(1, 3) { ops.push(format!("S{}", rng.below(8))); }
                ops.push("F".into());
            }
        }
    }
    if rng.chance(2, 3) { if rng.chance(1, 3) { ops.push(format!("S{}", rng.below(8))); } ops.push("F".into()); }
    // rules fired, then the engine is re-initialised: pending activations and fired flags of the old working memory must be gone
    if deff_rules && rng.chance(1, 2) || rng.chance(1, 8) {
        if rng.chance(1, 2) { ops.push(format!("U{}:{}", rng.range(1, next.max(2) - 1), gen_data(rng))); }
        ops.push("W".into());
        if rng.chance(1, 4) { ops.push(format!("S{}", rng.below(8))); }
        ops.push("F".into());
    }
    format!("{} {}", rules, ops.join(" "))
}

/// family "string operators and `in`" (typed core: contains / startsWith / endsWith / in): one to three rules whose conditions use
/// them — against word literals over {a, b, c} (`wab` = "ab": prefixes, suffixes and infixes of the stored words, and words that are
/// none of them), against another field, against non-strings (false), `in` against array literals of mixed element types (an
/// integral float element comes back from GRL text as an integer), alone, negated, or next to a comparison; the facts hold words,
/// numbers, booleans, null, or lack the field.  Mostly quiet rule sets (both exactness clauses apply); every rule also goes through
/// GRL text and the real loader; one rule in four is built with `AlphaNode::with_typed_value`.
fn gen_strop_case(rng: &mut Rng) -> String {
    const WORDS: [&str; 10] = ["wa", "wb", "wc", "wab", "wbc", "wca", "wabc", "wcab", "wbb", "wabcab"];
    let ntypes = if rng.chance(2, 3) { 1 } else { 2 };
    // one case in four: `in` over numbers only — Integer n and Float n.0 print alike and are different members
    let numeric = rng.chance(1, 4);
    let sval = |rng: &mut Rng| -> String {
        if numeric { return rng.pick(&["i1", "i2", "h2", "h4", "i2", "h4", "h3", "n"]).to_string(); }
        // numbers that print alike in their two representations (Integer 2 / Float 2.0), for `in` and `==`
        match rng.below(12) {
            0 => "n".to_string(),
            1 | 2 => format!("i{}", *rng.pick(&[1i64, 2, 2, 15])),
            3 => format!("s{}", rng.below(2)),
            4 | 5 => format!("{}", *rng.pick(&["b1", "h4", "h4", "h2", "h3"])),
            _ => rng.pick(&WORDS).to_string(),
        }
    };
    let leaf = |rng: &mut Rng, ty: u64| -> String {
        let f = rng.below(2);
        match if numeric { 9 } else { rng.below(10) } {
            0..=4 => format!("A.{}.{}.{}.{}", ty, f, *rng.pick(&["ct", "sw", "ew"]), *rng.pick(&WORDS)),
            5 => format!("A.{}.{}.{}.{}", ty, f, *rng.pick(&["ct", "sw", "ew", "in"]), *rng.pick(&["i1", "n", "b1", "s0", "s1", "h3"])),
            6 => format!("A.{}.{}.{}.v{}_{}", ty, f, *rng.pick(&["ct", "sw", "ew", "in", "eq"]), ty, 1 - f),
            7 => format!("A.{}.{}.{}.{}", ty, f, *rng.pick(&["eq", "ne", "le", "gt"]), sval(rng)),
            _ => {
                let n = if numeric { rng.range(1, 2) } else { rng.below(5) } as usize;
                let items: Vec<String> = (0..n).map(|_| sval(rng)).collect();
                format!("A.{}.{}.{}.[{}]", ty, f, if rng.chance(5, 6) { "in" } else { *rng.pick(&["eq", "ne", "le", "ct"]) }, items.join("|"))
            }
        }
    };
    let mut prios: Vec<i64> = vec![-5, 0, 1, 7, 20];
    rng.shuffle(&mut prios);
    let quiet = rng.chance(3, 4);
    let nrules = rng.range(1, 3) as usize;
    let mut rules = Vec::new();
    for i in 0..nrules {
        let ty = rng.below(ntypes);
        let node = match rng.below(8) {
            0 => format!("!({})", leaf(rng, ty)),
            1 => format!("&({},{})", leaf(rng, ty), leaf(rng, ty)),
            2 => format!("+({},!({}))", leaf(rng, ty), leaf(rng, ty)),
            _ => leaf(rng, ty),
        };
        let action = if quiet { "-".to_string() } else {
            match rng.below(4) { 0 => "R".to_string(), 1 => format!("{}={}", rng.below(2), sval(rng)), _ => "-".to_string() }
        };
        rules.push(format!("{}:{}:{}{}:{}:{}", ty, prios[i], if quiet || rng.chance(7, 8) { 1 } else { 0 },
            if rng.chance(1, 4) { "v" } else { "" }, node, action));
    }
    let data = |rng: &mut Rng| -> String {
        let mut items = Vec::new();
        for f in 0..2 { if rng.chance(4, 5) { items.push(format!("{}={}", f, sval(rng))); } }
        if items.is_empty() { "-".into() } else { items.join(",") }
    };
    let mut ops = Vec::new();
    let single = rng.chance(2, 3);
    let nfacts = if single { ntypes } else { rng.range(1, 4) };
    for i in 0..nfacts { ops.push(format!("{}{}:{}", if rng.chance(1, 5) { "E" } else { "I" }, if single { i } else { rng.below(ntypes) }, data(rng))); }
    ops.push("F".into());
    for _ in 0..rng.below(4) {
        if rng.chance(2, 3) { ops.push("Z".into()); }
        for h in 1..=nfacts { if rng.chance(2, 3) { ops.push(format!("U{}:{}", h, data(rng))); } }
        if rng.chance(1, 8) { ops.push(format!("X{}", rng.range(1, nfacts))); }
        ops.push("F".into());
    }
    format!("{} {}", rules.join("/"), ops.join(" "))
}

/// family "the strategy setter between fire_all calls" (seeded change C06-10: a `set_strategy` that rebuilds the agenda through
/// `clear()` forgets which no-loop rules have fired).  Quiet no-loop rules that the facts satisfy; facts; fire_all; then one to
/// three rounds of: `S<k>` (a strategy different from the current one, or the same again, or two setters in a row), a touch that
/// re-creates activations of rules that already fired (update with satisfying contents / another insert through any of the entry
/// points), sometimes a retract, and fire_all — WITHOUT reset: no rule may fire a second time (`no_loop_twice`), with a reset in
/// between every satisfied rule fires again (exactness).  Also the setter while activations are pending (none lost, none doubled).
fn gen_strategy_case(rng: &mut Rng) -> String {
    let mut prios: Vec<i64> = vec![-5, 0, 1, 7, 20, 3];
    rng.shuffle(&mut prios);
    let pool = ["0:{}:1:A.0.0.gt.i18:-", "1:{}:1:A.1.1.eq.s1:-", "2:{}:1:A.2.1.eq.b1:-", "1:{}:1:!(A.1.0.gt.i3):-", "0:{}:1:+(A.0.0.ge.i25,A.0.1.eq.n):-",
        "2:{}:1:!(A.2.0.lt.i0):-", "0:{}:1:A.0.0.ne.i3:-"];
    let mut idx: Vec<usize> = (0..pool.len()).collect();
    rng.shuffle(&mut idx);
    let rules: Vec<String> = (0..rng.range(1, 4) as usize).map(|i| pool[idx[i]].replace("{}", &prios[i].to_string())).collect();
    let good = ["0=i25", "0=i1,1=s1", "1=b1"];                 // contents that satisfy the pool rules of T0 / T1 / T2
    let mut ops: Vec<String> = Vec::new();
    let mut types: Vec<u64> = Vec::new();                      // type of handle h = types[h - 1]
    if rng.chance(1, 2) { ops.push("D".into()); types.extend([0, 1, 2]); } else {
        for ty in 0..NTYPES { if rng.chance(4, 5) {
            ops.push(format!("{}{}:{}", *rng.pick(&["I", "E", "I"]), ty, good[ty as usize])); types.push(ty);
        } }
        if types.is_empty() { ops.push("I0:0=i25".into()); types.push(0); }
    }
    let mut cur = 0u64;
    if rng.chance(1, 3) { cur = rng.below(8); ops.push(format!("S{}", cur)); }   // setter with activations pending
    ops.push("F".into());
    for _ in 0..rng.range(1, 3) {
        let reset = rng.chance(1, 3);
        // the reset before the setter, after it, or after the touch (seeded change C06-8: touch, reset, fire_all)
        let mut zdone = !reset;
        if !zdone && rng.chance(1, 3) { ops.push("Z".into()); zdone = true; }
        for _ in 0..rng.range(if reset { 0 } else { 1 }, 2) {
            let k = if rng.chance(1, 5) { cur } else { (cur + rng.range(1, 7)) % 8 };
            ops.push(format!("S{}", k));
            cur = k;
        }
        if !zdone && rng.chance(1, 2) { ops.push("Z".into()); zdone = true; }
        for _ in 0..rng.range(1, 2) {
            if rng.chance(3, 4) {
                let h = rng.range(1, types.len() as u64);
                ops.push(format!("U{}:{}{}", h, good[types[h as usize - 1] as usize], if rng.chance(1, 3) { ",2=i1" } else { "" }));
            } else {
                let ty = rng.below(NTYPES);
                ops.push(format!("{}{}:{}", if ty == 1 { *rng.pick(&["I", "E", "T"]) } else { *rng.pick(&["I", "E"]) }, ty, good[ty as usize]));
                types.push(ty);
            }
        }
        if rng.chance(1, 8) { ops.push(format!("X{}", rng.range(1, types.len() as u64))); }
        if !zdone { ops.push("Z".into()); }
        if rng.chance(1, 4) { ops.push(format!("S{}", cur)); }                    // the same strategy again: returns early or not
        ops.push("F".into());
    }
    format!("{} {}", rules.join("/"), ops.join(" "))
}

/// family "one fact of several touched after a reset" (seeded change C06-13: an `update` that re-propagates only the updated fact).
/// insert / update / retract re-evaluate EVERY live fact of the touched type.  Quiet no-loop rules over T0 (plain and arithmetic
/// conditions), 2..4 facts of T0 of which some satisfy the rules and some do not (sometimes a T1 fact and a T1 rule), fire_all;
/// then rounds of: reset, ONE touch — update of one fact to contents that do NOT satisfy the rules (while another fact still
/// does), or to contents that do, a retract of one fact, or an insert of a non-matching fact — and fire_all: every rule that a
/// live fact of the touched type satisfies must fire again (clause `quiescent_fire_all_exact_by_type`, order-independent: D0).
fn gen_touch_one_case(rng: &mut Rng) -> String {
    let mut prios: Vec<i64> = vec![-5, 0, 1, 7, 20];
    rng.shuffle(&mut prios);
    let pool = ["A.0.0.gt.i18", "A.0.0.ge.i25", "!(A.0.0.lt.i10)", "X.f0_0pf0_1.gt.n40", "X.f0_0rn4.eq.n2", "&(A.0.0.gt.i5,A.0.0.ne.i7)", "+(A.0.0.eq.i25,A.0.1.eq.b1)"];
    let mut idx: Vec<usize> = (0..pool.len()).collect();
    rng.shuffle(&mut idx);
    let two_types = rng.chance(1, 4);
    let mut rules: Vec<String> = (0..rng.range(1, 3) as usize).map(|i| format!("0:{}:1:{}:-", prios[i], pool[idx[i]])).collect();
    if two_types { rules.push(format!("1:{}:1:A.1.0.gt.i3:-", prios[4])); }
    let good = ["0=i25", "0=i25,1=i1", "0=i25,1=b1"];       // satisfies every rule of the pool (25 % 2 = 1, 25 + 1 > 20)
    let bad = ["0=i3", "0=i7,1=i0", "-", "0=s0"];           // satisfies none except through f1
    let n = rng.range(2, 4);
    let mut ops = Vec::new();
    let mut live: Vec<(u64, bool)> = Vec::new();            // (handle, satisfies)
    let mut next = 1u64;
    if two_types { ops.push("I1:0=i5".to_string()); next += 1; }
    for i in 0..n {
        let g = i == 0 || rng.chance(1, 2);
        ops.push(format!("I0:{}", if g { *rng.pick(&good) } else { *rng.pick(&bad) }));
        live.push((next, g)); next += 1;
    }
    ops.push("F".into());
    for _ in 0..rng.range(1, 3) {
        if rng.chance(5, 6) { ops.push("Z".into()); }
        if live.is_empty() { break; }
        let k = rng.below(live.len() as u64) as usize;
        match rng.below(8) {
            // the touched fact stops matching while (mostly) another one still matches
            0 | 1 | 2 | 3 => { ops.push(format!("U{}:{}", live[k].0, *rng.pick(&bad))); live[k].1 = false; }
            4 => { ops.push(format!("U{}:{}", live[k].0, *rng.pick(&good))); live[k].1 = true; }
            5 | 6 => { ops.push(format!("X{}", live[k].0)); live.remove(k); }
            _ => { ops.push(format!("I0:{}", *rng.pick(&bad))); live.push((next, false)); next += 1; }
        }
        if two_types && rng.chance(1, 3) { ops.push("U1:0=i9".into()); }
        ops.push("F".into());
    }
    format!("{} {}", rules.join("/"), ops.join(" "))
}

/// family "arithmetic" (reach audit 2: `T.f = <expr>` right-hand sides — `evaluate_expression_for_rete`, `src/expression.rs` — and
/// arithmetic conditions — `matches_typed` / `evaluate_arithmetic_rete` / `evaluate_arithmetic_expr`): one to three rules of one type
/// (sometimes a second type whose field an expression reads).  Conditions: `T.f0 + T.f1 > 10`, `T.f0 % 2 == 0`, `T.f0 * 2 % 4 == 6`
/// (precedence: F-C06e), `/ 0`, `% 0` (NaN), missing and non-numeric operands, against a literal or a field, alone (the rule's only
/// condition: F-C06d), negated, or next to a plain comparison.  Actions: self-referencing updates `f = f + 1` / `f * 2` / `f / 2`
/// under no-loop AND under re-firing rules (bounded by the rule's own condition, or by `max_iterations` = 1000), a second
/// assignment that reads what the first one of the same firing wrote, a rule that reads what a higher-salience rule of the same
/// `fire_all` wrote, results that change the type of the field (Integer -> Float through `/ 2`, `* 2.5`, `- 0.5`; Float -> Integer),
/// division by zero / by a field that holds 0 / a missing field / a boolean, null or string operand (the expression's TEXT is
/// stored), word concatenation, operands at the i64 bounds and just above 2^53 (saturating cast, rounding to f64).  Field 2 is the
/// divisor field: it only ever holds 0, +-powers of two or a non-number, so every quotient is exact in binary.
fn gen_arith_case(rng: &mut Rng) -> String {
    let ntypes = if rng.chance(3, 4) { 1 } else { 2 };
    let ty = rng.below(ntypes);
    let big = rng.chance(1, 6);           // operands at the i64 bounds
    let odd = rng.chance(1, 5);           // non-numeric operands around
    let num = |rng: &mut Rng| -> String {
        if big && rng.chance(1, 2) {
            return rng.pick(&["i9223372036854775807", "i-9223372036854775808", "i9223372036854775806", "i9007199254740993",
                "i4611686018427387904", "i-4611686018427387905", "i9007199254740992"]).to_string();
        }
        if odd && rng.chance(1, 3) { return rng.pick(&["n", "s0", "wab", "b1", "wc"]).to_string(); }
        match rng.below(8) {
            0 | 1 => format!("h{}", *rng.pick(&[1i64, 5, -7, 30, 11, 4])),
            _ => format!("i{}", *rng.pick(&[0i64, 1, 2, 3, 5, 6, 7, 15, 18, 25, -4, 4, 12])),
        }
    };
    let divisor = |rng: &mut Rng| -> String { rng.pick(&["i0", "i0", "i1", "i2", "i2", "i-4", "h1", "n", "i4"]).to_string() };
    let data = |rng: &mut Rng| -> String {
        let mut items = Vec::new();
        if !rng.chance(1, 12) { items.push(format!("0={}", num(rng))); }
        if rng.chance(3, 4) { items.push(format!("1={}", num(rng))); }
        if rng.chance(2, 3) { items.push(format!("2={}", divisor(rng))); }
        if rng.chance(1, 4) { items.push(format!("3={}", if rng.chance(1, 2) { rng.pick(&["wab", "wc", "wca"]).to_string() } else { num(rng) })); }
        if items.is_empty() { "-".into() } else { items.join(",") }
    };
    let fld = |t: u64, f: u64| format!("f{}_{}", t, f);
    // a literal operand (non-negative: the text of a negative literal is not an operand for either evaluator)
    let lit = |rng: &mut Rng| -> String { format!("n{}", *rng.pick(&[2u64, 4, 4, 6, 8, 1, 5, 10, 20, 3])) };
    let small_expr = |rng: &mut Rng, t: u64, head_field: bool| -> String {
        let a = rng.below(2);
        let head = if head_field || rng.chance(5, 6) { fld(t, a) } else { lit(rng) };
        match rng.below(16) {
            0 | 1 => format!("{}p{}", head, fld(t, 1 - a)),
            2 => format!("{}m{}", head, fld(t, 1 - a)),
            3 => format!("{}r{}", head, *rng.pick(&["n4", "n6", "n4", "n10"])),
            4 => format!("{}t{}r{}", head, *rng.pick(&["n4", "n6", "n8"]), *rng.pick(&["n4", "n8", "n6", "n10"])),   // a * 2 % 4
            5 => format!("{}d{}r{}", head, *rng.pick(&["n2", "n4"]), *rng.pick(&["n4", "n6"])),                       // a / 1 % 2
            6 => format!("{}d{}", head, *rng.pick(&["n4", "n4", "n8", "n2"])),
            7 => format!("{}d{}", head, *rng.pick(&["n0", fld(t, 2).as_str()])),
            8 => format!("{}r{}", head, *rng.pick(&["n0", fld(t, 2).as_str()])),
            9 => format!("{}p{}t{}", head, fld(t, 1 - a), lit(rng)),
            10 => format!("{}t{}m{}", head, lit(rng), fld(t, 1 - a)),
            11 => format!("{}p{}", head, fld(t, 4)),                                                                   // a field no fact has
            12 => format!("{}m{}p{}", head, lit(rng), lit(rng)),
            13 => format!("{}t{}", head, *rng.pick(&["n5", "n4", "n3", "n1"])),
            _ => format!("{}p{}", head, lit(rng)),
        }
    };
    let test_node = |rng: &mut Rng, t: u64| -> String {
        let cmp = *rng.pick(&["gt", "ge", "lt", "le", "eq", "ne", "gt", "eq"]);
        let rhs = match rng.below(6) { 0 => fld(t, rng.below(2)), 1 => fld(t, 4), _ => format!("n{}", *rng.pick(&[0u64, 2, 4, 12, 20, 5, 36, 8])) };
        format!("X.{}.{}.{}", small_expr(rng, t, true), cmp, rhs)
    };
    let mut prios: Vec<i64> = vec![-5, 0, 1, 7, 20];
    rng.shuffle(&mut prios);
    let nrules = rng.range(1, 3) as usize;
    let looping = rng.chance(1, 4);       // a rule without no-loop that rewrites the field its condition reads
    let runaway = looping && rng.chance(1, 6);
    let quiet = !looping && rng.chance(1, 4);
    let mut rules = Vec::new();
    for i in 0..nrules {
        if i == 0 && looping {
            // T.f0 = T.f0 + 1 while T.f0 < k (or without end: max_iterations)
            let cond = if runaway { format!("A.{}.0.ge.i0", ty) } else if rng.chance(1, 2) { format!("A.{}.0.lt.i{}", ty, rng.range(3, 9)) }
                else { format!("X.{}p{}.lt.n{}", fld(ty, 0), *rng.pick(&["n2", "n0", "n4"]), 2 * rng.range(4, 12)) };
            let act = match rng.below(4) { 0 => format!("0@{}pn1", fld(ty, 0)), 1 => format!("0@{}pn2;1@{}tn4", fld(ty, 0), fld(ty, 0)), _ => format!("0@{}pn2", fld(ty, 0)) };
            rules.push(format!("{}:{}:0:{}:{}", ty, prios[i], cond, act));
            continue;
        }
        let node = match rng.below(8) {
            0 | 1 | 2 | 3 => test_node(rng, ty),
            4 => format!("!({})", test_node(rng, ty)),
            5 => format!("&(A.{}.0.ne.s0,{})", ty, test_node(rng, ty)),
            6 => format!("+({},A.{}.1.eq.b1)", test_node(rng, ty), ty),
            _ => gen_alpha(rng, ty),
        };
        let target = *rng.pick(&[0u64, 1, 1, 3, 3]);
        let action = if quiet { "-".to_string() } else {
            match rng.below(12) {
                0 => "-".to_string(),
                1 => "R".to_string(),
                2 | 3 => format!("{}@{}", rng.below(2), format!("{}{}", fld(ty, rng.below(2)), *rng.pick(&["pn2", "tn4", "dn4", "tn5", "mn1", "mn2", "tn4pn2"]))),
                4 => format!("{}@{};{}@{}", 1, small_expr(rng, ty, false), 3, format!("{}t{}", fld(ty, 1), *rng.pick(&["n4", "n1", "n5"]))),   // reads its own write
                5 => format!("{}={};{}@{}", 1, num(rng), 3, format!("{}p{}", fld(ty, 1), fld(ty, 0))),                                        // literal, then an expression over it
                6 => format!("3@{}p{}", fld(ty, 3), *rng.pick(&["wab", "wc", "n2"])),                                                          // concatenation
                7 => format!("{}@{}", target, fld(ty, rng.below(3))),                                                                         // a plain field reference
                8 if ntypes == 2 => format!("{}@{}pn2", target, fld(1 - ty, 0)),                                                             // reads a field of the other type
                9 => format!("{}@{};R", target, small_expr(rng, ty, false)),
                _ => format!("{}@{}", target, small_expr(rng, ty, false)),
            }
        };
        rules.push(format!("{}:{}:{}{}:{}:{}", ty, prios[i], if quiet || rng.chance(5, 6) { 1 } else { 0 }, if rng.chance(1, 10) { "v" } else { "" }, node, action));
    }
    let mut ops = Vec::new();
    let mut nfacts = 0u64;
    if ntypes == 2 { ops.push(format!("I{}:{}", 1 - ty, data(rng))); nfacts += 1; }
    let h = nfacts + 1;
    let first = if runaway { "0=i0".to_string() } else if looping { format!("0=i{}", rng.below(4)) } else { data(rng) };
    ops.push(format!("I{}:{}", ty, first)); nfacts += 1;
    if !runaway && rng.chance(1, 6) { ops.push(format!("I{}:{}", ty, data(rng))); nfacts += 1; }              // D0
    ops.push("F".into());
    for _ in 0..(if runaway { 0 } else { rng.below(4) }) {
        if rng.chance(1, 2) { ops.push("Z".into()); }
        match rng.below(6) {
            0 => ops.push(format!("X{}", rng.range(1, nfacts))),
            1 => {}
            _ => ops.push(format!("U{}:{}", if rng.chance(5, 6) { h } else { rng.range(1, nfacts) }, if looping { format!("0=i{}", rng.below(3)) } else { data(rng) })),
        }
        ops.push("F".into());
    }
    format!("{} {}", rules.join("/"), ops.join(" "))
}

/// family "blanks and look-alikes" (seeded change C06-15: a `parse_value_string` that trims stand-alone literals): condition literals
/// and fact values from the table `QS` — strings with leading / trailing / only blanks, the empty string, texts that read as a number,
/// a boolean or null, with and without blanks around them.  `AlphaNode::parse_value_string` classifies the literal TEXT without
/// trimming: `T.f == "7 "` is a comparison with the STRING "7 " (true of the fact that holds "7 ", false of Integer 7), `T.f == "7"`
/// one with Integer 7 (false of the fact that holds the string "7"); `contains " "` is true of "a b" and false of "ab"; the
/// empty pattern is contained in every string.  Every string operator and every comparison (a numeric-looking string fact value
/// has a float value: `"15" > 7`), alone, negated, in conjunctions / disjunctions, against literals, fields and words; facts hold
/// table strings, words, and the numbers / booleans / null the look-alikes read as.  Mostly quiet no-loop rule sets (both
/// exactness clauses apply); every rule also goes through GRL text and the real loader; one rule in four uses `with_typed_value`.
fn gen_blank_case(rng: &mut Rng) -> String {
    let nq = QS.len() as u64;
    let ntypes = if rng.chance(2, 3) { 1 } else { 2 };
    let q = |rng: &mut Rng| format!("q{}", rng.below(nq));
    let fval = |rng: &mut Rng| -> String {
        match rng.below(10) {
            0..=5 => format!("q{}", rng.below(nq)),
            6 => rng.pick(&["wa", "wab", "wb", "s0"]).to_string(),
            7 => rng.pick(&["i7", "i15", "i-4", "i0"]).to_string(),
            8 => rng.pick(&["h3", "h14", "b1", "b0"]).to_string(),
            _ => "n".to_string(),
        }
    };
    let leaf = |rng: &mut Rng, ty: u64| -> String {
        let f = rng.below(2);
        match rng.below(10) {
            0..=3 => format!("A.{}.{}.{}.{}", ty, f, *rng.pick(&["ct", "sw", "ew"]), q(rng)),
            4 | 5 | 6 => format!("A.{}.{}.{}.{}", ty, f, *rng.pick(&["eq", "eq", "ne"]), q(rng)),
            7 => format!("A.{}.{}.{}.{}", ty, f, *rng.pick(&["lt", "le", "gt", "ge"]), if rng.chance(2, 3) { q(rng) } else { fval(rng) }),
            8 => format!("A.{}.{}.{}.v{}_{}", ty, f, *rng.pick(&["ct", "sw", "ew", "eq", "ne", "le", "gt"]), ty, 1 - f),
            _ => format!("A.{}.{}.{}.{}", ty, f, *rng.pick(&["ct", "sw", "ew", "eq", "ne", "ge"]), fval(rng)),
        }
    };
    let mut prios: Vec<i64> = vec![-5, 0, 1, 7, 20];
    rng.shuffle(&mut prios);
    let quiet = rng.chance(3, 4);
    let nrules = rng.range(1, 3) as usize;
    let mut rules = Vec::new();
    for i in 0..nrules {
        let ty = rng.below(ntypes);
        let node = match rng.below(8) {
            0 => format!("!({})", leaf(rng, ty)),
            1 => format!("&({},{})", leaf(rng, ty), leaf(rng, ty)),
            2 => format!("+({},!({}))", leaf(rng, ty), leaf(rng, ty)),
            _ => leaf(rng, ty),
        };
        let action = if quiet { "-".to_string() } else {
            match rng.below(4) { 0 => "R".to_string(), 1 => format!("{}={}", rng.below(2), fval(rng)), _ => "-".to_string() }
        };
        rules.push(format!("{}:{}:{}{}:{}:{}", ty, prios[i], if quiet || rng.chance(7, 8) { 1 } else { 0 },
            if rng.chance(1, 4) { "v" } else { "" }, node, action));
    }
    let data = |rng: &mut Rng| -> String {
        let mut items = Vec::new();
        for f in 0..2 { if rng.chance(5, 6) { items.push(format!("{}={}", f, fval(rng))); } }
        if items.is_empty() { "-".into() } else { items.join(",") }
    };
    let mut ops = Vec::new();
    let single = rng.chance(2, 3);
    let nfacts = if single { ntypes } else { rng.range(1, 4) };
    for i in 0..nfacts { ops.push(format!("{}{}:{}", if rng.chance(1, 5) { "E" } else { "I" }, if single { i } else { rng.below(ntypes) }, data(rng))); }
    ops.push("F".into());
    for _ in 0..rng.below(4) {
        if rng.chance(2, 3) { ops.push("Z".into()); }
        for h in 1..=nfacts { if rng.chance(2, 3) { ops.push(format!("U{}:{}", h, data(rng))); } }
        if rng.chance(1, 8) { ops.push(format!("X{}", rng.range(1, nfacts))); }
        ops.push("F".into());
    }
    format!("{} {}", rules.join("/"), ops.join(" "))
}

fn gen(rng: &mut Rng, n: usize, _tier: &str) -> Vec<String> {
    let mut out: Vec<String> = (0..n).map(|i| match i % 50 {
        8 | 18 | 28 | 38 | 48 | 10 | 20 | 30 | 40 | 0 => gen_arith_case(rng),
        34 | 49 | 33 => gen_touch_one_case(rng),
        1 | 11 | 21 | 31 | 41 | 6 | 26 | 46 => gen_entry_case(rng),
        4 | 24 | 44 | 14 => gen_strategy_case(rng),
        2 | 12 | 22 | 32 | 42 | 16 | 36 => gen_strop_case(rng),
        9 | 19 | 29 | 39 => gen_typealike_case(rng),
        27 | 47 => gen_repropagate_case(rng),
        7 => gen_stale_case(rng),
        17 | 37 => gen_collide_case(rng),
        3 | 13 | 23 | 33 | 43 => gen_case_with(rng, true, false),
        5 | 15 | 25 | 35 | 45 => gen_case_with(rng, false, true),
        _ => gen_case(rng),
    }).collect();
    // appended (the stream of the families above stays what it was): blanks and look-alikes
    for _ in 0..n / 6 { out.push(gen_blank_case(rng)); }
    out
}

fn shrink(case: &str) -> Vec<String> {
    let t: Vec<&str> = case.split_whitespace().collect();
    if t.is_empty() { return vec![]; }
    let mut out: Vec<String> = shrink_list(&t[1..]).into_iter().map(|v| format!("{} {}", t[0], v.join(" "))).collect();
    let rules: Vec<&str> = t[0].split('/').collect();
    if rules.len() > 1 {
        for v in shrink_list(&rules) {
            if !v.is_empty() { out.push(format!("{} {}", v.join("/"), t[1..].join(" "))); }
        }
    }
    out
}

fn main() {
    if std::env::args().nth(1).as_deref() == Some("exec") { exec_main(); } else { main_with(Prop { gen, exec, shrink }); }
}
