#!/usr/bin/env python3
"""Single entry point of the verification machinery (see DESIGN.md §2).

    ./check.py Cxx [--tier quick|thorough] [--replay FILE]

For property Cxx it (1) rebuilds the Rust harness against the *current working tree* of the
repository with the hook cfg on, (2) rebuilds the Lean model, theorems and driver (the kernel
re-checks whatever is stale), (3) audits the proofs (forbidden tokens, `#print axioms`),
(4) runs corpus + generated cases through the real implementation and through the model's
executable definitions and diffs the observations, (5) evaluates the Spec oracle on the
implementation's observations, (6) on any break searches for / shrinks a concrete failing input,
(7) writes evidence/Cxx.json and prints KNOWN-FINDING / VIOLATION lines.

Exit 0: property held on everything explored.  Exit 1: `VIOLATION property=<id> replay=<path>`.
"""
import fcntl
import importlib.util
import json
import os
import re
import shutil
import subprocess
import sys
import time

ROOT = os.path.dirname(os.path.abspath(__file__))
REPO = os.environ.get("RRE_REPO", "/repo")
LEAN = os.path.join(ROOT, "lean")
HARNESS = os.path.join(ROOT, "harness")
ALLOWED_AXIOMS = {"propext", "Classical.choice", "Quot.sound"}
FORBIDDEN = re.compile(r"\bsorry\b|\badmit\b|^\s*axiom\s|native_decide|bv_decide|implemented_by|\bunsafe\s|maxHeartbeats\s+0|\bpartial\s+def\b|@\[extern")
# `partial def` / `@[extern` are allowed only in driver glue (Proto/Driver), never in model or proof files
FORBIDDEN_DRIVER = re.compile(r"\bsorry\b|\badmit\b|^\s*axiom\s|native_decide|bv_decide|implemented_by|\bunsafe\s")


def log(*a):
    print(*a, file=sys.stderr, flush=True)


def run(cmd, cwd=None, inp=None, timeout=None, env=None):
    e = dict(os.environ)
    e["CARGO_NET_OFFLINE"] = "true"
    if env:
        e.update(env)
    p = subprocess.run(cmd, cwd=cwd, input=inp, capture_output=True, text=True, timeout=timeout, env=e)
    return p.returncode, p.stdout, p.stderr


def load_prop(pid):
    path = os.path.join(ROOT, "props", pid.lower() + ".py")
    spec = importlib.util.spec_from_file_location("prop_" + pid.lower(), path)
    m = importlib.util.module_from_spec(spec)
    spec.loader.exec_module(m)
    return m


def strip_lean_comments(src):
    # remove /- ... -/ (nested) and -- line comments; string literals are left alone (a forbidden
    # token inside a string literal is flagged, which is the safe direction)
    out, i, depth = [], 0, 0
    while i < len(src):
        if src.startswith("/-", i):
            depth += 1
            i += 2
        elif depth and src.startswith("-/", i):
            depth -= 1
            i += 2
        elif depth:
            if src[i] == "\n":
                out.append("\n")
            i += 1
        elif src.startswith("--", i):
            while i < len(src) and src[i] != "\n":
                i += 1
        else:
            out.append(src[i])
            i += 1
    return "".join(out)


class Ctx:
    def __init__(self, pid, tier, seed):
        self.pid, self.tier, self.seed = pid, tier, seed
        self.prop = load_prop(pid)
        self.low = pid.lower()
        self.work = os.path.join(ROOT, "work", pid)
        os.makedirs(self.work, exist_ok=True)
        self.bin = os.path.join(HARNESS, "target", "debug", self.low)
        self.drv = os.path.join(LEAN, ".lake", "build", "bin", "drv_" + self.low)
        self.broken = []      # (what, detail) — proof obligations / tie that no longer check
        self.notes = []

    # ---------------------------------------------------------------- builds
    def build_harness(self):
        t = time.time()
        tpl = open(os.path.join(HARNESS, "Cargo.toml.in")).read().replace("@REPO@", REPO)
        cur = os.path.join(HARNESS, "Cargo.toml")
        if not os.path.exists(cur) or open(cur).read() != tpl:
            open(cur, "w").write(tpl)
        lock_src = os.path.join(REPO, "Cargo.lock")
        lock_dst = os.path.join(HARNESS, "Cargo.lock")
        if not os.path.exists(lock_dst):
            shutil.copy(lock_src, lock_dst)
        bins = [self.low] + list(getattr(self.prop, "EXTRA_BINS", []))
        cmd = ["cargo", "build", "--offline"]
        for b in bins:
            cmd += ["--bin", b]
        rc, out, err = run(cmd, cwd=HARNESS)
        if rc != 0 and "Cargo.lock" in err:
            shutil.copy(lock_src, lock_dst)
            rc, out, err = run(cmd, cwd=HARNESS)
        log(f"[{self.pid}] harness build rc={rc} {time.time()-t:.1f}s")
        if rc != 0:
            self.broken.append(("harness-build", "the correspondence harness no longer builds against the "
                                "repository's public API:\n" + err[-4000:]))
        return rc == 0

    def build_lean(self):
        """-> (driver_ok, theorems_ok). The driver (model + spec, no theorem files) is built first: when a proof
        obligation breaks, the executable model and oracle are still available to search for a failing input."""
        t = time.time()
        gen = getattr(self.prop, "pre_lean", None)
        if gen:
            gen(self)
        thm_targets = list(getattr(self.prop, "LEAN_TARGETS", [f"RreModel.{self.pid}.Theorems"]))
        with open(os.path.join(LEAN, ".lake.lock"), "w") as lk:   # one lake build at a time in this tree
            fcntl.flock(lk, fcntl.LOCK_EX)
            rc0, out0, err0 = run(["lake", "build", "drv_" + self.low], cwd=LEAN)
            rc, out, err = run(["lake", "build"] + thm_targets, cwd=LEAN)
        log(f"[{self.pid}] lake build driver rc={rc0} theorems rc={rc} {time.time()-t:.1f}s")
        if rc0 != 0:
            msg = "\n".join(l for l in (out0 + err0).splitlines() if "error" in l)[:4000]
            self.broken.append(("lean-driver-build", "lake build of the model driver failed:\n" + msg))
        if rc != 0:
            msg = "\n".join(l for l in (out + err).splitlines() if "error" in l or "sorry" in l)[:4000]
            self.broken.append(("lean-build", "lake build failed (a proof obligation no longer checks):\n" + msg))
        return rc0 == 0, rc == 0

    def audit(self):
        """returns (obligations, discharged, per-theorem axioms)"""
        t = time.time()
        files = []
        for d, _, fs in os.walk(os.path.join(LEAN, "RreModel", self.pid)):
            files += [os.path.join(d, f) for f in fs if f.endswith(".lean")]
        for extra in getattr(self.prop, "LEAN_FILES", []):
            files.append(os.path.join(LEAN, extra))
        bad = []
        for f in files:
            src = strip_lean_comments(open(f).read())
            for n, line in enumerate(src.splitlines(), 1):
                if FORBIDDEN.search(line):
                    bad.append(f"{os.path.relpath(f, LEAN)}:{n}: {line.strip()}")
        for f in [os.path.join(LEAN, "RreModel", "Proto.lean"), os.path.join(LEAN, "Driver", self.pid + ".lean")]:
            if os.path.exists(f):
                src = strip_lean_comments(open(f).read())
                for n, line in enumerate(src.splitlines(), 1):
                    if FORBIDDEN_DRIVER.search(line):
                        bad.append(f"{os.path.relpath(f, LEAN)}:{n}: {line.strip()}")
        thms = list(self.prop.THEOREMS)
        imports = getattr(self.prop, "LEAN_TARGETS", [f"RreModel.{self.pid}.Theorems"])
        os.makedirs(os.path.join(LEAN, "Audit"), exist_ok=True)
        apath = os.path.join(LEAN, "Audit", self.pid + ".lean")
        body = "".join(f"import {m}\n" for m in imports) + "".join(f"#print axioms {n}\n" for n in thms)
        open(apath, "w").write("-- generated by check.py from props/%s.py: axiom audit of every property theorem\n%s" % (self.low, body))
        rc, out, err = run(["lake", "env", "lean", apath], cwd=LEAN)
        text = out + err
        result = {}
        for n in thms:
            m = re.search(r"'" + re.escape(n) + r"' depends on axioms: \[([^\]]*)\]", text, re.S)
            if m:
                ax = [a.strip() for a in m.group(1).replace("\n", " ").split(",") if a.strip()]
                result[n] = ax
            elif re.search(r"'" + re.escape(n) + r"' does not depend on any axioms", text):
                result[n] = []
            else:
                result[n] = None
        discharged = 0
        for n, ax in result.items():
            if ax is None:
                bad.append(f"theorem {n}: not found / does not check")
            elif not set(ax) <= ALLOWED_AXIOMS:
                bad.append(f"theorem {n}: depends on axioms {ax}")
            else:
                discharged += 1
        if self.tier == "thorough":
            mods = list(imports)
            rc2, o2, e2 = run(["lake", "env", "leanchecker"] + mods, cwd=LEAN)
            self.notes.append(f"leanchecker {' '.join(mods)} rc={rc2}")
            if rc2 != 0:
                bad.append("leanchecker: " + (o2 + e2)[-1000:])
        log(f"[{self.pid}] audit: {discharged}/{len(thms)} theorems, {len(bad)} problems, {time.time()-t:.1f}s")
        if bad:
            self.broken.append(("audit", "\n".join(bad)))
        return len(thms), discharged, result

    # ---------------------------------------------------------------- running cases
    def gen_cases(self):
        cases = []
        cdir = os.path.join(ROOT, "corpus", self.pid)
        ncorpus = 0
        if os.path.isdir(cdir):
            for f in sorted(os.listdir(cdir)):
                if f.endswith(".case"):
                    for l in open(os.path.join(cdir, f)):
                        l = l.rstrip("\n")
                        if l and not l.startswith("#"):
                            cases.append(l)
                            ncorpus += 1
        n = self.prop.N[self.tier]
        rc, out, err = run([self.bin, "gen", str(self.seed), str(n), self.tier])
        if rc != 0:
            raise RuntimeError("gen failed: " + err[-2000:])
        cases += [l for l in out.split("\n") if l]
        self.ncorpus = ncorpus
        return cases

    def exec_impl(self, cases, timeout=None):
        """one harness process for the whole batch, watched line by line (see exec_bisect)"""
        return self.exec_bisect(cases)

    def _run_part(self, part, case_to):
        """run the harness on `part`, reading its output as it comes: the harness prints (and flushes) one line per
        case, so `case_to` seconds without a new line mean the current case hangs.
        -> (complete lines printed, finished_ok, hung)"""
        import select
        import threading
        p = subprocess.Popen([self.bin, "exec"], stdin=subprocess.PIPE, stdout=subprocess.PIPE, stderr=subprocess.DEVNULL,
                             env=dict(os.environ, CARGO_NET_OFFLINE="true"))

        def feed():
            try:
                p.stdin.write(("\n".join(part) + "\n").encode())
                p.stdin.close()
            except Exception:
                pass
        threading.Thread(target=feed, daemon=True).start()
        chunks = []          # joined once at the end: `buf += chunk` copies the whole buffer on every read (quadratic)
        hung = False
        fd = p.stdout.fileno()
        last = time.time()
        while True:
            r, _, _ = select.select([fd], [], [], 1.0)
            if r:
                chunk = os.read(fd, 1 << 16)
                if not chunk:
                    break
                if b"\n" in chunk:
                    last = time.time()
                chunks.append(chunk)
            elif time.time() - last > case_to:
                hung = True
                p.kill()
                break
        p.wait()
        lines = b"".join(chunks).decode(errors="replace").split("\n")
        complete = lines[:-1] if lines else []
        return complete, (not hung and p.returncode == 0 and len(complete) == len(part)), hung

    def exec_bisect(self, cases):
        """A harness process died or hung. The harness flushes one line per case, so the number of complete lines
        printed names the killing case; that case is re-run alone to confirm (observation `hang` / `crash:rc=..`),
        otherwise the chunk is halved. After a few confirmed killers the rest is not run (each costs a timeout)."""
        case_to = getattr(self.prop, "CASE_TIMEOUT", 20)
        max_killers = getattr(self.prop, "MAX_KILLERS", 4)
        res = [None] * len(cases)
        todo = [(0, cases)]
        killers = 0
        while todo:
            off, part = todo.pop(0)
            if killers >= max_killers:
                for i in range(len(part)):
                    res[off + i] = "skipped-after-%d-killers" % killers
                continue
            lines, ok, hung = self._run_part(part, case_to)
            if ok:
                res[off:off + len(part)] = lines
                continue
            k = min(len(lines), len(part) - 1)
            if len(part) == 1:
                res[off] = "hang" if hung else "crash"
                killers += 1
                continue
            # confirm the suspected killer alone
            l1, ok1, hung1 = self._run_part([part[k]], case_to)
            if not ok1:
                res[off:off + k] = lines[:k]
                res[off + k] = "hang" if hung1 else "crash"
                killers += 1
                if k + 1 < len(part):
                    todo.insert(0, (off + k + 1, part[k + 1:]))
            else:
                h = len(part) // 2           # output was not reliable for this chunk: plain bisection
                todo = [(off, part[:h]), (off + h, part[h:])] + todo
        return res

    def run_model(self, cases):
        rc, out, err = run([self.drv, "model"], inp="\n".join(cases) + "\n", timeout=3600)
        lines = out.split("\n")
        if lines and lines[-1] == "":
            lines.pop()
        if rc != 0 or len(lines) != len(cases):
            raise RuntimeError(f"model driver failed rc={rc} lines={len(lines)}/{len(cases)}: {err[-2000:]}")
        return lines

    def run_oracle(self, cases, obs):
        inp = "\n".join(c + " | " + o for c, o in zip(cases, obs)) + "\n"
        rc, out, err = run([self.drv, "oracle"], inp=inp, timeout=3600)
        lines = out.split("\n")
        if lines and lines[-1] == "":
            lines.pop()
        if rc != 0 or len(lines) != len(cases):
            raise RuntimeError(f"oracle driver failed rc={rc} lines={len(lines)}/{len(cases)}: {err[-2000:]}")
        return lines

    def evaluate(self, cases, timeout=None):
        """-> list of dicts {case, impl, model, oracle, kind} ; kind in ok|oracle|diff"""
        impl = self.exec_impl(cases, timeout)
        model = self.run_model(cases)
        oracle = self.run_oracle(cases, impl)
        cmp_fn = getattr(self.prop, "agree", None)
        res = []
        for c, i, m, o in zip(cases, impl, model, oracle):
            if i.startswith("skipped-after-"):
                kind = "skipped"      # not run: the harness had already been killed by several other cases of this batch
            elif not o.startswith("ok"):
                kind = "oracle"
            elif (cmp_fn(c, i, m) if cmp_fn else i == m):
                kind = "ok"
            else:
                kind = "diff"
            res.append({"case": c, "impl": i, "model": m, "oracle": o, "kind": kind})
        return res

    def shrink(self, r, budget=400):
        """greedy delta debugging with the harness' candidate generator; keeps the failure kind"""
        cur = r
        steps = 0
        if r["impl"] in ("hang", "crash"):
            budget = 16            # every candidate that still hangs costs a full case timeout
        while steps < budget:
            rc, out, err = run([self.bin, "shrink"], inp=cur["case"] + "\n")
            cands = [l for l in out.split("\n") if l and l != cur["case"]]
            if not cands:
                break
            cands = cands[:64]
            steps += len(cands)
            try:   # candidates of a hanging case may hang too: short batch timeout, then per-case isolation
                rs = self.evaluate(cands, timeout=getattr(self.prop, "CASE_TIMEOUT", 20) + 2)
            except Exception:
                break
            nxt = None
            for x in rs:
                if x["kind"] == cur["kind"] and len(x["case"]) <= len(cur["case"]):
                    if self.signature(x) == self.signature(cur):
                        nxt = x
                        break
            if nxt is None:
                break
            cur = nxt
        return cur

    def signature(self, r):
        f = getattr(self.prop, "classify", None)
        if f:
            return f(r["case"], r["impl"], r["model"], r["oracle"], r["kind"])
        if r["kind"] == "oracle":
            return "oracle:" + re.sub(r"@\d+", "", r["oracle"])
        return "diff"


def known_findings():
    p = os.path.join(ROOT, "known_findings.json")
    if not os.path.exists(p):
        return []
    return json.load(open(p)).get("findings", [])


def main():
    args = sys.argv[1:]
    if not args:
        print(__doc__)
        sys.exit(2)
    pid = args[0].upper()
    tier = os.environ.get("VERIF_TIER", "quick")
    replay = None
    i = 1
    while i < len(args):
        if args[i] == "--tier":
            tier = args[i + 1]
            i += 2
        elif args[i] == "--replay":
            replay = args[i + 1]
            i += 2
        else:
            i += 1
    seed = int(os.environ.get("VERIF_SEED", "20260925"))
    t0 = time.time()
    ctx = Ctx(pid, tier, seed)
    prop = ctx.prop

    ok_h = ctx.build_harness()
    ok_l, ok_thm = ctx.build_lean()
    obligations, discharged, axioms = (len(prop.THEOREMS), 0, {})
    if ok_thm:
        obligations, discharged, axioms = ctx.audit()

    if replay:
        data = json.load(open(replay))
        cases = [c["case"] for c in data.get("cases", [])]
        rs = ctx.evaluate(cases) if cases and ok_h and ok_l else []
        bad = [r for r in rs if r["kind"] != "ok"]
        for r in rs:
            print(json.dumps(r))
        print("replay: %d case(s), %d still failing" % (len(rs), len(bad)))
        sys.exit(1 if bad or ctx.broken else 0)

    results, cases = [], []
    extra_fail, extra_cov = [], {}
    if ok_h and ok_l:
        cases = ctx.gen_cases()
        t1 = time.time()
        results = ctx.evaluate(cases)
        log(f"[{pid}] {len(cases)} cases evaluated in {time.time()-t1:.1f}s")
        ex = getattr(prop, "extra", None)
        if ex:
            extra_fail, extra_cov = ex(ctx)

    fails = [r for r in results if r["kind"] not in ("ok", "skipped")]
    # --- group failures by signature, shrink one representative per signature
    groups = {}
    for r in fails:
        groups.setdefault(ctx.signature(r), []).append(r)
    reps = []
    for sig, rs in list(groups.items())[:12]:
        rs.sort(key=lambda r: len(r["case"]))
        rep = ctx.shrink(rs[0])
        reps.append((ctx.signature(rep), rep, len(rs)))
    for f in extra_fail:   # already (signature, record, count)
        reps.append(f)

    # correspondence broke but no oracle failure among the disagreeing cases: search wider
    only_diff = reps and all(r["kind"] == "diff" for _, r, _ in reps)
    searched = 0
    if only_diff and ok_h and ok_l and tier == "quick":
        rc, out, err = run([ctx.bin, "gen", str(seed + 1), str(prop.N["thorough"]), "thorough"])
        more = [l for l in out.split("\n") if l]
        searched = len(more)
        rs2 = [r for r in ctx.evaluate(more) if r["kind"] == "oracle"]
        if rs2:
            rs2.sort(key=lambda r: len(r["case"]))
            rep = ctx.shrink(rs2[0])
            reps.insert(0, (ctx.signature(rep), rep, len(rs2)))

    known = [k for k in known_findings() if k.get("property") == pid and k.get("status") == "open"]
    known_sigs = {k["signature"]: k for k in known}
    new, seen_known = [], []
    for sig, rep, cnt in reps:
        if rep["kind"] == "oracle" and sig in known_sigs:
            seen_known.append((known_sigs[sig], rep, cnt))
        else:
            new.append((sig, rep, cnt))
    # listed findings are announced on every run on which they reproduce
    for k, rep, cnt in seen_known:
        print(f"KNOWN-FINDING: property={pid} {k['what']} [signature {k['signature']}; {cnt} case(s) this run; e.g. {rep['case'][:200]}]")

    new.sort(key=lambda x: 0 if x[1]["kind"] == "oracle" else 1)   # concrete failing inputs first
    violation = bool(new) or bool(ctx.broken)
    replay_path = None
    if violation:
        os.makedirs(os.path.join(ROOT, "replays"), exist_ok=True)
        replay_path = os.path.join(ROOT, "replays", f"{pid}-{seed}-{tier}.json")
        have_input = any(rep["kind"] == "oracle" for _, rep, _ in new)
        doc = {
            "property": pid, "seed": seed, "tier": tier,
            "replay_cmd": f"./check.py {pid} --replay {replay_path}",
            "failing_input_found": have_input,
            "cases": [dict(rep, signature=sig, occurrences=cnt,
                           what=("Spec oracle false on the implementation's own observations" if rep["kind"] == "oracle"
                                 else "implementation and model disagree (correspondence no longer checks); oracle true on this case"))
                      for sig, rep, cnt in new],
            "broken_obligations": [{"what": w, "detail": d} for w, d in ctx.broken],
            "searched_additional_cases": searched,
        }
        if not have_input:
            doc["no_failing_input_found"] = ("no input on which the property itself fails was found; what no longer checks: " +
                                            "; ".join([w for w, _ in ctx.broken] + [f"correspondence {pid} (first disagreeing case listed)" for _ in new[:1]]))
        json.dump(doc, open(replay_path, "w"), indent=1)
        print(f"VIOLATION property={pid} replay={replay_path}" + ("" if have_input else " no-failing-input-found"))

    # --- evidence
    tags = {}
    nontrivial = set()
    agree = 0
    for r in results:
        if r["kind"] == "ok":
            agree += 1
        for t in r["oracle"].split()[1:]:
            tags[t] = tags.get(t, 0) + 1
            if t == "nontrivial":
                nontrivial.add(r["case"])
    samples = [{"case": r["case"], "impl_obs": r["impl"][:400], "oracle": r["oracle"]} for r in results[-3:]]
    if results:
        samples.insert(0, {"case": results[0]["case"], "impl_obs": results[0]["impl"][:400], "oracle": results[0]["oracle"]})
    samples += [{"theorem": n, "axioms": ax} for n, ax in list(axioms.items())[:3]]
    cov = {
        "obligations": obligations, "discharged": discharged,
        "checker_cmd": f"cd lean && lake build {' '.join(getattr(prop, 'LEAN_TARGETS', ['RreModel.%s.Theorems' % pid]))} && lake env lean Audit/{pid}.lean   # #print axioms of every property theorem" +
                       (" && lake env leanchecker <modules>" if tier == "thorough" else ""),
        "trusted_base": list(prop.TRUSTED),
        "theorems": axioms,
        "evaluations": len(results), "distinct_nontrivial": len(nontrivial),
        "rule": prop.RULE,
        "samples": samples or [{"note": "no cases were run: build failed"}],
        "traces_validated_against_impl": agree,
        "corpus_cases": getattr(ctx, "ncorpus", 0),
        "oracle_failures": sum(1 for r in results if r["kind"] == "oracle"),
        "model_disagreements": sum(1 for r in results if r["kind"] == "diff"),
        "known_findings_reproduced": [k["id"] for k, _, _ in seen_known],
        "distribution": dict(sorted(tags.items())),
        "exhaustive": bool(getattr(prop, "EXHAUSTIVE", {}).get(tier, False)),
        "notes": ctx.notes,
    }
    cov.update(extra_cov)
    ev = {
        "property_id": pid, "tier": tier, "seed": seed, "level": getattr(prop, "LEVEL", "proof"),
        "coverage": cov, "assumptions": list(prop.ASSUMPTIONS),
        "wall_s": round(time.time() - t0, 2), "violations": len(new) + (1 if ctx.broken and not new else 0),
    }
    os.makedirs(os.path.join(ROOT, "evidence"), exist_ok=True)
    json.dump(ev, open(os.path.join(ROOT, "evidence", pid + ".json"), "w"), indent=1)
    log(f"[{pid}] tier={tier} seed={seed} cases={len(results)} agree={agree} oracle_fail={cov['oracle_failures']} "
        f"diff={cov['model_disagreements']} nontrivial={len(nontrivial)} proofs={discharged}/{obligations} wall={ev['wall_s']}s")
    sys.exit(1 if violation else 0)


if __name__ == "__main__":
    try:
        main()
    except SystemExit:
        raise
    except BaseException:
        import traceback
        pid = sys.argv[1].upper() if len(sys.argv) > 1 else "?"
        os.makedirs(os.path.join(ROOT, "replays"), exist_ok=True)
        rp = os.path.join(ROOT, "replays", f"{pid}-machinery-error.json")
        json.dump({"property": pid, "failing_input_found": False,
                   "no_failing_input_found": "the check itself failed before it could decide; the property is not shown to hold",
                   "traceback": traceback.format_exc()}, open(rp, "w"), indent=1)
        traceback.print_exc()
        print(f"VIOLATION property={pid} replay={rp} no-failing-input-found")
        sys.exit(1)
